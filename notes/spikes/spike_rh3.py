"""Throw-away: draw-spec tag/arity agreement between DrawCircuitSVG and DrawSVGComponents, handler coverage."""
import ast, pathlib, sys
R = pathlib.Path(sys.argv[1])/"sdk/visualisation"
svg = ast.parse((R/"draw_circuit_svg.py").read_text()); comp = ast.parse((R/"display_components_svg.py").read_text())
emitted = {}
for n in ast.walk(svg):
    if isinstance(n, ast.Tuple) and len(n.elts)==2 and isinstance(n.elts[0], ast.Constant) and isinstance(n.elts[0].value, str) and isinstance(n.elts[1], ast.Tuple):
        emitted.setdefault(n.elts[0].value, set()).add(len(n.elts[1].elts))
cls = next(c for c in comp.body if isinstance(c, ast.ClassDef))
meths = {m.name: m for m in cls.body if isinstance(m, ast.FunctionDef)}
handled = {}
add = meths["add"]
for n in ast.walk(add):
    if isinstance(n, ast.If) and isinstance(n.test, ast.Compare) and isinstance(n.test.comparators[0], ast.Constant):
        tag = n.test.comparators[0].value
        call = n.body[0].value; handled[tag] = call.func.attr
for tag, ars in sorted(emitted.items()):
    m = meths[handled[tag]] if tag in handled else None
    if m is None: print(tag, "NO HANDLER"); continue
    npos = len(m.args.args)-1; ndef = len(m.args.defaults)
    ok = all(npos-ndef <= a <= npos for a in ars)
    print(f"{tag:<11} emitted arity {sorted(ars)}  renderer {handled[tag]} takes {npos-ndef}..{npos}  {'ok' if ok else 'MISMATCH'}")
# component handlers
comps = ast.parse((pathlib.Path(sys.argv[1])/"sdk/circuit/components.py").read_text())
kinds = [c.name for c in comps.body if isinstance(c, ast.ClassDef) and any(ast.unparse(b)=="Component" for b in c.bases)]
for f in ("draw_circuit_svg.py","draw_circuit_mpl.py"):
    t = ast.parse((R/f).read_text()); reg=set()
    for n in ast.walk(t):
        if isinstance(n, ast.FunctionDef) and any(ast.unparse(d)=="_add.register" for d in n.decorator_list):
            reg.add(ast.unparse(n.args.args[1].annotation))
    print(f, "handlers", sorted(reg), "missing", sorted(set(kinds)-reg))
