"""Throw-away: crude R-C1 sweep over every function with a Circuit/State-typed parameter."""
import ast, pathlib, re, sys
ROOT = pathlib.Path(sys.argv[1])
TYPES = ("Circuit","Unitary","CompiledCircuit","State","AnnotatedState")
MUT = {"append","extend","insert","pop","remove","clear","update","sort","reverse","add","discard","setdefault","popitem"}
CIRC_MUT = {'_add_empty_mode','add','barrier','bs','compress_mode_swaps','herald','loss','mode_swaps','ps','remove_non_adjacent_bs','unpack_groups','add_herald'}
FRESH_CALLS = {"copy","deepcopy","list","dict","sorted","tuple","State","AnnotatedState","Circuit","set"}
n_fn=0; reports=[]
def is_fresh(e):
    if isinstance(e, ast.Call):
        f=e.func
        if isinstance(f, ast.Name) and f.id in FRESH_CALLS: return True
        if isinstance(f, ast.Attribute) and f.attr in ("copy",): return True
    if isinstance(e,(ast.List,ast.Dict,ast.ListComp,ast.DictComp,ast.BinOp,ast.Constant,ast.Tuple,ast.Compare)): return True
    return False
def root_alias(e, al):
    """return param name if expression e denotes the param object or a reference reachable from it"""
    if isinstance(e, ast.Name): return al.get(e.id)
    if isinstance(e, ast.Attribute):
        if e.attr in ("s","heralds","U","U_full","n_modes","n_photons","input_modes","_external_heralds"): return None   # copying properties (from summaries)
        return root_alias(e.value, al)
    if isinstance(e, ast.Subscript): return root_alias(e.value, al)
    if isinstance(e, ast.IfExp): return root_alias(e.body, al) or root_alias(e.orelse, al)
    return None
for f in sorted(ROOT.rglob("*.py")):
    t = ast.parse(f.read_text())
    for fn in ast.walk(t):
        if not isinstance(fn, ast.FunctionDef): continue
        params = [a.arg for a in fn.args.args if a.annotation is not None and any(re.search(r'\b%s\b'%x, ast.unparse(a.annotation)) for x in TYPES)]
        if not params: continue
        n_fn+=1
        al = {p:p for p in params}
        # two passes of flow-insensitive alias closure (over-approximation)
        for _ in range(3):
            for n in ast.walk(fn):
                if isinstance(n, ast.Assign) and len(n.targets)==1 and isinstance(n.targets[0], ast.Name):
                    if not is_fresh(n.value):
                        r = root_alias(n.value, al)
                        if r: al[n.targets[0].id]=r
                if isinstance(n, ast.For) and isinstance(n.target, ast.Name):
                    r = root_alias(n.iter, al)
                    if r and not (isinstance(n.iter, ast.Name) and n.iter.id in params and "State" in r): pass
        for n in ast.walk(fn):
            if isinstance(n,(ast.Assign,ast.AugAssign)):
                tg = n.targets if isinstance(n, ast.Assign) else [n.target]
                for t_ in tg:
                    if isinstance(t_,(ast.Attribute,ast.Subscript)):
                        r = root_alias(t_.value, al)
                        if r: reports.append((f, n.lineno, fn.name, r, "store "+ast.unparse(t_)[:50]))
                    if isinstance(n, ast.AugAssign) and isinstance(t_, ast.Name) and al.get(t_.id):
                        reports.append((f, n.lineno, fn.name, al[t_.id], "augassign on alias name "+ast.unparse(n)[:50]))
            if isinstance(n, ast.Call) and isinstance(n.func, ast.Attribute):
                r = root_alias(n.func.value, al)
                if r and (n.func.attr in MUT or n.func.attr in CIRC_MUT):
                    # receiver typed State has no mutators named add etc.; keep all for review
                    reports.append((f, n.lineno, fn.name, r, "call ."+n.func.attr+"()  "+ast.unparse(n)[:50]))
print("functions with typed params:", n_fn)
for r in reports: print("%s:%d %s [param %s] %s" % (str(r[0]).split('lightworks/')[-1], r[1], r[2], r[3], r[4]))
