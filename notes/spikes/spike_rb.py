"""Throw-away spike of R-B (state-space qualifiers) on the emulator.  Crude: structured walk, no CFG.

Qualifier = (kind, space, side)
  kind : 'state' | 'states' (list of) | 'dist' (dict keyed by state) | 'mcount' | 'pcount' | 'hmap' | 'hkeys' | None
  space: 'VIS' | 'FULL' | 'PAD' | 'LOSS' | None
  side : 'IN' | 'OUT' | None
"""
import ast, pathlib, sys

ROOT = pathlib.Path(sys.argv[1])
TOP = (None, None, None)
reports, checks = [], []


def Q(kind=None, space=None, side=None):
    return (kind, space, side)


def elem(q):
    k, s, d = q
    return Q("state", s, d) if k in ("states", "dist") else TOP


class Fn:
    def __init__(self, cls, node, mod):
        self.cls, self.node, self.mod = cls, node, mod
        self.name = f"{cls}.{node.name}" if cls else node.name


def load():
    fns = {}
    for rel in ["emulator/simulation/simulator.py", "emulator/simulation/sampler.py", "emulator/simulation/quick_sampler.py",
                "emulator/simulation/analyzer.py", "emulator/backend/backend.py", "emulator/simulation/probability_distribution.py"]:
        t = ast.parse((ROOT / rel).read_text())
        for n in t.body:
            if isinstance(n, ast.ClassDef):
                for m in n.body:
                    if isinstance(m, ast.FunctionDef):
                        # keep getters only for properties
                        decos = [ast.unparse(d) for d in m.decorator_list]
                        if any(d.endswith(".setter") for d in decos):
                            continue
                        fns[f"{n.name}.{m.name}"] = Fn(n.name, m, rel)
            elif isinstance(n, ast.FunctionDef):
                fns[n.name] = Fn(None, n, rel)
    return fns


FNS = load()
# parameter qualifiers collected from call sites: fn name -> {param: qualifier}
PARAMQ = {
    "Simulator.simulate": {"inputs": Q("states", "VIS", "IN"), "outputs": Q("states", "VIS", "OUT")},
    "Analyzer.analyze": {"inputs": Q("states", "VIS", "IN")},
    "Backend.full_probability_distribution": {"input_state": Q("state", "FULL", "IN")},
    "pdist_calc": {"inputs": Q("dist", "FULL", "IN")},
    "annotated_state_pdist_calc": {"inputs": Q("dist", "FULL", "IN")},
}
FIELDQ = {}   # ('Class','field') -> qualifier
RETQ = {}     # fn -> qualifier of return


def space_eq(a, b, lossless=False, noheralds=False):
    if a is None or b is None:
        return True
    if a == b:
        return True
    if lossless and {a, b} == {"FULL", "PAD"}:
        return True
    if noheralds and {a, b} == {"VIS", "FULL"}:
        return True
    return False


class Walker:
    def __init__(self, fn):
        self.fn = fn
        self.env = dict(PARAMQ.get(fn.name, {}))
        self.lossless = False
        self.noheralds = False
        self.returns = []

    def rep(self, node, msg):
        reports.append((self.fn.mod.split("/")[-1], node.lineno, self.fn.name, msg, ast.unparse(node)[:70]))

    def chk(self, node, what):
        checks.append((self.fn.name, node.lineno, what))

    # ---- expression qualifier
    def q(self, e):
        if e is None:
            return TOP
        if isinstance(e, ast.Name):
            return self.env.get(e.id, TOP)
        if isinstance(e, ast.Attribute):
            src = ast.unparse(e)
            base = ast.unparse(e.value)
            if e.attr == "input_modes":
                return Q("mcount", "VIS")
            if e.attr == "n_modes" and ("circuit" in base or "circ" in base.lower()):
                return Q("mcount", "FULL")
            if e.attr == "loss_modes":
                return Q("mcount", "LOSS")
            if e.attr == "n_photons":
                b = self.q(e.value)
                sp = b[1]
                return Q("pcount", "FULL" if sp == "PAD" else sp)
            if e.attr == "s":
                return self.q(e.value)
            if e.attr in ("input_state",) and base == "self":
                return Q("state", "VIS", "IN")
            if e.attr in ("probability_distribution",) and base == "self":
                return RETQ.get(f"{self.fn.cls}.probability_distribution", TOP)
            if e.attr in ("continuous_distribution",) and base == "self":
                return RETQ.get(f"{self.fn.cls}.probability_distribution", TOP)
            if base == "self" and (self.fn.cls, e.attr) in FIELDQ:
                return FIELDQ[(self.fn.cls, e.attr)]
            return TOP
        if isinstance(e, ast.Subscript):
            src = ast.unparse(e)
            if src.endswith('heralds["input"]'):
                return Q("hmap", "FULL", "IN")
            if src.endswith('heralds["output"]'):
                return Q("hmap", "FULL", "OUT")
            if isinstance(e.value, ast.Attribute) and ast.unparse(e.value.value) == "self" and (self.fn.cls, e.value.attr + "[]") in FIELDQ:
                return FIELDQ[(self.fn.cls, e.value.attr + "[]")]
            b = self.q(e.value)
            if isinstance(e.slice, ast.Slice):
                up = e.slice.upper
                if up is not None and self.q(up) == Q("mcount", "FULL") and b[0] == "state":
                    if b[1] not in ("PAD", "FULL", None):
                        self.rep(e, f"slice to n_modes of a {b[1]} state")
                    return Q("state", "FULL", b[2])
                return b
            if b[0] in ("states",):
                return elem(b)
            return TOP
        if isinstance(e, ast.Call):
            f = e.func
            fname = ast.unparse(f)
            if fname.endswith("add_heralds_to_state"):
                s, h = self.q(e.args[0]), self.q(e.args[1])
                self.chk(e, "add_heralds")
                if s[1] not in ("VIS", None):
                    self.rep(e, f"add_heralds_to_state on a {s[1]} state")
                if s[2] and h[2] and s[2] != h[2]:
                    self.rep(e, f"state side {s[2]} completed with {h[2]} herald map")
                return Q("state", "FULL", s[2] or h[2])
            if fname.endswith("remove_heralds_from_state"):
                s = self.q(e.args[0])
                self.chk(e, "remove_heralds")
                if s[1] not in ("FULL", None):
                    self.rep(e, f"remove_heralds_from_state on a {s[1]} state")
                return Q("state", "VIS", s[2])
            if fname.endswith("fock_basis"):
                n, p = self.q(e.args[0]), self.q(e.args[1])
                self.chk(e, "fock_basis")
                if n[1] and p[1] and n[1] != p[1] and not (n[1] == "PAD" and p[1] == "FULL"):
                    self.rep(e, f"fock_basis(mode count in {n[1]}, photon count in {p[1]})")
                return Q("states", n[1], None)
            if fname in ("len",):
                b = self.q(e.args[0])
                return Q("mcount", b[1]) if b[0] == "state" else TOP
            if fname in ("sum",):
                b = self.q(e.args[0])
                return Q("pcount", "FULL" if b[1] == "PAD" else b[1]) if b[0] == "state" else TOP
            if fname in ("State", "list", "copy"):
                return self.q(e.args[0]) if e.args else TOP
            if fname.endswith("probability_amplitude") or fname.endswith(".probability") or fname.endswith("Permanent.calculate"):
                i, o = self.q(e.args[1]), self.q(e.args[2])
                self.chk(e, "backend sink")
                for nm, v, side in (("input", i, "IN"), ("output", o, "OUT")):
                    if v[1] is not None and not space_eq(v[1], "PAD", self.lossless):
                        self.rep(e, f"backend {nm} argument is {v[1]}, needs PAD")
                    if v[2] is not None and v[2] != side:
                        self.rep(e, f"backend {nm} argument has side {v[2]}")
                return TOP
            if fname.endswith("SLOS.calculate"):
                i = self.q(e.args[1])
                self.chk(e, "backend sink")
                if i[1] is not None and not space_eq(i[1], "PAD", self.lossless):
                    self.rep(e, f"SLOS input is {i[1]}, needs PAD")
                return Q("dist", "PAD", "OUT")
            if fname.endswith(".validate") and "post_sel" in fname:
                s = self.q(e.args[0])
                self.chk(e, "post-selection sink")
                if not space_eq(s[1], "VIS", noheralds=self.noheralds):
                    self.rep(e, f"post-selection sees a {s[1]} state")
                return TOP
            if fname.endswith("_get_output"):
                return self.q(e.args[0])
            if fname.endswith("full_probability_distribution"):
                return Q("dist", "FULL", "OUT")
            if fname.endswith("pdist_calc"):
                return Q("dist", "FULL", "OUT")
            if fname.endswith("_build_statistics"):
                return Q("dist", self.q(e.args[0])[1], "IN")
            if fname.startswith("self.") and f"{self.fn.cls}.{f.attr}" in FNS:
                callee = f"{self.fn.cls}.{f.attr}"
                params = [a.arg for a in FNS[callee].node.args.args if a.arg != "self"]
                for pn, a in zip(params, e.args):
                    qa = self.q(a)
                    if qa != TOP:
                        PARAMQ.setdefault(callee, {})[pn] = qa
                return RETQ.get(callee, TOP)
            if isinstance(f, ast.Attribute) and f.attr in ("items", "keys", "values"):
                return self.q(f.value)
            if fname == "enumerate":
                return self.q(e.args[0])
            for a in e.args:
                self.q(a)
            return TOP
        if isinstance(e, ast.BinOp) and isinstance(e.op, ast.Add):
            l, r = self.q(e.left), self.q(e.right)
            rs = ast.unparse(e.right)
            if l[0] == "state" and ("loss_modes" in rs):
                if l[1] not in ("FULL", None):
                    self.rep(e, f"loss padding applied to a {l[1]} state")
                return Q("state", "PAD", l[2])
            if l[0] == "state" and r[0] == "state" and r[1] == "LOSS":
                return Q("state", "PAD", l[2])
            if l[0] == "states" and r[0] == "states":
                return l
            return l if l != TOP else r
        if isinstance(e, ast.List):
            qs = [self.q(x) for x in e.elts]
            if qs and all(x[0] == "state" for x in qs):
                return Q("states", qs[0][1], qs[0][2])
            return TOP
        if isinstance(e, ast.BinOp) and isinstance(e.op, ast.Mult) and "loss_modes" in ast.unparse(e):
            return Q("state", "LOSS", None)
        if isinstance(e, ast.ListComp):
            g = e.generators[0]
            w = Walker(self.fn); w.env = dict(self.env); w.lossless, w.noheralds = self.lossless, self.noheralds
            w.bind(g.target, elem(self.q(g.iter)) if self.q(g.iter)[0] in ("states", "dist") else TOP)
            qe = w.q(e.elt)
            return Q("states", qe[1], qe[2]) if qe[0] == "state" else TOP
        if isinstance(e, ast.Tuple):
            return tuple(self.q(x) for x in e.elts)
        if isinstance(e, ast.Compare):
            l = self.q(e.left)
            for c in e.comparators:
                r = self.q(c)
                if l[0] in ("mcount", "pcount") and r[0] == l[0] and l[1] and r[1] and l[1] != r[1]:
                    self.rep(e, f"compares a {l[1]} {l[0]} with a {r[1]} {r[0]}")
                elif l[0] in ("mcount", "pcount") and r[0] == l[0]:
                    self.chk(e, "count comparison")
            return TOP
        for c in ast.iter_child_nodes(e):
            if isinstance(c, ast.expr):
                self.q(c)
        return TOP

    def bind(self, target, q):
        if isinstance(target, ast.Subscript) and ast.unparse(target.value).startswith("self."):
            FIELDQ[(self.fn.cls, target.value.attr + "[]")] = q
            return
        if isinstance(target, ast.Name):
            self.env[target.id] = q
        elif isinstance(target, ast.Tuple):
            if isinstance(q, tuple) and len(q) == len(target.elts) and all(isinstance(x, tuple) for x in q):
                for t, x in zip(target.elts, q):
                    self.bind(t, x)
            else:
                # enumerate / items: (index, element) or (key, value)
                if len(target.elts) == 2:
                    self.bind(target.elts[0], q if q[0] == "state" else TOP)
                    self.bind(target.elts[1], q if q[0] == "state" else TOP)
        elif isinstance(target, ast.Attribute) and ast.unparse(target.value) == "self":
            FIELDQ[(self.fn.cls, target.attr)] = q

    def run(self, stmts):
        for s in stmts:
            if isinstance(s, ast.Assign):
                q = self.q(s.value)
                for t in s.targets:
                    self.bind(t, q)
            elif isinstance(s, ast.AugAssign):
                rs = ast.unparse(s.value)
                if isinstance(s.target, ast.Name):
                    l = self.env.get(s.target.id, TOP)
                    if l[0] == "state" and "loss_modes" in rs:
                        if l[1] not in ("FULL", None):
                            self.rep(s, f"loss padding applied to a {l[1]} state")
                        self.env[s.target.id] = Q("state", "PAD", l[2])
                    elif l[0] == "states" or (l == TOP and self.q(s.value)[0] == "states"):
                        v = self.q(s.value)
                        self.env[s.target.id] = v if l == TOP else l
                    else:
                        self.q(s.value)
            elif isinstance(s, ast.For):
                it = self.q(s.iter)
                its = ast.unparse(s.iter)
                if its.startswith("enumerate("):
                    self.bind(s.target.elts[1], elem(it) if it[0] in ("states", "dist") else TOP)
                elif ".items()" in its and it[0] == "dist":
                    self.bind(s.target.elts[0], elem(it))
                else:
                    self.bind(s.target, elem(it) if it[0] in ("states", "dist") else TOP)
                self.run(s.body); self.run(s.orelse)
            elif isinstance(s, ast.If):
                self.q(s.test)
                ts = ast.unparse(s.test)
                w1 = Walker(self.fn); w1.env = dict(self.env); w1.lossless, w1.noheralds = self.lossless, self.noheralds; w1.returns = self.returns
                w2 = Walker(self.fn); w2.env = dict(self.env); w2.lossless, w2.noheralds = self.lossless, self.noheralds; w2.returns = self.returns
                if ts.startswith("not ") and ts.endswith("loss_modes"):
                    w1.lossless = True
                if ts.strip() in ("heralds",):
                    w2.noheralds = True
                w1.run(s.body); w2.run(s.orelse)
                if w2.noheralds:
                    for k, v in list(w2.env.items()):
                        if v != self.env.get(k) and v[0] == "state" and v[1] == "FULL":
                            w2.env[k] = Q("state", "VIS", v[2])
                for k in set(w1.env) | set(w2.env):
                    a, b = w1.env.get(k, TOP), w2.env.get(k, TOP)
                    self.env[k] = a if a == b or b == TOP or (w2.noheralds and a[0] == b[0]) else (b if a == TOP else a)
            elif isinstance(s, ast.Return):
                q = self.q(s.value)
                if q != TOP:
                    RETQ[self.fn.name] = q
                self.ret_node = s
                self.returns.append((s, q))
            elif isinstance(s, (ast.Expr,)):
                self.q(s.value)
            elif isinstance(s, ast.Try):
                self.run(s.body)
                for h in s.handlers:
                    self.run(h.body)
            elif isinstance(s, ast.While):
                self.q(s.test); self.run(s.body)
            elif isinstance(s, ast.Raise):
                pass
            else:
                for c in ast.walk(s):
                    pass


ORDER = ["Backend.probability_amplitude", "Backend.probability", "Backend.full_probability_distribution", "pdist_calc", "annotated_state_pdist_calc",
         "Simulator._process_inputs", "Simulator._process_outputs", "Simulator.simulate",
         "Sampler.probability_distribution", "Sampler.continuous_distribution", "Sampler.sample", "Sampler.sample_N_inputs", "Sampler.sample_N_outputs",
         "QuickSampler._calculate_probabiltiies", "QuickSampler.probability_distribution", "QuickSampler.continuous_distribution", "QuickSampler.sample", "QuickSampler.sample_N_outputs",
         "Analyzer.analyze", "Analyzer._process_inputs", "Analyzer._generate_outputs", "Analyzer._get_probs", "Analyzer.analyze"]
RETQ["Simulator._process_inputs"] = Q("states", "VIS", "IN")
RETQ["Simulator._process_outputs"] = (Q("states", "VIS", "IN"), Q("states", "VIS", "OUT"))
for rnd in range(2):
    if rnd == 1:
        reports.clear(); checks.clear()
    for name in ORDER:
        fn = FNS[name]
        w = Walker(fn)
        w.run(fn.node.body)
        # B4: sampling APIs return VIS
        if name in ("Sampler.sample", "QuickSampler.sample"):
            for node, q in w.returns:
                checks.append((name, node.lineno, "public return"))
                if q[1] not in ("VIS", None):
                    reports.append((fn.mod.split("/")[-1], node.lineno, name, f"sampling API returns a {q[1]} state", ast.unparse(node)[:70]))
print("resolved checks:", len(checks))
seen = set()
for r in reports:
    if r not in seen:
        seen.add(r); print("REPORT %s:%d %s: %s   [%s]" % r)
if not reports:
    print("no reports")
