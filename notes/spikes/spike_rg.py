"""Throw-away: classify subscript stores into dict-like locals by R-G idiom."""
import ast, pathlib, sys
ROOT = pathlib.Path(sys.argv[1])
files = ["emulator/backend/backend.py","emulator/backend/slos.py","emulator/simulation/probability_distribution.py","emulator/components/source.py","emulator/simulation/sampler.py","emulator/simulation/quick_sampler.py","emulator/results/simulation_result.py","emulator/results/sampling_result.py"]
def parents(tree):
    par = {}
    for n in ast.walk(tree):
        for c in ast.iter_child_nodes(n): par[c]=n
    return par
def src(n): return ast.unparse(n)
for f in files:
    tree = ast.parse((ROOT/f).read_text()); par = parents(tree)
    for fn in [n for n in ast.walk(tree) if isinstance(n, ast.FunctionDef)]:
        for n in ast.walk(fn):
            if not (isinstance(n, ast.Assign) and isinstance(n.targets[0], ast.Subscript)): continue
            tgt = n.targets[0]; D = src(tgt.value); K = src(tgt.slice)
            # skip array/list stores (index is a tuple or int-like names i,j) and non-mass maps (heuristic: value mentions prob-ish)
            if isinstance(tgt.slice, ast.Tuple): continue
            # walk up to find enclosing if with membership test
            cls = None; p = n; chain=[]
            while p in par and par[p] is not fn:
                q = par[p]
                if isinstance(q, ast.If):
                    t = q.test; branch = "body" if p in q.body else "orelse"
                    ts = src(t)
                    if isinstance(t, ast.Compare) and len(t.ops)==1 and isinstance(t.ops[0],(ast.In,ast.NotIn)) and src(t.comparators[0])==D and src(t.left)==K:
                        absent = (isinstance(t.ops[0], ast.NotIn) and branch=="body") or (isinstance(t.ops[0], ast.In) and branch=="orelse")
                        other = q.orelse if branch=="body" else q.body
                        has_aug = any(isinstance(x, ast.AugAssign) and src(x.target)==src(tgt) for s_ in other for x in ast.walk(s_))
                        if absent and has_aug: cls = "a:guarded-accumulate"
                    if isinstance(t, ast.UnaryOp) and isinstance(t.op, ast.Not) and src(t.operand)==D and branch=="body": cls = cls or "d:emptiness-guarded"
                if isinstance(q, ast.For):
                    it = src(q.iter); tv = src(q.target)
                    chain.append((tv, it))
                p = q
            if cls is None and isinstance(n.value, ast.BinOp) and src(n.value).startswith(f"{D}.get({K}"): cls = "e:get-accumulate"
            if cls is None and chain:
                tv, it = chain[0]
                names_in_key = {x.id for x in ast.walk(tgt.slice) if isinstance(x, ast.Name)}
                loopvars = {x.id for x in ast.walk(ast.parse(tv).body[0].value) if isinstance(x, ast.Name)}
                if it.startswith(D+".items()") or it == D: cls = "c:self-rescale"
                elif names_in_key & loopvars:
                    # many-to-one?
                    many = any(isinstance(x,(ast.Slice,)) for x in ast.walk(tgt.slice)) or any(isinstance(x,(ast.ListComp,)) for x in ast.walk(tgt.slice)) or ".merge(" in K
                    if len(chain)>=2 and isinstance(tgt.slice, ast.BinOp): cls = "b2:product-concat"
                    elif not many: cls = "b1:injective-rekey"
                    else: cls = "MANY-TO-ONE UNGUARDED"
            print(f"{f.split('/')[-1]}:{n.lineno:<4} {fn.name:<34} {src(n)[:58]:<60} -> {cls or 'UNMATCHED'}")
