"""Throw-away: confirm the R-K identities hold on the pinned tree (uses eval/sympy only for the spike)."""
import ast, pathlib, sys, numpy as np, sympy as sp
ROOT = pathlib.Path(sys.argv[1])
t = ast.parse((ROOT/"qubit/gates/single_qubit_gates.py").read_text())
ref = {"I": np.eye(2), "H": np.array([[1,1],[1,-1]])/np.sqrt(2), "X": np.array([[0,1],[1,0]]), "Y": np.array([[0,-1j],[1j,0]]), "Z": np.diag([1,-1]),
       "S": np.diag([1,1j]), "Sadj": np.diag([1,-1j]), "T": np.diag([1,np.exp(1j*np.pi/4)]), "Tadj": np.diag([1,np.exp(-1j*np.pi/4)]), "SX": 0.5*np.array([[1+1j,1-1j],[1-1j,1+1j]])}
th = sp.symbols("theta", real=True)
refp = {"P": sp.Matrix([[1,0],[0,sp.exp(sp.I*th)]]), "Rx": sp.Matrix([[sp.cos(th/2), -sp.I*sp.sin(th/2)],[-sp.I*sp.sin(th/2), sp.cos(th/2)]]),
        "Ry": sp.Matrix([[sp.cos(th/2), -sp.sin(th/2)],[sp.sin(th/2), sp.cos(th/2)]]), "Rz": sp.Matrix([[sp.exp(-sp.I*th/2),0],[0,sp.exp(sp.I*th/2)]])}
mats = {}
for cls in [n for n in t.body if isinstance(n, ast.ClassDef)]:
    init = next(m for m in cls.body if isinstance(m, ast.FunctionDef) and m.name=="__init__")
    assign = next(s for s in init.body if isinstance(s, ast.Assign) and s.targets[0].id=="unitary")
    expr = ast.unparse(assign.value)
    if cls.name in ref:
        M = eval(expr, {"np": np}); mats[cls.name]=M
        lam = M[np.nonzero(ref[cls.name])][0]/ref[cls.name][np.nonzero(ref[cls.name])][0]
        print(cls.name, "const ok" if np.allclose(M, lam*ref[cls.name]) and abs(abs(lam)-1)<1e-12 else "MISMATCH")
    else:
        class NP:  # sympy stand-in for np
            array=staticmethod(lambda x: sp.Matrix(x)); cos=staticmethod(sp.cos); sin=staticmethod(sp.sin); exp=staticmethod(sp.exp); pi=sp.pi
        M = eval(expr, {"np": NP, "theta": th}); R = refp[cls.name]
        ok = all(sp.simplify(M[i,j]*R[k,l]-M[k,l]*R[i,j])==0 for i in range(2) for j in range(2) for k in range(2) for l in range(2)) and sp.simplify(M.H*M - sp.eye(2))==sp.zeros(2)
        print(cls.name, "poly ok" if ok else "MISMATCH")
# tomography tables
P = {"I": np.eye(2), "X": ref["X"], "Y": ref["Y"], "Z": ref["Z"]}
H,S,Z,I = mats["H"], mats["S"], mats["Z"], mats["I"]
meas = {"X": H, "Y": H@Z@S, "Z": I}
for k,U in meas.items(): print("meas", k, np.allclose(U@P[k]@U.conj().T, P["Z"]))
rho = {"X+": np.array([[1,1],[1,1]])/2, "X-": np.array([[1,-1],[-1,1]])/2, "Y+": np.array([[1,-1j],[1j,1]])/2, "Y-": np.array([[1,1j],[-1j,1]])/2, "Z+": np.diag([1,0]), "Z-": np.diag([0,1])}
prep = {"X+": ([1,0],H), "X-": ([0,1],H), "Y+": ([1,0],S@H), "Y-": ([0,1],S@H), "Z+": ([1,0],I), "Z-": ([0,1],I)}
for k,(e,C) in prep.items():
    v = C@np.array(e); print("prep", k, np.allclose(np.outer(v, v.conj()), rho[k]), "rho=(I±P)/2", np.allclose(rho[k], (np.eye(2) + (1 if k[1]=="+" else -1)*P[k[0]])/2))
vecs = np.column_stack([rho[k].flatten() for k in ["Z+","Z-","X+","Y+"]]); print("LI inputs complete: det", abs(np.linalg.det(vecs))>1e-9)
# source table
nu, pi_, p1 = sp.symbols("nu p_i p1"); pd = 1-pi_; p2 = 1-p1
c0 = 1 - nu*(p1 + p2*nu + 2*(1-nu)*p2); c1 = pi_*nu*(p1+(1-nu)*p2); c1d = pd*nu*(p1+(1-nu)*p2); c1dp = nu*(1-nu)*p2; c12d = nu**2*pi_*p2; c1d2d = nu**2*pd*p2
print("source sum==1:", sp.expand(c0+c1+c1d+c1dp+c12d+c1d2d)==1, "| at (1,1,1):", [sp.expand(x.subs({nu:1,pi_:1,p1:1})) for x in (c0,c1,c1d,c1dp,c12d,c1d2d)])
print("p_i=1 kills dpc entries:", sp.expand(c1d.subs(pi_,1))==0, sp.expand(c1d2d.subs(pi_,1))==0, "| p_i=0 kills label-0 entries:", sp.expand(c1.subs(pi_,0))==0, sp.expand(c12d.subs(pi_,0))==0, "| p1=1 kills mpc:", [sp.expand(x.subs(p1,1))==0 for x in (c1dp,c12d,c1d2d)])
