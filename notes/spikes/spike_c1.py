"""Throw-away feasibility spike: may-alias of a parameter + mutator summaries on Circuit.add (rule R-C1)."""
import ast, sys, pathlib
src = pathlib.Path(sys.argv[1]).read_text()
tree = ast.parse(src)
cls = next(n for n in tree.body if isinstance(n, ast.ClassDef) and n.name == "Circuit")
methods = {m.name: m for m in cls.body if isinstance(m, ast.FunctionDef)}
MUT = {"append","extend","insert","pop","remove","clear","update","sort","reverse"}
def mangle(a): return "_Circuit"+a if a.startswith("__") and not a.endswith("__") else a
# 1. summaries: does method write self state?
def writes_self(fn, seen=()):
    for n in ast.walk(fn):
        if isinstance(n,(ast.Assign,ast.AugAssign,ast.AnnAssign)):
            tgts = n.targets if isinstance(n,ast.Assign) else [n.target]
            for t in tgts:
                for tt in ast.walk(t):
                    if isinstance(tt, ast.Attribute) and isinstance(tt.value, ast.Name) and tt.value.id=="self" and isinstance(tt.ctx, ast.Store):
                        return True
                    if isinstance(tt, ast.Subscript) and isinstance(tt.value, ast.Attribute) and isinstance(tt.value.value, ast.Name) and tt.value.value.id=="self":
                        return True
        if isinstance(n, ast.Call):
            f = n.func
            if isinstance(f, ast.Name) and f.id=="setattr" and isinstance(n.args[0], ast.Name) and n.args[0].id=="self": return True
            if isinstance(f, ast.Attribute):
                if f.attr in MUT and isinstance(f.value, ast.Attribute) and isinstance(f.value.value, ast.Name) and f.value.value.id=="self": return True
                if isinstance(f.value, ast.Name) and f.value.id=="self" and f.attr in methods and f.attr not in seen and f.attr!=fn.name:
                    if writes_self(methods[f.attr], seen+(fn.name,)): return True
    return False
mutators = {m for m,f in methods.items() if m not in ("__init__",) and writes_self(f)}
print("self-mutating methods:", sorted(mutators))
# 2. flow-sensitive may-alias of names to PARAM 'circuit' in add (structured walk with joins)
fn = methods["add"]
P = "circuit"
def fresh_expr(e):
    return isinstance(e, ast.Call) and isinstance(e.func, ast.Attribute) and e.func.attr in ("copy",) or (isinstance(e, ast.Call) and isinstance(e.func, ast.Name) and e.func.id in ("copy","deepcopy","list","dict","Circuit"))
def val(e, env):
    if isinstance(e, ast.Name): return env.get(e.id, {"?"})
    if fresh_expr(e): return {"FRESH"}
    if isinstance(e, ast.IfExp): return val(e.body, env) | val(e.orelse, env)
    if isinstance(e, ast.Attribute):   # field of something: reference into that object
        base = val(e.value, env)
        return {f"{b}.{mangle(e.attr)}" for b in base}
    if isinstance(e, ast.Call):
        # method call returning: consult tiny table
        if isinstance(e.func, ast.Attribute) and e.func.attr == "_add_empty_mode": return {"FRESH"}
        return {"?"}
    return {"?"}
reports = []
def touches_param(vs): return any(v == "PARAM" or v.startswith("PARAM.") for v in vs)
def visit_expr_calls(node, env):
    for n in ast.walk(node):
        if isinstance(n, ast.Call) and isinstance(n.func, ast.Attribute):
            recv = val(n.func.value, env)
            if n.func.attr in mutators and touches_param(recv):
                reports.append((n.lineno, f"mutator .{n.func.attr}() on value that may alias parameter: {sorted(recv)}", ast.unparse(n)[:70]))
            if n.func.attr in MUT and touches_param(recv):
                reports.append((n.lineno, f"in-place .{n.func.attr}() on container that may belong to parameter: {sorted(recv)}", ast.unparse(n)[:70]))
def run(stmts, env):
    for s in stmts:
        if isinstance(s, ast.Assign):
            visit_expr_calls(s.value, env)
            v = val(s.value, env)
            for t in s.targets:
                if isinstance(t, ast.Name): env[t.id] = v
        elif isinstance(s, ast.If):
            visit_expr_calls(s.test, env)
            e1 = dict(env); run(s.body, e1)
            e2 = dict(env); run(s.orelse, e2)
            for k in set(e1)|set(e2):
                env[k] = e1.get(k, {"?"}) | e2.get(k, {"?"})
        elif isinstance(s, (ast.For, ast.While)):
            if isinstance(s, ast.For): visit_expr_calls(s.iter, env)
            for _ in range(2):   # two passes = fixpoint for this lattice height
                e1 = dict(env); run(s.body, e1)
                for k in set(e1): env[k] = env.get(k, set()) | e1[k]
        elif isinstance(s, ast.Expr):
            visit_expr_calls(s.value, env)
        elif isinstance(s, (ast.Raise, ast.Return)):
            pass
        else:
            visit_expr_calls(s, env)
env = {P: {"PARAM"}, "self": {"SELF"}}
run(fn.body, env)
seen=set()
for r in reports:
    if r not in seen: print("REPORT line %d: %s   [%s]" % r); seen.add(r)
if not reports: print("no reports")
