import lightworks as lw, numpy as np, warnings, itertools, random
from lightworks import emulator as emu
from math import factorial, prod
from thewalrus import perm
warnings.simplefilter("ignore")
rng = random.Random(3)
def fock(N, n):
    if N == 1: yield (n,); return
    for v in range(n + 1):
        for rest in fock(N - 1, n - v): yield (v,) + rest
def amp(U, a, b):
    x = [i for i, n in enumerate(b) for _ in range(n)]; y = [i for i, n in enumerate(a) for _ in range(n)]
    if len(x)!=len(y): return 0
    if not x: return 1
    return perm(U[np.ix_(x, y)]) / np.sqrt(prod(factorial(i) for i in a)*prod(factorial(i) for i in b))
def rand_lossy(n, heralds=True):
    c = lw.Unitary(lw.random_unitary(n, seed=rng.randrange(10**6)))
    for m in range(n):
        if rng.random()<0.5: c.loss(m, rng.random()*0.6)
    c.bs(0, reflectivity=rng.random()); 
    if heralds and n>=3:
        k = rng.randint(0,2); ms = rng.sample(range(n), k); outs = rng.sample(range(n), k)
        for a,b in zip(ms,outs): c.herald(rng.randint(0,1), a, b)
    return c
def ref_dist(c, vis_in):
    """exact distribution over FULL circuit modes (marginalising loss modes) from U_full"""
    U = c.U_full; N = c.n_modes; L = U.shape[0]-N
    hin = c.heralds["input"]; it = iter(vis_in)
    full = [hin[i] if i in hin else next(it) for i in range(N)] + [0]*L
    n = sum(full); d = {}
    for out in fock(N+L, n):
        p = abs(amp(U, full, out))**2
        key = tuple(out[:N]); d[key] = d.get(key,0)+p
    return d
bad = 0; tot=0; worst=0
for it in range(60):
    n = rng.randint(2,4); c = rand_lossy(n)
    vis = c.input_modes
    s_in = [rng.randint(0,2) for _ in range(vis)]
    if sum(s_in) + sum(c.heralds["input"].values())>4: continue
    ref = ref_dist(c, s_in)
    for be in ("permanent","slos"):
        tot+=1
        d = emu.Sampler(c, lw.State(s_in), backend=be).probability_distribution
        got = {tuple(k.s): v for k,v in d.items()}
        err = max(abs(got.get(k,0)-v) for k,v in ref.items()) if ref else 0
        extra = [k for k in got if k not in ref]
        tot_p = sum(got.values())
        worst = max(worst, err)
        if err>1e-6 or extra or abs(tot_p-1)>1e-6 or min(got.values())<0:
            bad+=1; print("C04 mismatch", be, n, s_in, c.heralds, "err", err, "sum", tot_p)
print("C04 probe", tot, "bad", bad, "worst", worst)
