import lightworks as lw, numpy as np, warnings, random, itertools
from lightworks import emulator as emu
warnings.simplefilter("ignore")
rng = random.Random(5)
# C06: input statistics normalised; output normalised; perfect -> ideal; basic path == full path in the limit
bad=0
for it in range(200):
    b, p, i = rng.random(), 0.5+0.5*rng.random()+1e-9, rng.random()
    p = min(p,1.0)
    if rng.random()<0.2: b=1.0
    if rng.random()<0.2: p=1.0
    if rng.random()<0.2: i=rng.choice([0.0,1.0])
    src = emu.Source(purity=p, brightness=b, indistinguishability=i)
    st = lw.State([rng.randint(0,2) for _ in range(3)])
    stats = src._build_statistics(st)
    tot = sum(stats.values())
    if abs(tot-1)>1e-9 or min(stats.values())<0: bad+=1; print("stats not normalised", b,p,i, st, tot)
    c = lw.Unitary(lw.random_unitary(3, seed=it))
    if rng.random()<0.5:
        for m in range(3): c.loss(m, 0.2*rng.random())
    if st.n_photons<=3:
        for be in ("permanent","slos"):
            d = emu.Sampler(c, st, source=src, backend=be).probability_distribution
            t = sum(d.values())
            if abs(t-1)>1e-6: bad+=1; print("output not normalised", be, b,p,i, st, t)
print("C06 probe bad", bad)
# C10: parameter bounds invariant under random ops
P = lw.Parameter
bad=0
for it in range(300):
    v = rng.uniform(-1,1); lo = v-rng.random(); hi = v+rng.random()
    q = P(v, bounds=[lo,hi])
    for _ in range(30):
        op = rng.choice(["set","min","max","minNone","maxNone"])
        x = rng.uniform(-3,3)
        before = (q.get(), q.min_bound, q.max_bound)
        try:
            if op=="set": q.set(x)
            elif op=="min": q.min_bound = x
            elif op=="max": q.max_bound = x
            elif op=="minNone": q.min_bound = None
            else: q.max_bound = None
        except Exception as e:
            if (q.get(), q.min_bound, q.max_bound)!=before: bad+=1; print("rejected update changed state", op)
        lo_, hi_ = q.min_bound, q.max_bound
        if (lo_ is not None and q.get()<lo_) or (hi_ is not None and q.get()>hi_): bad+=1; print("out of bounds", op, q)
print("C10 probe bad", bad)
