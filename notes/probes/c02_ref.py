"""Independent reference for C02: heralded Fock amplitudes compose under add()."""
import itertools, sys, numpy as np
from math import factorial, prod
from thewalrus import perm
import lightworks as lw
from lightworks import emulator as emu

def fock(N, n):
    if N == 0:
        if n == 0: yield ()
        return
    if N == 1:
        yield (n,); return
    for v in range(n + 1):
        for rest in fock(N - 1, n - v):
            yield (v,) + rest

def amp(U, s_in, s_out):
    x = [i for i, n in enumerate(s_out) for _ in range(n)]
    y = [i for i, n in enumerate(s_in) for _ in range(n)]
    if len(x) != len(y): return 0
    if not x: return 1
    return perm(U[np.ix_(x, y)]) / np.sqrt(prod(factorial(i) for i in s_in) * prod(factorial(i) for i in s_out))

def heralded_map(circ, n):
    """dict (vis_in, vis_out) -> amplitude for n visible photons using circ.U_full + heralds (own formula)."""
    U = circ.U_full  # assume lossless
    hin, hout = circ.heralds["input"], circ.heralds["output"]
    N = circ.n_modes; V = N - len(hin)
    def full(vis, h):
        out = []; it = iter(vis)
        for i in range(N):
            out.append(h[i] if i in h else next(it))
        return out
    res = {}
    basis = list(fock(V, n))
    for a in basis:
        for b in basis:
            res[a, b] = amp(U, full(a, hin), full(b, hout))
    return res, basis

def embed_map(sub_map, sub_basis_n, V, m, v, n):
    """Map on V visible modes, n photons, where sub acts on visible modes m..m+v-1.
    sub_map_by_k: dict k -> (map,basis) for k photons in the sub's window."""
    basis = list(fock(V, n))
    res = {}
    for a in basis:
        for b in basis:
            # spectators must match
            if a[:m] != b[:m] or a[m+v:] != b[m+v:]:
                res[a, b] = 0; continue
            k = sum(a[m:m+v])
            if sum(b[m:m+v]) != k: res[a,b] = 0; continue
            res[a, b] = sub_map[k][0][a[m:m+v], b[m:m+v]]
    return res, basis

def compose(first, second, basis):
    return {(a, b): sum(second[c, b] * first[a, c] for c in basis) for a in basis for b in basis}

def check(parent_before, sub, m, parent_after, n):
    V = parent_before.n_modes - len(parent_before.heralds["input"])
    v = sub.n_modes - len(sub.heralds["input"])
    A0, basis = heralded_map(parent_before, n)
    sub_maps = {k: heralded_map(sub, k) for k in range(n + 1)}
    AS, _ = embed_map(sub_maps, None, V, m, v, n)
    exp = compose(A0, AS, basis)
    got, _ = heralded_map(parent_after, n)
    return max(abs(exp[k] - got[k]) for k in exp)
