import sys, itertools, numpy as np
sys.path.insert(0, '/tmp/c02')
from ref import *
def mk_sub(nm, heralds, seed):
    s = lw.Unitary(lw.random_unitary(nm, seed=seed))
    for (i, o, k) in heralds: s.herald(k, i, o)
    return s
bad=0; tot=0; exc=0
# parent 4 visible; two earlier heralded subs -> up to 2-3 ancillas; then sub with up to 3 heralds in all declaration orders (in==out)
for h1 in [[(0,0,1)], [(1,1,0)], [(2,2,1)], [(0,0,0),(2,2,1)]]:
  for p0 in range(0,3):
    for h1b in [None, [(1,1,1)], [(0,0,0)]]:
      for p0b in ([0,2] if h1b else [0]):
        for nm2 in (3,4,5):
          for k in (1,2,3):
            if nm2-k < 1: continue
            for pos in itertools.permutations(range(nm2), k):
              h2 = [(a,a,(j+1)%2) for j,a in enumerate(pos)]
              v2 = nm2-k
              for p1 in range(0, 4-v2+1):
                par = lw.Circuit(4)
                try:
                    par.add(mk_sub(4 if len(h1)==2 else 3, h1, 11), p0 if len(h1)==1 else min(p0,2))
                    if h1b: par.add(mk_sub(3, h1b, 12), p0b)
                except Exception as e:
                    continue
                before = par.copy()
                sub2 = mk_sub(nm2, h2, 23)
                try:
                    par.add(sub2, p1)
                except Exception as e:
                    exc+=1; continue
                tot+=1
                d = check(before, sub2, p1, par, 2)
                if d>1e-8:
                    bad+=1
                    if bad<10: print("WRONG", h1,p0,h1b,p0b,nm2,h2,p1,round(d,3))
print("tot",tot,"bad",bad,"exc",exc)
