import lightworks as lw, numpy as np, warnings
from lightworks import emulator as emu
warnings.simplefilter("ignore")
p = lw.Parameter(0.5)
c = lw.Circuit(2); c.bs(0, reflectivity=p)
p.set(1.5)
try:
    print("U with r=1.5:", c.U)
except Exception as e: print("raised", type(e).__name__)
q = lw.Parameter(0.1); c2 = lw.Circuit(2); c2.loss(0, q); q.set(1.5)
try: print(c2.U)
except Exception as e: print("loss raised", type(e).__name__)
# Analyzer stale error_rate
c = lw.Unitary(lw.random_unitary(2, seed=1))
an = emu.Analyzer(c)
r1 = an.analyze(lw.State([1,0]), expected={lw.State([1,0]): lw.State([1,0])})
print("r1 error_rate", r1.error_rate)
an.circuit = lw.Unitary(lw.random_unitary(2, seed=7))
r2 = an.analyze(lw.State([1,0]))
print("r2 has error_rate:", hasattr(r2, "error_rate"), getattr(r2, "error_rate", None))
fresh = emu.Analyzer(an.circuit).analyze(lw.State([1,0]))
print("fresh has error_rate:", hasattr(fresh, "error_rate"))
# QuickSampler vacuum threshold
try:
    print(emu.QuickSampler(c, lw.State([0,0]), photon_counting=False).probability_distribution)
except Exception as e: print("QS vac thr:", type(e).__name__, e)
print(emu.Sampler(c, lw.State([0,0])).probability_distribution)
