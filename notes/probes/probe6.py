import lightworks as lw, numpy as np
from lightworks import emulator as emu, qubit
from lightworks.tomography import LIProcessTomography, MLEProcessTomography, choi_from_unitary, GateFidelity
def experiment(circuits, inputs):
    res = []
    for c, i in zip(circuits, inputs):
        s = emu.Sampler(c, i)
        res.append({k: v for k, v in s.probability_distribution.items()})
    return res
def run(gate, U, name):
    li = LIProcessTomography(1, gate, experiment); ch = li.process()
    ref = choi_from_unitary(U); refT = choi_from_unitary(np.array(U).T)
    print(name, "LI==ref", np.allclose(ch, ref, atol=1e-8), "LI==ref(U^T)", np.allclose(ch, refT, atol=1e-8), "fid", round(li.fidelity(ref),4))
    ml = MLEProcessTomography(1, gate, experiment); cm = ml.process()
    print("   MLE fid vs ref", round(ml.fidelity(ref),4), "vs ref(U^T)", round(ml.fidelity(refT),4))
th=0.7
run(qubit.Ry(th), [[np.cos(th/2), -np.sin(th/2)],[np.sin(th/2), np.cos(th/2)]], "Ry")
run(qubit.S(), [[1,0],[0,1j]], "S")
run(qubit.H(), np.array([[1,1],[1,-1]])/2**0.5, "H")
g = lw.Circuit(2); g.add(qubit.Ry(0.4)); g.add(qubit.S()); 
U = np.array([[1,0],[0,1j]]) @ np.array([[np.cos(.2), -np.sin(.2)],[np.sin(.2), np.cos(.2)]])
run(g, U, "S.Ry")
