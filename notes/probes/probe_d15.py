import numpy as np, lightworks as lw
c = lw.Circuit(4)
c.mode_swaps({0:1,1:0}); c.ps(0,1); c.mode_swaps({0:1,1:0}); c.mode_swaps({2:3,3:2})
u0 = c.U_full.copy()
c.compress_mode_swaps()
print("U preserved:", np.allclose(u0, c.U_full))
print([type(s).__name__ + (str(s.swaps) if hasattr(s,'swaps') else '') for s in c._get_circuit_spec()])
