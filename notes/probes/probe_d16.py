import lightworks as lw, matplotlib
matplotlib.use("Agg")
c = lw.Circuit(3); c.bs(0); c.barrier([])
for t in ("svg","mpl"):
    try:
        lw.Display(c, display_type=t); print(t, "ok")
    except Exception as e:
        print(t, "RAISES", type(e).__name__, e)
