import lightworks as lw, numpy as np, warnings, random
from lightworks import emulator as emu
warnings.simplefilter("ignore")
exec(open('/tmp/probe11.py').read().split("bad = 0; tot=0; worst=0")[0])
rng = random.Random(11)
bad=0; tot=0
for it in range(80):
    n = rng.randint(3,5); c = rand_lossy(n) if rng.random()<0.6 else lw.Unitary(lw.random_unitary(n, seed=rng.randrange(9999)))
    if c.heralds["input"]=={} and rng.random()<0.5 and n>=3:
        c.herald(1, 0, n-1)
    vis = c.input_modes
    s_in = [0]*vis
    for _ in range(rng.randint(1,2)): s_in[rng.randrange(vis)] += 1
    if sum(s_in)+sum(c.heralds["input"].values())>4: continue
    st = lw.State(s_in); tot+=1
    lossy = c.U_full.shape[0] != c.n_modes
    # Sampler distribution conditioned on heralds
    d = emu.Sampler(c, st).probability_distribution
    hout = c.heralds["output"]
    cond = {}
    for k,v in d.items():
        if all(k[m]==x for m,x in hout.items()):
            vis_k = tuple(x for i,x in enumerate(k) if i not in hout)
            cond[vis_k] = cond.get(vis_k,0)+v
    # Analyzer
    try:
        res = emu.Analyzer(c).analyze(st)
        an = {tuple(o.s): float(res[st, o]) for o in res.outputs}
        for k in set(an)|set(cond):
            if abs(an.get(k,0)-cond.get(k,0))>1e-7: bad+=1; print("ANALYZER mismatch", s_in, c.heralds, k, an.get(k,0), cond.get(k,0)); break
        if abs(res.performance - sum(cond.values()))>1e-7: bad+=1; print("performance mismatch", res.performance, sum(cond.values()))
    except Exception as e:
        bad+=1; print("Analyzer EXC", type(e).__name__, e, s_in, c.heralds)
    # QuickSampler: conditioned on no loss
    try:
        q = emu.QuickSampler(c, st).probability_distribution
        nl = {k:v for k,v in cond.items() if sum(k)==sum(s_in)}
        tot_nl = sum(nl.values())
        if tot_nl>1e-9:
            for k in set(nl)|set(tuple(x.s) for x in q):
                a = nl.get(k,0)/tot_nl; b = q.get(lw.State(list(k)),0)
                if abs(a-b)>1e-6: bad+=1; print("QS mismatch", k, a, b); break
    except Exception as e:
        print("QS EXC", type(e).__name__, e)
    # Simulator for lossless
    if not lossy:
        sim = emu.Simulator(c).simulate(st)
        for o in sim.outputs:
            if abs(abs(sim[st,o])**2 - cond.get(tuple(o.s),0))>1e-7: bad+=1; print("SIM mismatch"); break
print("C05 probe", tot, "bad", bad)
