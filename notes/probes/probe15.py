import lightworks as lw, numpy as np, warnings, random
from lightworks import emulator as emu
warnings.simplefilter("ignore")
exec(open('/tmp/probe11.py').read().split("bad = 0; tot=0; worst=0")[0])
rng = random.Random(21)
bad=0; tot=0
for it in range(120):
    n = rng.randint(2,5); c = rand_lossy(n)
    vis = c.input_modes; k = rng.randint(0,2)
    U = c.U_full; N=c.n_modes; L=U.shape[0]-N; hin=c.heralds["input"]; hout=c.heralds["output"]
    ins = []
    for _ in range(2):
        s=[0]*vis
        for _ in range(k): s[rng.randrange(vis)]+=1
        ins.append(lw.State(s))
    try:
        res = emu.Simulator(c).simulate(ins)
    except Exception as e:
        print("EXC", type(e).__name__, e); bad+=1; continue
    for a in ins:
        for o in res.outputs:
            ita=iter(a); fa=[hin[i] if i in hin else next(ita) for i in range(N)]+[0]*L
            ito=iter(o); fo=[hout[i] if i in hout else next(ito) for i in range(N)]+[0]*L
            tot+=1
            if abs(res[a,o]-amp(U,fa,fo))>1e-9: bad+=1
    # rejected inputs
    for badin in (lw.State([0]*(vis+1)), lw.State([-1]+[0]*(vis-1)) if vis>0 else None, lw.State([0.5]+[0]*(vis-1)) if vis>0 else None):
        if badin is None: continue
        try:
            emu.Simulator(c).simulate(badin); bad+=1; print("accepted bad input", badin)
        except Exception: pass
print("C03 probe", tot, "bad", bad)
# C17
from lightworks.emulator.results import SimulationResult, SamplingResult
for it in range(100):
    ni, no = rng.randint(1,3), rng.randint(1,6)
    ins = list({lw.State([rng.randint(0,2) for _ in range(3)]) for _ in range(ni)})
    outs = list({lw.State([rng.randint(0,3) for _ in range(3)]) for _ in range(no)})
    arr = np.array([[rng.random() for _ in outs] for _ in ins])
    r = SimulationResult(arr, "probability", inputs=ins, outputs=outs)
    for i,a in enumerate(ins):
        for j,o in enumerate(outs):
            assert r[a,o]==r[a][o]==r.array[i,j]
    for meth in ("apply_threshold_mapping","apply_parity_mapping"):
        for inv in (False, True):
            m = getattr(r, meth)(invert=inv)
            for i,a in enumerate(ins):
                assert abs(sum(m[a].values())-arr[i].sum())<1e-12, "row total"
                for j,o in enumerate(m.outputs): assert m[a,o]==m.array[i,j]
print("C17 probe ok")
