import lightworks as lw, numpy as np, warnings, random
warnings.simplefilter("ignore")
exec(open('/tmp/probe7.py').read().split("bad = {")[0])
rng = random.Random(33)
subs = {"c2": rand_circ(2,3,False), "c3": rand_circ(3,4,False), "H": lw.qubit.H(), "CNOT": lw.qubit.CNOT(), "CZH": lw.qubit.CZ_Heralded()}
h = lw.Unitary(lw.random_unitary(3, seed=1)); h.herald(1,1); subs["h3"]=h
found=0
for it in range(400):
    par = rand_circ(rng.randint(4,6), rng.randint(2,6))
    hist=[]
    for _ in range(4):
        name = rng.choice(list(subs)); s = subs[name]
        nu = par.n_modes - len(par.heralds["input"])
        m = rng.randrange(-1, nu+1); g = rng.random()<0.5
        before = par.copy()
        try:
            par.add(s.copy(), m, group=g); hist.append((name,m,g))
        except Exception as e:
            continue
        try:
            par.U_full
        except Exception as e:
            found+=1
            print("COMPILE FAIL after add", (name,m,g), "parent internal", before._internal_modes, "n_modes", before.n_modes, "heralds", before.heralds["input"], "|", e.__cause__)
            print("   parent spec:", [(type(x).__name__, getattr(x,'mode',None), getattr(x,'mode_1',None), getattr(x,'mode_2',None)) for x in before._get_circuit_spec()])
            par = before
            if found>=4: raise SystemExit
print("found", found)
