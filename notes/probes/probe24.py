import lightworks as lw, numpy as np, random
from lightworks.emulator.state import AnnotatedState
from lightworks.sdk.utils import add_heralds_to_state, remove_heralds_from_state, check_unitary
rng = random.Random(0); bad=0
for it in range(2000):
    a = [rng.randint(0,3) for _ in range(rng.randint(0,5))]; b=[rng.randint(0,3) for _ in range(rng.randint(0,5))]; c=[rng.randint(0,3) for _ in range(rng.randint(0,4))]
    A,B,C = lw.State(a), lw.State(b), lw.State(c)
    assert (A+B)+C == A+(B+C) and (A+B).s == a+b and len(A+B)==len(a)+len(b)
    assert (A==B) == (a==b) and (A!=B) == (a!=b)
    if A==B: assert hash(A)==hash(B)
    if len(a)==len(b): assert A.merge(B)==B.merge(A) and A.merge(B).n_photons==A.n_photons+B.n_photons
    i,j = sorted((rng.randint(0,len(a)), rng.randint(0,len(a)))); assert isinstance(A[i:j], lw.State) and A[i:j].s==a[i:j]
    s = A.s; s.append(9); assert A.s==a
    # heralds round trip
    n = len(a); k = rng.randint(0,3); N=n+k
    modes = rng.sample(range(N), k); her = {m: rng.randint(0,2) for m in modes}   # arbitrary key order
    full = add_heralds_to_state(A, her)
    assert len(full)==N and all(full[m]==v for m,v in her.items())
    assert remove_heralds_from_state(full, list(her)) == a and remove_heralds_from_state(lw.State(full), list(her)) == a
    # annotated
    la = [[rng.randint(0,3) for _ in range(rng.randint(0,3))] for _ in range(rng.randint(1,4))]
    lb = [list(x) for x in la]; [rng.shuffle(x) for x in lb]
    X, Y = AnnotatedState(la), AnnotatedState(lb)
    assert X==Y and hash(X)==hash(Y) and X.n_photons==sum(len(x) for x in la)
    s = X.s; s[0].append(5); assert X==Y
    assert (X+Y).n_modes==2*len(la) and X.merge(Y).n_photons==2*X.n_photons
for x in [0, 0.1, 1, 3, 10, 40]:
    assert abs(lw.decimal_to_db_loss(lw.db_loss_to_decimal(x))-x)<1e-9
for d in [0, 0.3, 0.9, 0.999]:
    assert abs(lw.db_loss_to_decimal(lw.decimal_to_db_loss(d))-d)<1e-12
for n in range(1,7):
    for sd in range(5):
        U=lw.random_unitary(n, seed=sd); assert check_unitary(U) and np.allclose(U, lw.random_unitary(n, seed=sd))
        P=lw.random_permutation(n, seed=sd); assert check_unitary(P) and np.allclose(P, lw.random_permutation(n, seed=sd)) and set(np.abs(P).sum(0))=={1.0}
print("C18 probe ok")
