import matplotlib; matplotlib.use("Agg")
import matplotlib.pyplot as plt
import lightworks as lw, numpy as np, random, collections
exec(open('/tmp/probe7.py').read().split("bad = {")[0])   # reuse rand_circ
rng = random.Random(7)
errs = collections.Counter(); tot=0
for it in range(300):
    c = rand_circ(rng.randint(3,5), rng.randint(2,8))
    # add some direct heralds and parameters
    nu = c.n_modes - len(c.heralds["input"])
    if rng.random()<0.5 and nu>=2:
        try: c.herald(rng.randint(0,1), rng.randrange(nu), rng.randrange(nu))
        except ValueError: pass
    nu = c.n_modes - len(c.heralds["input"])
    p = lw.Parameter(0.3, label="a" if rng.random()<0.5 else None)
    if nu>=2: c.bs(0, reflectivity=p); c.ps(0, lw.Parameter(1.0, label="phi")); c.loss(0, lw.Parameter(0.1, label="l"))
    before = (c.n_modes, c.U_full.copy(), c.heralds)
    for dt in ("svg","mpl"):
        for dl in (False, True):
            for sv in (False, True):
                labels = [f"m{i}" for i in range(c.n_modes - len(c._internal_modes))] if rng.random()<0.5 else None
                tot+=1
                try:
                    lw.Display(c, display_loss=dl, mode_labels=labels, display_type=dt, show_parameter_values=sv)
                except Exception as e:
                    errs[(dt, type(e).__name__, str(e)[:60])]+=1
                plt.close("all")
    after = (c.n_modes, c.U_full, c.heralds)
    assert before[0]==after[0] and np.allclose(before[1],after[1]) and before[2]==after[2]
print(tot, dict(errs))
