import lightworks as lw, numpy as np, warnings
from lightworks import emulator as emu
warnings.simplefilter("ignore")
par = lw.Circuit(4); par.add(lw.qubit.CZ_Heralded(), 0)
print("internal", par._internal_modes, "n_modes", par.n_modes, "user modes", par.input_modes)
before = (par.n_modes, len(par._get_circuit_spec()))
try:
    par.add(lw.qubit.H(), 3)     # user modes 3,4 -> 4 does not exist
    print("accepted! spec tail:", par._get_circuit_spec()[-1])
    try: par.U_full; print("compiles; touches ancilla modes?")
    except Exception as e: print("then fails to compile:", e.__cause__)
except Exception as e:
    print("rejected:", type(e).__name__, e)
# single-mode variant that silently acts on an ancilla
par2 = lw.Circuit(4); par2.add(lw.qubit.CZ_Heralded(), 0)
u = lw.Unitary(lw.random_unitary(2, seed=1))
try:
    par2.add(u, 3); s = par2._get_circuit_spec()[-1]; print("Unitary(2) at user 3 accepted:", type(s).__name__, "mode", s.mode, "size", s.unitary.shape); par2.U_full; print("compiles -> acts on ancilla mode", s.mode+1)
except Exception as e: print("exc", type(e).__name__, e.__cause__ or e)
