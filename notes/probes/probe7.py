import lightworks as lw, numpy as np, random
from lightworks import emulator as emu
rng = random.Random(1)
def rand_circ(n, k, with_groups=True):
    c = lw.Circuit(n)
    for _ in range(k):
        t = rng.choice(["bs","bsH","ps","loss","swap","barrier","unitary","group","hgroup"] if with_groups else ["bs","bsH","ps","loss","swap","barrier","unitary"])
        nu = c.n_modes - len(c.heralds["input"])
        if t in ("bs","bsH"):
            a,b = rng.sample(range(nu),2); c.bs(a,b, reflectivity=rng.random(), convention="H" if t=="bsH" else "Rx")
        elif t=="ps": c.ps(rng.randrange(nu), rng.uniform(0,6))
        elif t=="loss": c.loss(rng.randrange(nu), rng.random()*0.5)
        elif t=="swap":
            m = rng.sample(range(nu), rng.randint(2,min(4,nu))); p = m[:]; rng.shuffle(p); c.mode_swaps(dict(zip(m,p)))
        elif t=="barrier": c.barrier(rng.sample(range(nu), rng.randint(1,nu)))
        elif t=="unitary":
            s = rng.randint(2,min(3,nu)); c.add(lw.Unitary(lw.random_unitary(s, seed=rng.randrange(999))), rng.randrange(nu-s+1))
        elif t=="group":
            s = rng.randint(2,min(3,nu)); sub = rand_circ(s, 3, False); c.add(sub, rng.randrange(nu-s+1), group=True)
        elif t=="hgroup":
            s = 3
            if nu < 2: continue
            sub = lw.Unitary(lw.random_unitary(s, seed=rng.randrange(999))); h = rng.randrange(s); sub.herald(rng.randint(0,1), h)
            c.add(sub, rng.randrange(nu-2+1))
    return c
bad = {"unpack":0,"compress":0,"nonadj":0,"copy":0,"freeze":0}; tot=0
for it in range(400):
    c = rand_circ(rng.randint(3,5), rng.randint(3,9))
    U = c.U_full; H = c.heralds
    for name in bad:
        d = c.copy()
        try:
            if name=="unpack": d.unpack_groups()
            elif name=="compress": d.compress_mode_swaps()
            elif name=="nonadj": d.remove_non_adjacent_bs()
            elif name=="freeze": d = c.copy(freeze_parameters=True)
            V = d.U_full
            ok = V.shape==U.shape and np.allclose(U,V) and d.heralds==H
            if name=="nonadj":
                def chk(spec):
                    from lightworks.sdk.circuit.components import BeamSplitter, Group
                    for s in spec:
                        if isinstance(s, BeamSplitter) and abs(s.mode_1-s.mode_2)!=1: return False
                        if isinstance(s, Group) and not chk(s.circuit_spec): return False
                    return True
                ok = ok and chk(d._get_circuit_spec())
            if name=="compress": ok = ok and len(d._get_circuit_spec()) <= len(c._get_circuit_spec())
        except Exception as e:
            ok=False; print(name, "EXC", type(e).__name__, e)
        if not ok: bad[name]+=1
    tot+=1
print(tot, bad)
