import numpy as np, lightworks as lw
c = lw.Circuit(2); c.bs(0); c.loss(0, 0.3); c.bs(0)
U = c.U_full
print("U_full unitary:", np.allclose(U.conj().T @ U, np.eye(U.shape[0])), np.round(abs(U.conj().T @ U - np.eye(U.shape[0])).max(), 3))
