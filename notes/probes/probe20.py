import lightworks as lw, numpy as np, warnings, random
from lightworks import emulator as emu
warnings.simplefilter("ignore")
rng = random.Random(8)
def close(d1, d2): 
    ks = set(d1)|set(d2); return all(abs(d1.get(k,0)-d2.get(k,0))<1e-9 for k in ks)
bad=0
for it in range(150):
    n = 3
    p = lw.Parameter(0.3)
    def mk():
        c = lw.Circuit(n); c.bs(0, reflectivity=p); c.ps(1, rng.random()); c.bs(1); 
        if rng.random()<0.5: c.loss(0, 0.2)
        if rng.random()<0.4: c.herald(rng.randint(0,1), rng.randrange(n), rng.randrange(n))
        return c
    c = mk(); 
    def rand_state(c): 
        s=[0]*c.input_modes
        for _ in range(rng.randint(0,2)): s[rng.randrange(len(s))]+=1
        return lw.State(s)
    st = rand_state(c)
    src = emu.Source(brightness=0.9)
    S = emu.Sampler(c, st, source=src); Q = emu.QuickSampler(c, st)
    for step in range(8):
        op = rng.choice(["param","circuit","edit","input","source","backend","ps","pc","read","sample"])
        try:
            if op=="param": p.set(rng.random())
            elif op=="circuit":
                c = mk(); st = rand_state(c)
                # need to set in an order that is accepted
                S = emu.Sampler(c, st, source=src, backend=S.backend) if c.input_modes!=len(S.input_state) else S
                Q = emu.QuickSampler(c, st, photon_counting=Q.photon_counting, post_select=Q.post_select) if c.input_modes!=len(Q.input_state) else Q
                S.circuit=c; S.input_state=st; Q.circuit=c; Q.input_state=st
            elif op=="edit": c.ps(rng.randrange(c.input_modes), rng.random())
            elif op=="input": st = rand_state(c); S.input_state=st; Q.input_state=st
            elif op=="source": src.brightness = rng.random(); src.indistinguishability = rng.choice([1,1,0.9])
            elif op=="backend": S.backend = rng.choice(["permanent","slos"])
            elif op=="ps": Q.post_select = rng.choice([None, (lambda s: s[0]<=1)])
            elif op=="pc": Q.photon_counting = rng.random()<0.5
            elif op=="sample": 
                S.sample()
                try: Q.sample()
                except (ValueError, emu.EmulatorError): pass
        except Exception as e:
            print("op exc", op, type(e).__name__, e); continue
        # compare with fresh
        try:
            fresh = emu.Sampler(c, st, source=emu.Source(brightness=src.brightness, indistinguishability=src.indistinguishability), backend=S.backend.backend).probability_distribution
            if not close(dict(S.probability_distribution), dict(fresh)): bad+=1; print("SAMPLER stale after", op)
        except Exception as e: print("S exc", type(e).__name__, e)
        try:
            fq = emu.QuickSampler(c, st, photon_counting=Q.photon_counting, post_select=Q.post_select).probability_distribution
            if not close(dict(Q.probability_distribution), dict(fq)): bad+=1; print("QS stale after", op)
        except (ValueError, emu.EmulatorError) as e:
            pass
print("C11 probe bad", bad)
