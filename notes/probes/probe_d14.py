import numpy as np, lightworks as lw
for meth in ("compress_mode_swaps", "remove_non_adjacent_bs", "unpack_groups"):
    c = lw.Circuit(3); p = lw.Parameter(0.1); c.ps(0, p); c.bs(0, 2)
    getattr(c, meth)()
    u0 = c.U.copy(); p.set(1.3); u1 = c.U
    print(meth, "live after rewrite:", not np.allclose(u0, u1), "params listed:", len(c.get_all_params()), "same object:", any(q is p for q in c.get_all_params()))
