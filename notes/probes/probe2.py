import lightworks as lw, numpy as np
from lightworks import emulator as emu
# 4. vacuum overwrite
bad=0
for seed in range(20):
    c = lw.Unitary(lw.random_unitary(3, seed=seed)); 
    for m in range(3): c.loss(m, 0.3)
    for be in ["permanent","slos"]:
        s = emu.Sampler(c, lw.State([1,1,0]), backend=be)
        tot = sum(s.probability_distribution.values())
        if abs(tot-1)>1e-6: bad+=1; print(seed, be, tot)
print("bad", bad)
# 5. QuickSampler.sample fresh
c = lw.Unitary(lw.random_unitary(3, seed=1))
q = emu.QuickSampler(c, lw.State([1,0,0]))
try: print(q.sample())
except Exception as e: print("QS.sample fresh:", type(e).__name__, e)
# 6 analyzer w/ photon herald
g = lw.qubit.CNOT_Heralded()
an = emu.Analyzer(g)
try: print(an.analyze(lw.State([1,0,1,0])).array.sum())
except Exception as e: print("Analyzer:", type(e).__name__, e)
# 7. Sampler stale on herald-different circuit with same U
U = lw.random_unitary(4, seed=3)
A = lw.Unitary(U); A.herald(1, 0)
B = lw.Unitary(U); B.herald(1, 1)
inp = lw.State([0,1,0])
s = emu.Sampler(A, inp); dA = dict(s.probability_distribution)
s.circuit = B; dB = dict(s.probability_distribution)
fresh = dict(emu.Sampler(B, inp).probability_distribution)
print("stale?", dB==dA, "fresh equal?", all(abs(dB.get(k,0)-v)<1e-9 for k,v in fresh.items()))
