import sys, itertools, numpy as np
sys.path.insert(0, '/tmp/c02')
from ref import *
rng = np.random.default_rng(0)
def mk_sub(nm, heralds, seed, order=None):
    s = lw.Unitary(lw.random_unitary(nm, seed=seed))
    for (i, o, k) in heralds: s.herald(k, i, o)
    return s
fails = {}
tot = 0
# parent: 4 visible modes, first add sub1 (3 modes, one herald) at p0, then sub2 at p1
for nm1, h1list in [(3, [[(j, j, k)] for j in range(3) for k in (0,1)]), (3, [[(0,2,1)],[(2,0,0)],[(1,0,1)]])]:
  for h1 in h1list:
    for p0 in range(0, 3):
      for nm2 in (2, 3, 4):
        herald_opts = [[]]
        herald_opts += [[(j, j, k)] for j in range(nm2) for k in (0, 1)]
        if nm2 >= 3:
            herald_opts += [[(a, a, 0), (b, b, 1)] for a in range(nm2) for b in range(nm2) if a != b]
            herald_opts += [[(0, nm2-1, 1)], [(nm2-1, 0, 0)]]
        for h2 in herald_opts:
          v2 = nm2 - len(h2)
          if v2 < 1: continue
          for p1 in range(0, 4 - v2 + 1):
            for grp in (False, True):
              par = lw.Circuit(4)
              par.add(mk_sub(nm1, h1, 11), p0)
              before = par.copy()
              sub2 = mk_sub(nm2, h2, 23)
              try:
                  par.add(sub2.copy(), p1, group=grp)
              except Exception as e:
                  key = ("EXC", type(e).__name__); fails.setdefault(key, []).append((h1,p0,nm2,h2,p1,grp)); tot+=1; continue
              tot += 1
              try:
                  d = check(before, sub2, p1, par, 2)
              except Exception as e:
                  key = ("CHKEXC", type(e).__name__, str(e)[:40]); fails.setdefault(key, []).append((h1,p0,nm2,h2,p1,grp)); continue
              if d > 1e-8:
                  fails.setdefault(("WRONG",), []).append((h1,p0,nm2,h2,p1,grp,round(d,3)))
print("total", tot)
for k, v in fails.items():
    print(k, len(v))
    for x in v[:12]: print("   ", x)
from collections import Counter
cnt = Counter()
for x in fails.get(("WRONG",), []):
    h1,p0,nm2,h2,p1,grp,d = x
    unsorted_ = [a for a,_,_ in h2] != sorted(a for a,_,_ in h2)
    inout = any(a != b for a,b,_ in h2)
    cnt[(unsorted_, inout, len(h2))] += 1
print(cnt)
# among failures, which are sorted and in==out?
for x in fails.get(("WRONG",), []):
    h1,p0,nm2,h2,p1,grp,d = x
    if [a for a,_,_ in h2] == sorted(a for a,_,_ in h2) and all(a==b for a,b,_ in h2):
        print("PLAIN FAIL", x)
