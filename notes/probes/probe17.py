import lightworks as lw, numpy as np, warnings
warnings.simplefilter("ignore")
# parent: 4 user modes, heralded sub occupying the END region so that an ancilla sits near the top index
par = lw.Circuit(4)
h = lw.Unitary(lw.random_unitary(3, seed=1)); h.herald(0, 1)   # ancilla in the middle of its 3 modes
par.add(h, 2)        # user modes 2,3 -> full 2,4 ; ancilla full 3 ; n_modes 5
print("internal", par._internal_modes, "n_modes", par.n_modes)
u = lw.Unitary(lw.random_unitary(2, seed=2))
for m in range(0,4):
    p = par.copy()
    try:
        p.add(u, m)
        spec = p._get_circuit_spec()[-1]
        print("add at user mode", m, "->", type(spec).__name__, getattr(spec,'mode',None), getattr(spec,'unitary',np.zeros((0,0))).shape, "n_modes", p.n_modes, end="  ")
        p.U_full; print("compiles")
    except Exception as e:
        print("add at", m, "EXC", type(e).__name__, e.__cause__ or e)
