import lightworks as lw, numpy as np, warnings, random, itertools
from lightworks import emulator as emu
from qiskit import QuantumCircuit
from qiskit.quantum_info import Operator
warnings.simplefilter("ignore")
rng = random.Random(2)
def dual(bits): 
    s=[]
    for b in bits: s += [1,0] if b==0 else [0,1]
    return lw.State(s)
def conv_matrix(circ, nq, ps):
    basis = list(itertools.product([0,1], repeat=nq))
    ins = [dual(b) for b in basis]
    M = np.zeros((2**nq, 2**nq), dtype=complex)
    sim = emu.Simulator(circ)
    res = sim.simulate(ins)   # all outputs of same photon number
    leak = 0
    for j, bi in enumerate(basis):
        for o in res.outputs:
            a = res[ins[j], o]
            if abs(a) < 1e-12: continue
            # valid dual rail?
            pairs = [(o[2*q], o[2*q+1]) for q in range(nq)]
            if all(p in ((1,0),(0,1)) for p in pairs):
                bo = tuple(0 if p==(1,0) else 1 for p in pairs)
                M[basis.index(bo), j] = a
            else:
                if ps is None or ps.validate(o): leak = max(leak, abs(a))
    return M, leak, basis
def to_qiskit_order(M, nq):
    # our basis index: bits (q0,q1,..) with q0 most significant; qiskit: q0 least significant
    perm = [int("".join(str(b) for b in reversed(bits)), 2) for bits in itertools.product([0,1], repeat=nq)]
    P = np.zeros((2**nq,2**nq)); 
    for i,p in enumerate(perm): P[p,i]=1
    return P @ M @ P.T
def prop(M, U):
    idx = np.unravel_index(np.argmax(abs(U)), U.shape)
    if abs(M[idx])<1e-12: return False, 0
    lam = M[idx]/U[idx]
    return np.allclose(M, lam*U, atol=1e-7), abs(lam)**2
gates1 = ["h","x","y","z","s","sdg","t","tdg","sx","rx","ry","rz","p"]
stats = {}
for it in range(250):
    nq = rng.randint(2,3); qc = QuantumCircuit(nq); ng = rng.randint(1,5); names=[]
    for _ in range(ng):
        r = rng.random()
        if r<0.45:
            g = rng.choice(gates1); q = rng.randrange(nq)
            if g in ("rx","ry","rz","p"): getattr(qc,g)(rng.uniform(0,6), q)
            else: getattr(qc,g)(q)
            names.append(g)
        elif r<0.9 or nq<3:
            g = rng.choice(["cx","cz","swap"]); a,b = rng.sample(range(nq),2); getattr(qc,g)(a,b); names.append(f"{g}{a}{b}")
        else:
            g = rng.choice(["ccx","ccz"]); qs = list(range(3)); rng.shuffle(qs); getattr(qc,g)(*qs); names.append(g+"".join(map(str,qs)))
    U = Operator(qc).data
    for aps in (False, True):
        try:
            circ, ps = lw.qubit.qiskit_converter(qc, allow_post_selection=aps)
        except ValueError as e:
            stats[("refused",aps)] = stats.get(("refused",aps),0)+1; continue
        nph = nq + sum(circ.heralds["input"].values())
        if nph > 7 or circ.n_modes > 16: stats[("skipped",aps)] = stats.get(("skipped",aps),0)+1; continue
        M, leak, basis = conv_matrix(circ, nq, ps)
        ok, lam2 = prop(to_qiskit_order(M, nq), U)
        key = ("ok" if ok and leak<1e-9 else ("WRONG" if not ok else "LEAK"), aps)
        stats[key] = stats.get(key,0)+1
        if key[0]!="ok" and stats[key]<=4: print(key, names, "lam2", round(lam2,5), "leak", leak)
print(stats)
