import lightworks as lw, numpy as np
from lightworks import emulator as emu
# 1. double mapping in bs(loss=)
sub = lw.Unitary(lw.random_unitary(3, seed=1)); sub.herald(0, 0)
c = lw.Circuit(4); c.add(sub, 0)          # internal mode at full index 0
print("internal", c._internal_modes, "n_modes", c.n_modes)
c2 = c.copy(); 
try:
    c2.bs(0, loss=0.1)
    print("bs spec:", c2._get_circuit_spec()[-3:])
except Exception as e:
    print("bs raised", type(e).__name__, e, "spec len", len(c2._get_circuit_spec()), "vs", len(c._get_circuit_spec()))
c3 = c.copy()
try:
    c3.bs(2, loss=0.1)
    print("bs(2) spec:", c3._get_circuit_spec()[-3:])
except Exception as e:
    print("bs(2) raised", type(e).__name__, e, "spec len", len(c3._get_circuit_spec()), "vs", len(c._get_circuit_spec()))
c4 = c.copy(); c4.ps(0, 1.0, loss=0.2); print("ps spec:", c4._get_circuit_spec()[-2:])
# 2. F3 add mutates arg
par = lw.Circuit(4)
h = lw.Unitary(lw.random_unitary(3, seed=2)); h.herald(0, 1)   # herald in the middle
par.add(h, 0)   # user modes 0,1 -> full 0,2 ; ancilla full 1
print("par internal", par._internal_modes)
arg = lw.Circuit(2); arg.bs(0)
print("arg n_modes before", arg.n_modes)
par.add(arg, 0)
print("arg n_modes after", arg.n_modes)
# 3. AnnotatedState leak
from lightworks.emulator.state import AnnotatedState
a = AnnotatedState([[0],[1]]); a[0].append(7); print("annot after leak-mutation", a)
# State ctor aliasing
l=[1,0]; s=lw.State(l); l[0]=5; print("state alias", s)
