import lightworks as lw, numpy as np
from lightworks.interferometers import Reck
m = Reck().map(lw.Unitary(np.identity(5, dtype=complex)))
ph = [s.phi for s in m._get_circuit_spec() if type(s).__name__=="PhaseShifter"]
bad = [p for p in ph if not (0 <= p < 2*np.pi)]
print(len(ph), bad[:5], [p - 2*np.pi for p in bad[:5]])
print((-1e-17) % (2*np.pi) == 2*np.pi, np.float64(-1.2e-16) % (2*np.pi))
