"""F8: MLE process tomography pairs the Choi matrix with kron(rho, Pi^T) (trace form tr(C (rho x Pi^T))) while linear
inversion and choi_from_unitary use tr(C (rho^T x Pi)): the MLE estimate is the complex conjugate of the Choi matrix.
Run with PYTHONPATH=<tree>.  Prints fidelities of LI/MLE vs the reference for S, T.H, Ry, H (noiseless data)."""
import numpy as np
import lightworks as lw
from lightworks import emulator as emu, qubit
from lightworks.tomography import LIProcessTomography, MLEProcessTomography, choi_from_unitary


def experiment(circuits, inputs):
    return [dict(emu.Sampler(c, i).probability_distribution.items()) for c, i in zip(circuits, inputs)]


def run(gate, U, name):
    U = np.array(U, dtype=complex)
    li = LIProcessTomography(1, gate, experiment); ch = li.process()
    ml = MLEProcessTomography(1, gate, experiment); cm = ml.process()
    ref, refT, refc = choi_from_unitary(U), choi_from_unitary(U.T), choi_from_unitary(U.conj())
    print(f"{name:6s} LI: fid(ref(U))={li.fidelity(ref):.4f} fid(ref(U^T))={li.fidelity(refT):.4f} | MLE: fid(ref(U))={ml.fidelity(ref):.4f} fid(ref(U^T))={ml.fidelity(refT):.4f} fid(ref(U*))={ml.fidelity(refc):.4f} | fid(MLE,LI)={ml.fidelity(ch):.4f}")


th = 0.7
run(qubit.H(), np.array([[1, 1], [1, -1]]) / 2**0.5, "H")
run(qubit.S(), [[1, 0], [0, 1j]], "S")
run(qubit.Ry(th), [[np.cos(th / 2), -np.sin(th / 2)], [np.sin(th / 2), np.cos(th / 2)]], "Ry")
g = lw.Circuit(2); g.add(qubit.H()); g.add(qubit.T())
run(g, np.diag([1, np.exp(1j * np.pi / 4)]) @ (np.array([[1, 1], [1, -1]]) / 2**0.5), "T.H")
