import sys, itertools, numpy as np, random
sys.path.insert(0, '/tmp/c02')
from ref import *
rng = random.Random(1)
def mk_sub(nm, heralds, seed):
    s = lw.Unitary(lw.random_unitary(nm, seed=seed))
    for (i, o, k) in heralds: s.herald(k, i, o)
    return s
bad=0; tot=0; exc=0
for it in range(6000):
    par = lw.Circuit(4)
    # 0-2 earlier heralded subs with random in/out herald modes
    ok=True
    for j in range(rng.randint(0,2)):
        nm = rng.randint(2,4); k = rng.randint(1, nm-1)
        ins = rng.sample(range(nm), k); outs = rng.sample(range(nm), k)
        sub = mk_sub(nm, [(a,b,rng.randint(0,1)) for a,b in zip(ins,outs)], rng.randrange(9999))
        v = nm-k
        if v>4: ok=False; break
        par.add(sub, rng.randrange(0, 4-v+1))
    if not ok: continue
    before = par.copy()
    nm = rng.randint(2,5); k = rng.randint(0, nm-1)
    ins = rng.sample(range(nm), k); outs = rng.sample(range(nm), k)
    sub2 = mk_sub(nm, [(a,b,rng.randint(0,1)) for a,b in zip(ins,outs)], rng.randrange(9999))
    v = nm-k
    if v>4: continue
    p1 = rng.randrange(0, 4-v+1)
    try:
        par.add(sub2, p1, group=rng.random()<0.5)
    except Exception as e:
        exc+=1; print("EXC", type(e).__name__, e); continue
    tot+=1
    nph = 2 if sum(x for x in before.heralds["input"].values())+sum(x for x in sub2.heralds["input"].values()) <= 2 else 1
    d = check(before, sub2, p1, par, nph)
    if d>1e-8:
        bad+=1
        if bad<6: print("WRONG", before.heralds, sub2.heralds, p1, round(d,3))
print("tot",tot,"bad",bad,"exc",exc)
