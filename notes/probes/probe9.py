import lightworks as lw, numpy as np, warnings, itertools, random
from lightworks import emulator as emu
from lightworks.interferometers import Reck, ErrorModel
from lightworks.interferometers.dists import Gaussian, TopHat, Constant
warnings.simplefilter("ignore")
# C14: Reck on structured unitaries
def chk(U, name):
    c = lw.Unitary(U)
    try:
        m = Reck().map(c)
    except Exception as e:
        print(name, "EXC", type(e).__name__, e); return
    ok = np.allclose(m.U, U, atol=1e-8)
    phases = [s.phi for s in m._get_circuit_spec() if type(s).__name__=="PhaseShifter"]
    inr = all(0 <= p < 2*np.pi for p in phases)
    adj = all(abs(s.mode_1-s.mode_2)==1 for s in m._get_circuit_spec() if type(s).__name__=="BeamSplitter")
    if not (ok and inr and adj): print(name, "ok", ok, "phases in range", inr, "adjacent", adj, "maxdiff", abs(m.U-U).max())
n_ok=0
for n in range(2,7):
    chk(np.identity(n, dtype=complex), f"I{n}")
    for seed in range(6):
        chk(lw.random_permutation(n, seed=seed), f"perm{n}_{seed}")
    # block diagonal
    if n>=4:
        B = np.identity(n, dtype=complex); B[:2,:2] = lw.random_unitary(2, seed=1); B[2:4,2:4]=lw.random_unitary(2, seed=2); chk(B, f"block{n}")
    D = np.diag(np.exp(1j*np.linspace(0,5,n))); chk(D, f"diag{n}")
    F = np.fft.fft(np.eye(n))/np.sqrt(n); chk(F, f"dft{n}")
    # near-degenerate
    U = lw.random_unitary(n, seed=3); U2 = U.copy(); chk(U2, f"haar{n}")
    H = np.identity(n, dtype=complex); H[0,0]=H[1,1]=np.cos(1e-9); H[0,1]=1j*np.sin(1e-9); H[1,0]=1j*np.sin(1e-9); chk(H, f"tiny{n}")
print("reck probe done")
# error model bounds & seed
em = ErrorModel(); em.bs_reflectivity = Gaussian(0.5, 0.1, 0.4, 0.6); em.loss = TopHat(0.0, 0.2); em.phase_offset = Gaussian(0, 0.05)
c = lw.Unitary(lw.random_unitary(4, seed=1)); c.herald(0, 1, 2)
m1 = Reck(em).map(c, seed=5); m2 = Reck(em).map(c, seed=5)
print("same seed same circuit:", np.allclose(m1.U_full, m2.U_full), "heralds", m1.heralds, c.heralds)
