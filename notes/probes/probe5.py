import lightworks as lw
from lightworks import emulator as emu
g = lw.qubit.CNOT_Heralded()
s = emu.Sampler(g, lw.State([1,0,1,0]))
print("pdist keys sample:", list(s.probability_distribution)[:3])
print("sample():", [str(s.sample()) for _ in range(5)])
print("sample_N_outputs:", dict(s.sample_N_outputs(5, seed=1)))
q = emu.QuickSampler(g, lw.State([1,0,1,0]))
q.probability_distribution
print("QS sample:", q.sample())
