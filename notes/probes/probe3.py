import lightworks as lw, numpy as np, itertools
from lightworks import emulator as emu
def build(order, pos, first_herald_mode):
    par = lw.Circuit(4)
    h = lw.Unitary(lw.random_unitary(3, seed=2)); h.herald(0, first_herald_mode)
    par.add(h, pos[0])
    U = lw.random_unitary(4, seed=5)
    s = lw.Unitary(U)
    for m in order: s.herald(0, m)
    par.add(s, pos[1])
    return par
def amps(c):
    sim = emu.Simulator(c)
    ins = [lw.State(x) for x in ([1,0,0,0],[0,1,0,0],[0,0,1,0],[0,0,0,1])]
    return sim.simulate(ins, ins).array
n=0
for fh in range(3):
  for p0 in range(0,3):
    for p1 in range(0,3):
      for pair in itertools.combinations(range(4),2):
        try:
            a = amps(build(list(pair),(p0,p1),fh)); b = amps(build(list(pair)[::-1],(p0,p1),fh))
        except Exception as e:
            print("exc", fh,p0,p1,pair,type(e).__name__, e); continue
        if not np.allclose(a,b):
            n+=1; print("ORDER-DEPENDENT", fh,p0,p1,pair)
print("n",n)
