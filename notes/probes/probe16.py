import lightworks as lw, numpy as np, warnings, random, copy
from lightworks import emulator as emu
from lightworks.interferometers import Reck
warnings.simplefilter("ignore")
exec(open('/tmp/probe7.py').read().split("bad = {")[0])
rng = random.Random(33)
def obs(c): return (c.n_modes, c.U_full.copy(), c.heralds, c.input_modes, len(c._get_circuit_spec()))
def same(a,b): return a[0]==b[0] and a[1].shape==b[1].shape and np.allclose(a[1],b[1]) and a[2]==b[2] and a[3]==b[3] and a[4]==b[4]
bad=0
subs = [rand_circ(2,3,False), rand_circ(3,4,False), lw.qubit.H(), lw.qubit.CNOT(), lw.qubit.CZ_Heralded()]
h = lw.Unitary(lw.random_unitary(3, seed=1)); h.herald(1,1); subs.append(h)
for it in range(200):
    par = rand_circ(rng.randint(4,6), rng.randint(2,6))
    for _ in range(4):
        s = rng.choice(subs); b = obs(s); pb = obs(par)
        nu = par.n_modes - len(par.heralds["input"]); sv = s.input_modes
        m = rng.randrange(-1, nu+1)
        try:
            par.add(s, m, group=rng.random()<0.5)
        except Exception as e:
            if not same(pb, obs(par)): bad+=1; print("failed add changed parent", type(e).__name__)
        if not same(b, obs(s)): bad+=1; print("arg mutated by add")
    # failed primitive calls
    pb = obs(par); nu = par.n_modes - len(par.heralds["input"])
    for call in (lambda: par.bs(nu-1, nu+3), lambda: par.bs(0,0), lambda: par.bs(0, loss=2), lambda: par.bs(0, reflectivity=3), lambda: par.ps(nu, 1), lambda: par.ps(0,1,loss=-1),
                 lambda: par.loss(0, 1.5), lambda: par.mode_swaps({0:1}), lambda: par.herald(1, nu+2), lambda: par.barrier([nu+1]), lambda: par.bs(nu-1, loss=0.5) if nu>=1 else None):
        try: call()
        except Exception: pass
        else: pb = obs(par)   # accepted call: update
        if not same(pb, obs(par)): bad+=1; print("rejected call changed circuit"); pb = obs(par)
    # other operations
    b = obs(par)
    par.copy(); par.copy(freeze_parameters=True)
    try: emu.Simulator(par).simulate(lw.State([1]+[0]*(par.input_modes-1)))
    except Exception as e: pass
    try: lw.Display(par, display_type="svg")
    except Exception as e: print("display exc", e)
    if not same(b, obs(par)): bad+=1; print("op mutated circuit")
print("C08 probe bad", bad)
