import lightworks as lw, numpy as np, warnings
from scipy.linalg import expm
from lightworks import emulator as emu
warnings.simplefilter("ignore")
n=12; rng=np.random.default_rng(1)
H = rng.normal(size=(n,n))+1j*rng.normal(size=(n,n)); H = (H+H.conj().T)/2
U = expm(1j*5e-3*H)
c = lw.Unitary(U)
st = lw.State([1,1,1,1]+[0]*8)
S = emu.Sampler(c, st)
d0 = dict(S.probability_distribution); print("sum before", repr(sum(d0.values())), len(d0))
r = S.sample_N_inputs(10, seed=1)
d1 = dict(S.probability_distribution); print("sum after ", repr(sum(d1.values())))
fresh = dict(emu.Sampler(c, st).probability_distribution)
print("same as fresh:", all(d1[k]==fresh[k] for k in fresh), "max diff", max(abs(d1[k]-fresh[k]) for k in fresh))
