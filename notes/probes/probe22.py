import lightworks as lw, numpy as np, warnings, random, itertools
from lightworks import emulator as emu, qubit
from lightworks.tomography import StateTomography
warnings.simplefilter("ignore")
rng = random.Random(4)
def experiment(circuits, n_qubits):
    res = []
    for c in circuits:
        s = emu.Sampler(c, lw.State([1,0]*n_qubits))
        d = {}
        hout = c.heralds["output"]
        for k,v in s.probability_distribution.items():
            if all(k[m]==x for m,x in hout.items()):
                vis = lw.State([x for i,x in enumerate(k) if i not in hout])
                if all(vis[2*q]+vis[2*q+1]==1 for q in range(n_qubits)): d[vis] = d.get(vis,0)+v
        res.append(d)
    return res
bad=0
for it in range(30):
    n = rng.randint(1,2)
    base = lw.Circuit(2*n); vec = None
    U = np.eye(2**n, dtype=complex); used_cnot = False
    for _ in range(rng.randint(1,4)):
        if n==2 and rng.random()<0.3 and not used_cnot:
            used_cnot = True
            t = rng.randint(0,1); base.add(qubit.CNOT(t), 0)
            # CNOT matrix basis order q0 major
            M = np.eye(4, dtype=complex)
            if t==1: M = np.array([[1,0,0,0],[0,1,0,0],[0,0,0,1],[0,0,1,0]],dtype=complex)
            else: M = np.array([[1,0,0,0],[0,0,0,1],[0,0,1,0],[0,1,0,0]],dtype=complex)
            U = M @ U
        else:
            q = rng.randrange(n); th = rng.uniform(0,6); g = rng.choice(["rx","ry","rz","h","s","t"])
            G = {"rx": qubit.Rx(th), "ry": qubit.Ry(th), "rz": qubit.Rz(th), "h": qubit.H(), "s": qubit.S(), "t": qubit.T()}[g]
            base.add(G, 2*q)
            m = G.U
            full = np.kron(m, np.eye(2)) if (n==2 and q==0) else (np.kron(np.eye(2), m) if n==2 else m)
            U = full @ U
    psi = U[:,0]
    b = (base.n_modes, base.U_full.copy())
    st = StateTomography(n, base, experiment, [n]); rho = st.process()
    exp = np.outer(psi, psi.conj())
    if not np.allclose(rho, exp, atol=1e-7): bad+=1; print("rho mismatch", n, np.abs(rho-exp).max())
    if abs(st.fidelity(exp)-1)>1e-6: bad+=1; print("fidelity", st.fidelity(exp))
    if base.n_modes!=b[0] or not np.allclose(base.U_full,b[1]): bad+=1; print("base mutated")
print("C15 probe bad", bad)
