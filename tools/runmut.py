#!/venv/bin/python
"""Apply a seeded patch to /repo, run the named checks, undo the patch.  usage: runmut.py <diff> [C01 C02 ...|all]"""
import subprocess, sys, glob, os
diff = sys.argv[1]
props = sys.argv[2:] or ["all"]
if props == ["all"]:
    props = sorted(os.path.basename(p)[:-3].upper() for p in glob.glob("/verif/lwsa/props/c*.py"))
assert subprocess.run(["git", "-C", "/repo", "status", "--porcelain"], capture_output=True, text=True).stdout.strip() == "", "/repo not clean"
r = subprocess.run(["git", "-C", "/repo", "apply", diff], capture_output=True, text=True)
if r.returncode:
    print("APPLY FAILED", r.stderr); sys.exit(3)
try:
    for p in props:
        r = subprocess.run(["/venv/bin/python", "-m", "lwsa", "check", p], cwd="/verif", capture_output=True, text=True)
        reps = [l for l in r.stdout.splitlines() if l.startswith(("REPORT", "ANALYSIS-ERROR"))]
        print(f"{p}: exit={r.returncode}" + ("" if not reps else "\n   " + "\n   ".join(x[:260] for x in reps[:4])))
finally:
    subprocess.run(["git", "-C", "/repo", "checkout", "--", "."], check=True)
    subprocess.run(["git", "-C", "/repo", "clean", "-fdq"], check=True)
