#!/venv/bin/python
"""Apply every behaviour-preserving refactoring diff (/tmp/wt/*r/_out/r*.diff or /verif/seeded_benign/*/patch.diff) to /repo,
run ALL checks, undo.  Any exit 1 is a false alarm; exit 2 is an undecided run."""
import glob, json, os, subprocess, sys
assert subprocess.run(["git", "-C", "/repo", "status", "--porcelain"], capture_output=True, text=True).stdout.strip() == "", "/repo not clean"
props = sorted(os.path.basename(p)[:-3].upper() for p in glob.glob("/verif/lwsa/props/c*.py"))
diffs = sorted(glob.glob("/verif/seeded_benign/*/patch.diff"))
sel = [a for a in sys.argv[1:]]
if sel:
    diffs = [d for d in diffs if any(s in d for s in sel)]
bad = 0
for d in diffs:
    r = subprocess.run(["git", "-C", "/repo", "apply", "--recount", d], capture_output=True, text=True)
    if r.returncode:
        print(d, "DOES NOT APPLY"); continue
    try:
        out = []
        for p in props:
            c = subprocess.run(["/venv/bin/python", "-m", "lwsa", "check", p], cwd="/verif", capture_output=True, text=True)
            if c.returncode != 0:
                lines = [l for l in c.stdout.splitlines() if l.startswith(("REPORT", "ANALYSIS-ERROR"))]
                out.append(f"   {p} exit={c.returncode} " + (lines[0][:230] if lines else ""))
                bad += 1
        print(d.replace("/verif/seeded_benign/", ""), "OK" if not out else "")
        for o in out:
            print(o)
    finally:
        subprocess.run(["git", "-C", "/repo", "checkout", "--", "."], check=True)
        subprocess.run(["git", "-C", "/repo", "clean", "-fdq"], check=True)
for p in props:
    subprocess.run(["/venv/bin/python", "-m", "lwsa", "check", p], cwd="/verif", capture_output=True, text=True)
print("false alarms:", bad)
