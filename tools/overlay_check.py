#!/venv/bin/python
"""Run a check on the working tree with one in-memory textual edit (nothing is written to /repo).
usage: overlay_check.py <PROP> <relpath> <old> <new>"""
import importlib, sys, time
sys.path.insert(0, "/verif")
from lwsa.ctx import Ctx
from lwsa.source import Tree, AnalysisError
prop, rel, old, new = sys.argv[1:5]
t = Tree.load()
assert old in t.files[rel], "old text not found"
ctx = Ctx(t.overlay({rel: t.files[rel].replace(old, new, 1)}, "variant"))
mod = importlib.import_module(f"lwsa.props.{prop.lower()}")
try:
    res = mod.check(ctx)
    bad = [o for o in res.obligations if o.status != "ok"]
    print(f"{prop}: {len(bad)} violation(s)")
    for o in bad[:5]:
        print("  ", o.rule, o.site, o.why[:200])
except AnalysisError as e:
    print("ANALYSIS-ERROR", e)
