#!/venv/bin/python
"""Regenerate /verif/MANIFEST.json from the table below (single source of truth for check metadata)."""
import json
from pathlib import Path

V = Path(__file__).resolve().parent.parent
props = [json.loads(l) for l in (V / "properties.jsonl").read_text().splitlines() if l.strip()]

TECH = "static analysis (no execution): "
CHECKS = {
 "C08": dict(
  text="Static may-alias / mutation-effect analysis with bottom-up summaries over the whole package: no function mutates an object that may alias a Circuit/State-typed parameter or a circuit/state held by a helper object; component writes are copy-on-write; copies share no container; no raise is reachable after the first receiver write in the construction calls. Structural property, decided for all call histories (over-approximation); nothing numeric claimed.",
  note="Trusted: CPython ast; library model tables (copy/deepcopy/list/dict/numpy); third-party callees do not mutate repo objects; distinct parameters do not alias.",
  tech=TECH + "AST points-to/effect analysis with function summaries + CFG dataflow", ref="DESIGN.md §3 R-C, R-D; §4 C08"),
 "C11": dict(
  text="Cache-coherence typestate for Sampler/QuickSampler decided on all paths of all methods: every read of a cached field is preceded by the staleness-checked refresh; cached fields are only assigned inside the refresh branch; the staleness predicate compares every snapshot entry; the snapshot records every configuration observable the recomputation reads (transitively through Source/Backend/Circuit accessors); Analyzer.analyze reads no result field it has not assigned in the same call. All reconfiguration histories are covered because the facts are per-method invariants; numeric equality of distributions is not claimed (not needed).",
  note="Trusted: frozen 4-line model of which Circuit accessors depend on U_full / heralds; global settings excluded; PostSelection compared by identity.",
  tech=TECH + "structured must-analysis (dominance of refresh over cache reads), read-set closure vs snapshot set comparison", ref="DESIGN.md §3 R-F; §4 C11"),
 "C10": dict(
  text="Comparison-normal-form guard analysis decides, for every value, that each write of Parameter's value/min/max (complete, name-mangled writer sets) is dominated by the comparisons keeping min <= value <= max and that no write precedes a possible raise (rejected update changes nothing); structural late-binding rules decide that components read parameter-bearing fields only through the resolving accessor, that the range check accepts exactly [0,1] on the *resolved* value and dominates matrix construction, that Circuit.U/U_full compile on every read and store nothing on the circuit, that collection/freezing reach every field of every component through groups and that every build exception is wrapped in CircuitCompilationError. The numeric value of the rebuilt unitary is not claimed.",
  note="Trusted: CPython ast; literal implication table of the comparison normal form (> implies >=, == implies <=,>=); unpack_circuit_spec flattens groups (decided under C09).",
  tech=TECH + "guard facts in comparison normal form (CNF clauses over normalised terms), CFG dominance, write-before-raise dataflow, structural exhaustiveness checks", ref="DESIGN.md §3 R-E, R-D, R-H; §4 C10"),
 "C01": dict(
  text="Structural necessary conditions of 'U = ordered product of the documented component matrices': user->full mode mapping applied exactly once and validated before a component is recorded in every primitive mutator (qualifier propagation over all paths), exact accepted range of the mode check, left multiplication and in-order group recursion in the compiler, one extra mode per Loss with U the leading block, each component writing exactly its own mode block, permutation stored as [dest, src]. Decides the bookkeeping for every construction program; the numeric entries (cos/sin, sqrt(1-loss)) and unitarity are not claimed.",
  note="Trusted: numpy product/pad/identity semantics; dataclass constructors store arguments unchanged; public parameter names denote user-visible indices.",
  tech=TECH + "mode-space qualifier dataflow (USER/FULL lattice), must-analysis validated-before-recorded, comparison normal form, structural index-set comparison", ref="DESIGN.md §3 R-A, R-M, R-E; §4 C01"),
 "C02": dict(
  text="Structural necessary conditions of the sub-circuit wiring: Circuit.add maps/validates its placement once and writes only full-space indices into herald maps, internal-mode list and group span; the size test is typed in one unit (user vs full counts); pass-through indices are registered as fixed points of the output-swap synthesis; all index-shifting / pop-by-index loops iterate sorted sequences (independence of herald declaration order); both spec-shifting functions rewrite every mode-bearing field of every component kind; ancilla registration is paired across the four herald maps and the internal list; groups never nest. Amplitude-level composition (correctness of the swap synthesis and of the > / >= shift predicates) is not claimed.",
  note="Trusted: component field classification table (unclassified field -> ANALYSIS-ERROR); API parameter names denote user indices; structure of add() (pass-through loop + provisional swap table) is an anchor: if it is redesigned the check reports ANALYSIS-ERROR, not a verdict.",
  tech=TECH + "qualifier dataflow with unit-typed linear forms, sortedness rule on index-shifting loops, exhaustive isinstance-dispatch coverage per component kind, pairing/sibling comparison", ref="DESIGN.md §3 R-A, R-L, R-H; §4 C02"),
 "C04": dict(
  text="Idiom classification of every store into a distribution in the backend / pdist code decides, for all inputs, that probability mass is only ever accumulated (marginalisation over loss modes, mixing over source inputs, zero-photon remainder), that the remainder is stored only when positive, and that the permanent and slos branches agree on padding, truncation test (strict, on abs(amp)**2, same settings attribute) and marginalisation. These are necessary conditions of 'normalised, each pattern its total probability, backend-independent'; numerical agreement and the 1e-9 budget are not claimed.",
  note="Trusted: State/tuple/list constructors injective; fock_basis yields distinct outputs; two documented exception-table entries whose preconditions are re-derived on every run.",
  tech=TECH + "store-idiom classification over the AST (guarded accumulate / injective re-key / rescale / get-accumulate), sibling-branch comparison", ref="DESIGN.md §3 R-G; §4 C04"),
 "C03": dict(
  text="State-space qualifier analysis (visible / herald-completed / loss-padded, input vs output side) over Simulator and Backend decides for every circuit and state that backend calls receive input+input-heralds+loss padding and output+output-heralds+loss padding in that order; guard normal forms and CFG dominance decide that type, length (against the user-visible mode count), occupation values and equal photon number are all checked before any amplitude is computed, and that State._validate rejects non-int, bool and negative entries; structural checks decide U[out,in] orientation of the permanent sub-matrix and that both occupation lists reach the factorial normalisation. The value of the permanent and the unit-norm clause are not claimed.",
  note="Trusted: thewalrus.perm; frozen qualifier tables for public parameters/accessors (rb_states.py).",
  tech=TECH + "qualifier (type-state) dataflow over call sites, guard facts in comparison normal form, CFG dominance", ref="DESIGN.md §3 R-B, R-D, R-E, R-M4; §4 C03"),
 "C05": dict(
  text="One qualifier analysis across Simulator, Sampler, QuickSampler, Analyzer, Backend and pdist_calc (49 resolved sink checks) decides that photon and mode counts are never mixed across visible/full spaces, heralds of the right side are inserted and loss modes padded before every backend call, post-selection sees visible states, loss configurations are enumerated from same-space counts, results are keyed by visible states and the quick sampler renormalises over exactly what it kept; a guard-dependency rule decides that no simulation object refuses a circuit on a predicate of the circuit alone. Necessary conditions of the cross-object equalities; the numeric relations and the performance/error-rate formulas are not claimed.",
  note="Trusted: frozen qualifier tables (rb_states.py); unknown qualifiers never report, floor of resolved checks prevents vacuity.",
  tech=TECH + "qualifier dataflow with interprocedural parameter propagation (fixpoint over 23 functions), guard term-dependency analysis", ref="DESIGN.md §3 R-B, R-D(refusals), R-G; §4 C05"),
 "C18": dict(
  text="May-alias analysis of every return/yield path of State and AnnotatedState decides, for all inputs, that no public method hands out or writes the private occupation list (or an inner label list); a whole-package ordering rule decides that no list captured by State(...) is mutated after construction (84 sites); structural rules decide that +, merge and slicing build new values, that __hash__ reads a subset of what __eq__ compares, that labels are sorted at construction, that herald removal pops in descending order and insertion walks positions, that dB conversion accepts exactly [0,1) and that the validated seed reaches the generators. These are the immutability / round-trip clauses in full; conversion numerics and validity of random matrices are not claimed.",
  note="Trusted: State.__init__ keeps the caller's list by documented design; callers outside lightworks are out of scope; scipy/numpy generators deterministic for a seed.",
  tech=TECH + "AST points-to/escape analysis with summaries, event-order rule on captured lists, field-dependence set comparison, comparison normal form", ref="DESIGN.md §3 R-C4, R-C5, R-L, R-J3; §4 C18"),
 "C07": dict(
  text="Def-use, ordering and comparison-polarity facts decide, for every detector setting / post-selection / min_detection / seed, the structure of the sampling pipelines: detector -> herald test on the detector output -> herald removal -> post-selection and n_photons >= min_detection on the same visible value -> keep that value (sample_N_inputs); threshold -> heralds -> removal -> filters -> accumulate -> renormalise -> one draw of size N, all counted (sample_N_outputs); refusal of dark counts / multi-photon heralds with threshold detectors before sampling; detector stages efficiency -> dark -> threshold with correct polarity, one draw per photon / per mode; all draws derive from the seed; results are visible-space. Known finding K1 (Sampler.sample returns un-heralded full-space states) is listed in known_findings.json. Convergence of frequencies is not claimed.",
  note="Trusted: numpy Generator.choice; random.seed/random.random share the module generator; anchors are the loops over `samples` / `pdist.items()` (vanished anchor -> ANALYSIS-ERROR).",
  tech=TECH + "def-use and dominance facts on the per-sample pipeline, guard facts in comparison normal form, stage-order by configuration-field reads, random-source effect rule", ref="DESIGN.md §3 R-I, R-J, R-E, R-B4; §4 C07"),
 "C09": dict(
  text="Structural necessary conditions of 'rewrites preserve the transformation': rewrites assign only the component list (herald maps / mode count untouched, effect analysis), run on copies with copy-on-write components, swap compression blocks every mode of every later component kind (exhaustive per-kind field coverage, inclusive ranges), never grows the list, merges only unblocked swaps as (earlier then later) and skips the merged one; non-adjacent beam splitters become swap / oriented adjacent splitter / inverse swap, recursively inside groups; group flattening is complete and in order; copies share no container. Equality of U_full and amplitudes before/after is not claimed.",
  note="Trusted: groups never nest (C02); copy/deepcopy semantics. Several rules recognise the current idiom of the rewriters; an unrecognised redesign gives ANALYSIS-ERROR.",
  tech=TECH + "effect analysis (fields written), exhaustive dispatch coverage, structural pairing / ordering checks on the rewriters", ref="DESIGN.md §3 R-C, R-H, R-M5; §4 C09"),
 "C17": dict(
  text="Store-idiom classification decides for all result contents that the four mappings add the weights of coinciding images (many-to-one key => guarded accumulation, per input row); guard dominance decides that amplitude-valued results are refused before any work; structural role checks decide that array, nested dictionary, pair indexing and the recombined result all use rows = inputs (in self.inputs order) and columns = outputs in one fixed order, with the per-mode functions being the documented ones. Idempotence and weight arithmetic are not claimed.",
  note="Trusted: dict insertion order; stable iteration order of an unmodified set within a call.",
  tech=TECH + "store-idiom classification, CFG guard dominance, index-role comparison between constructor / accessor / recombination", ref="DESIGN.md §3 R-G, R-D, R-M4, R-L2; §4 C17"),
 "C19": dict(
  text="Exhaustiveness and taint rules decide for every constructible circuit and option combination: each component kind has a drawing handler in both back-ends; each draw-spec tag has a renderer branch of matching arity and the renderer chain ends in raise DisplayError; parameter values (which may be label strings) reach numeric formatting only under `not isinstance(v, str)`; no display code mutates the circuit (effect analysis incl. the held alias of the internal-mode list); wrong label length / unknown display type raise DisplayError before use. In-range layout index arithmetic is not claimed.",
  note="Trusted: drawsvg/matplotlib calls do not raise on finite coordinates; multimethod dispatch on annotated class.",
  tech=TECH + "dispatch-table exhaustiveness, tag/arity table agreement, taint rule with guard facts, effect analysis", ref="DESIGN.md §3 R-H3, R-H4, R-C1, R-D; §4 C19"),
 "C14": dict(
  text="Guard normal forms decide for every draw that Gaussian/TopHat values stay within their declared bounds; a small interval domain with float-aware modulo semantics decides that every programmed phase lies in [0, 2pi); structural rules decide that the mapped circuit consists of barriers, phase shifters and adjacent-mode beam splitters on a fresh circuit with heralds copied pairwise, that noise enters only through error-model accessors whose values pass the circuit's validators, and that seeding dominates every draw with per-distribution seeds derived from the call's seed and each distribution re-binding the generator it draws from. Correctness of the triangular decomposition (numerical) is not claimed.",
  note="Trusted: numpy Generator.random in [0,1); np.angle in (-pi, pi]; float `%` by a positive modulus lies in [0, m] (m itself attainable for tiny negative operands).",
  tech=TECH + "comparison normal form incl. loop-exit clauses, abstract interval evaluation of phase expressions, CFG dominance of seeding, effect/structure checks", ref="DESIGN.md §3 R-E, R-J, R-I; §4 C14"),
 "C13": dict(
  text="The 14 single-qubit gate literals are folded from source text into polynomials in cos(theta/2), sin(theta/2) and proved, as identities of normal forms (i.e. for every rotation angle), to be unit-modulus multiples of the named textbook matrices; CNOT / CNOT_Heralded / CCNOT are shown to be H - CZ-type gate - H on one and the same target expression with invalid targets refused first; SWAP exchanges equal rails. The CZ / CZ_Heralded / CCZ matrices, herald placements and success probabilities (1/9, 1/16, 1/72) need permanents of the folded matrices and are NOT decided.",
  note="Trusted: the reference matrices (textbook / qiskit conventions) in rk_tables.py; Unitary(M) implements M (C01).",
  tech=TECH + "constant folding of closed literals + polynomial normal forms (decision for all angles), structural def-use check of the conjugation", ref="DESIGN.md §3 R-K, K-poly; §4 C13"),
 "C12": dict(
  text="Registry agreement (qiskit name -> gate class against a frozen name table, classes themselves verified for every angle by the C13 folding), post-selected classes confined to the post-selection tables selected only under `post_selection`, ALLOWED_GATES = union of registries, unsupported gates refused before dispatch (CFG dominance), dispatch chains total (end in raise), three-qubit refusals dominate construction, swap conjugation symmetric. Placement/plumbing idioms are recognised, and if rewritten the check answers ANALYSIS-ERROR rather than a verdict. Unitary equivalence of the converted circuit - in particular the post-selection analysis - is NOT decided.",
  note="Trusted: qiskit gate names/conventions; C13 for the meaning of gate classes.",
  tech=TECH + "table agreement, constant/polynomial folding, CFG guard dominance, dispatch totality", ref="DESIGN.md §3 R-K, R-H4, R-D; §4 C12"),
 "C15": dict(
  text="Constant folding of the module-level gate sequences in tomography/mappings.py (model c.add(g) = g.c, decided under C01) proves U_P . P . U_P^dagger = Z for the X, Y, Z measurement circuits and that I is measured like Z; the eigenvalue multipliers equal the diagonal of PAULI[Z]; structural rules decide the I->Z reuse map and lookup, one circuit per required setting built as base.copy() + add(op_i, 2i), immutability of the base circuit (effect analysis) and the Kronecker order / normalisation of the Pauli expansion; eigenvalue factors per case (I, |1,0>, |0,1>, other) over the paths of the loop body; conj/transpose parity: the stored density matrix is the Pauli reconstruction itself (not mixed with its transpose) and Pauli factors enter unconjugated. Reconstruction arithmetic on data and fidelity are not claimed.",
  note="Trusted: gate classes mean their textbook matrices (decided in C13); dual-rail convention |0> = photon in first mode.",
  tech=TECH + "constant folding of closed gate sequences (matrix identities over folded literals), structural / effect rules", ref="DESIGN.md §3 R-K, R-C1; §4 C15"),
 "C16": dict(
  text="Constant folding proves that the preparation table prepares the density matrices the estimators assume (C e e^dagger C^dagger = RHO[s]), that RHO[P+-] = (I +- P)/2, that the linear-inversion inputs are informationally complete and the input lists agree; role typing of tensor factors decides whether reference Choi matrix and estimators use one factor order - they do not (known finding F9, listed); experiment circuits are preparation / process / measurement on fresh circuits and the base circuit is never mutated. A conjugation/transposition parity algebra over the syntax decides that linear inversion, maximum likelihood (model and gradient) and the reference pair the Choi matrix with the same operator rho^T (x) P (found and repaired F8/D17: the MLE model used vec(choi.T)). MLE convergence / CPTP projection numerics and the gate-fidelity formula are NOT decided.",
  note="Trusted: numpy flatten row-major, kron major index = first factor; C13 for gate meanings. F9 is suppressed only for the listed construct.",
  tech=TECH + "constant folding of tables, determinant of folded vectorisations, role typing of Kronecker factors, conj/transpose parity normal forms of matrix expressions", ref="DESIGN.md §3 R-K, K-order; §4 C16; §9.3 K-conj"),
 "C06": dict(
  text="Polynomial normal forms over (brightness, sqrt(indistinguishability), p1) prove for every parameter value that the single-photon outcome table is normalised, reduces to the ideal source at (1,1,1), that each coefficient sits with the right label list (entries with the shared label vanish at zero indistinguishability, fresh-label entries vanish for a perfectly indistinguishable / pure source) and that splitting by distinguishability creates no mass; structural rules decide the fresh-label allocator (two per photon, advanced by two, restarted above 0) and that every store into a distribution in the source model and the annotated-state convolution accumulates (label canonicalisation and output merging are many-to-one); validators accept exactly [0,1] and (0.5,1]. Mixture semantics, g2, HOM visibility, normalisation under loss and purity_to_prob are NOT decided.",
  note="Trusted: purity_to_prob treated as a free parameter p1 in [0,1].",
  tech=TECH + "polynomial normalisation of straight-line arithmetic (identity for all parameter values) + specialisations, store-idiom classification, comparison normal form", ref="DESIGN.md §3 K-poly, R-G, R-M5; §4 C06"),
}
NA = {}

def main():
    m = {"version": 1,
         "setup_cmd": "/venv/bin/python -m compileall -q lwsa",
         "hooks": {"guard": "LIGHTWORKS_VERIF", "enable": "none: static analysis needs no instrumentation of /repo; checks parse /repo's working tree",
                   "baseline_off_cmd": "cd /repo && /venv/bin/python -m pytest -ra -q -p no:cacheprovider --timeout=900 --continue-on-collection-errors",
                   "source_commits": [], "add_only": True},
         "engines": [{"name": "lwsa", "path": "/verif/lwsa", "serves_properties": sorted(CHECKS),
                      "kind_free_text": "repository-specific static analyser (stdlib ast only): resolved index, CFG + dominators, alias/effect summaries, must-analyses, guard normal forms, constant/polynomial folding; never imports or runs lightworks"}],
         "checks": [], "notes": "Technique family: static analysis only. Exit codes: 0 held / 1 VIOLATION / 2 ANALYSIS-ERROR (could not decide). See DESIGN.md.",
         "not_applicable": []}
    for p in props:
        pid = p["id"]
        if pid in CHECKS:
            c = CHECKS[pid]
            m["checks"].append({
                "property_id": pid,
                "quick_cmd": f"/venv/bin/python -m lwsa check {pid} --tier quick",
                "thorough_cmd": f"/venv/bin/python -m lwsa check {pid} --tier thorough",
                "evidence_file": f"/verif/evidence/{pid}.json",
                "replay_cmd_template": "/venv/bin/python -m lwsa explain {path}",
                "engine": "lwsa",
                "level_claimed": {"category": "other", "text": c["text"], "design_ref": c["ref"]},
                "level_note": c["note"], "technique": c["tech"]})
        else:
            m["not_applicable"].append({"property_id": pid, "reason": NA.get(pid, "rule not built yet (implementation in progress); not claimed through a weaker proxy")})
    (V / "MANIFEST.json").write_text(json.dumps(m, indent=1))

if __name__ == "__main__":
    main()
