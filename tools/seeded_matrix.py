#!/venv/bin/python
"""Apply every /verif/seeded/*/patch.diff to /repo in turn, run the check of the property it breaks (and all others with --all),
undo, and write /verif/seeded/MATRIX.json + MATRIX.md.  /repo is always restored."""
import glob, json, os, subprocess, sys
allp = "--all" in sys.argv
rows = []
assert subprocess.run(["git", "-C", "/repo", "status", "--porcelain"], capture_output=True, text=True).stdout.strip() == "", "/repo not clean"
props = sorted(os.path.basename(p)[:-3].upper() for p in glob.glob("/verif/lwsa/props/c*.py"))
for d in sorted(glob.glob("/verif/seeded/*/")):
    name = os.path.basename(d.rstrip("/"))
    meta = json.load(open(d + "meta.json"))
    prop = meta.get("breaks_property") or meta.get("property")
    r = subprocess.run(["git", "-C", "/repo", "apply", "--recount", d + "patch.diff"], capture_output=True, text=True)
    if r.returncode:
        r = subprocess.run(["patch", "-p1", "-s", "--fuzz=3", "-d", "/repo", "-i", d + "patch.diff"], capture_output=True, text=True)
    if r.returncode:
        subprocess.run(["git", "-C", "/repo", "checkout", "--", "."]); subprocess.run(["git", "-C", "/repo", "clean", "-fdq"])
        rows.append({"seed": name, "property": prop, "applied": False}); print(name, "does not apply any more"); continue
    try:
        res = {}
        for p in (props if allp else [prop]):
            c = subprocess.run(["/venv/bin/python", "-m", "lwsa", "check", p], cwd="/verif", capture_output=True, text=True)
            rules = sorted({l.split()[1] for l in c.stdout.splitlines() if l.startswith("REPORT")})
            res[p] = {"exit": c.returncode, "rules": rules}
        rows.append({"seed": name, "property": prop, "applied": True, "summary": meta.get("summary", "")[:160], "needs": meta.get("needs", "")[:160], "checks": res})
        own = res[prop]
        others = [p for p, v in res.items() if p != prop and v["exit"] == 1]
        print(f"{name}: {prop} exit={own['exit']} {','.join(own['rules'])}" + (f"  also: {','.join(others)}" if others else ""))
    finally:
        subprocess.run(["git", "-C", "/repo", "checkout", "--", "."], check=True)
        subprocess.run(["git", "-C", "/repo", "clean", "-fdq"], check=True)
# evidence files were rewritten by the mutant runs: restore them from a clean run
for p in props:
    subprocess.run(["/venv/bin/python", "-m", "lwsa", "check", p], cwd="/verif", capture_output=True, text=True)
json.dump(rows, open("/verif/seeded/MATRIX.json", "w"), indent=1)
with open("/verif/seeded/MATRIX.md", "w") as f:
    f.write("| seeded change | property | caught by its check (exit) | rules that fired | also flagged by |\n|---|---|---|---|---|\n")
    for r in rows:
        if not r["applied"]:
            f.write(f"| {r['seed']} | {r['property']} | patch no longer applies | | |\n"); continue
        own = r["checks"][r["property"]]
        others = [p for p, v in r["checks"].items() if p != r["property"] and v["exit"] == 1]
        f.write(f"| {r['seed']} | {r['property']} | {'yes' if own['exit'] == 1 else 'NO'} ({own['exit']}) | {', '.join(own['rules'])} | {', '.join(others)} |\n")
k = sum(1 for r in rows if r["applied"] and r["checks"][r["property"]]["exit"] == 1)
print(f"caught {k}/{sum(1 for r in rows if r['applied'])}")
