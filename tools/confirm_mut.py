#!/venv/bin/python
"""Confirm a seeded change in its scratch worktree and file it under /verif/seeded/<name>/.
usage: confirm_mut.py <prop> <k> [--no-tests]   (reads /tmp/wt/<prop>/_out/m<k>.{diff,json}, m<k>_demo.py)"""
import json, os, shutil, subprocess, sys
prop, k = sys.argv[1], sys.argv[2]
outdir = next((a for a in sys.argv[3:] if not a.startswith("--")), "_out")
tag = "" if outdir == "_out" else "r" + outdir.replace("_out", "")
wt = f"/tmp/wt/{prop}"
out = f"{wt}/{outdir}"
env = dict(os.environ, PYTHONPATH=wt)
def sh(cmd, **kw):
    return subprocess.run(cmd, cwd=wt, env=env, capture_output=True, text=True, **kw)
def clean():
    sh(["git", "checkout", "--", "."]); sh(["git", "clean", "-fdq", "-e", "_out", "-e", "_out2", "-e", "_out3", "-e", "_out4"])
clean()
# make the worktree match /repo HEAD (fixes may have been committed since it was created)
head = subprocess.run(["git", "-C", "/repo", "rev-parse", "HEAD"], capture_output=True, text=True).stdout.strip()
sh(["git", "checkout", "-q", "--detach", head])
d0 = sh(["/venv/bin/python", f"{out}/m{k}_demo.py"], timeout=600)
ap = sh(["git", "apply", f"{out}/m{k}.diff"])
if ap.returncode:
    print("APPLY FAILED", ap.stderr); clean(); sys.exit(3)
d1 = sh(["/venv/bin/python", f"{out}/m{k}_demo.py"], timeout=600)
tests = "skipped"
if "--no-tests" not in sys.argv:
    t = sh(["/venv/bin/python", "-m", "pytest", "-q", "-p", "no:cacheprovider", "--timeout=900"], timeout=3600)
    tests = t.stdout.strip().splitlines()[-1] if t.stdout.strip() else t.stderr[-200:]
clean()
ok = d0.returncode == 0 and d1.returncode != 0 and ("passed" in tests and "failed" not in tests)
print(f"{prop} m{k}: demo clean exit={d0.returncode} with-change exit={d1.returncode} tests: {tests} -> {'CONFIRMED' if ok else 'REJECTED'}")
if ok:
    meta = json.load(open(f"{out}/m{k}.json"))
    dst = f"/verif/seeded/{prop}-{tag}m{k}"
    os.makedirs(dst, exist_ok=True)
    shutil.copy(f"{out}/m{k}.diff", f"{dst}/patch.diff")
    shutil.copy(f"{out}/m{k}_demo.py", f"{dst}/demo.py")
    meta.update({"breaks_property": prop, "confirmed": {"repo_head": head, "demo_clean_exit": d0.returncode, "demo_with_change_exit": d1.returncode, "pytest_with_change": tests,
                 "commands": [f"cd {wt} && PYTHONPATH={wt} /venv/bin/python _out/m{k}_demo.py  (clean tree, then with patch applied)", f"cd {wt} && PYTHONPATH={wt} /venv/bin/python -m pytest -q -p no:cacheprovider --timeout=900 (with patch applied)"],
                 "demo_output_with_change": (d1.stdout + d1.stderr)[-400:]}})
    json.dump(meta, open(f"{dst}/meta.json", "w"), indent=1)
