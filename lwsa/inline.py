"""Local-variable transparency: a copy of a function in which every single-assignment, never-mutated local
whose value is a pure expression is replaced by that expression at its uses (and its definition dropped).

Rules that recognise an idiom by its shape run on the inlined copy, so that naming an intermediate value
(`u = comp.get_unitary(n); self._unitary = u @ self._unitary`) or removing such a name cannot change a verdict.
The transformation is conservative: a local is left alone whenever substituting it could change what is read
(its right-hand side mentions something stored to between definition and use, it is mutated through, it is
used inside a nested function, it is defined in a loop and used outside of it, ...)."""

from __future__ import annotations

import ast
import copy
import dataclasses

from .source import src

_IMPURE = (ast.Lambda, ast.Yield, ast.YieldFrom, ast.Await, ast.NamedExpr, ast.GeneratorExp)
_cache: dict = {}
_keep: list = []


def _parents(fn):
    par = {}
    for n in ast.walk(fn):
        for c in ast.iter_child_nodes(n):
            par[c] = n
    return par


def _loops_of(par, n, fn):
    out = []
    while n is not fn and n is not None:
        p = par.get(n)
        if isinstance(p, (ast.For, ast.While)) and (n in p.body):
            out.append(p)
        n = p
    return out[::-1]


def _in_nested_scope(par, n, fn):
    n = par.get(n)
    while n is not fn and n is not None:
        if isinstance(n, (ast.FunctionDef, ast.AsyncFunctionDef, ast.Lambda, ast.ClassDef)):
            return True
        n = par.get(n)
    return False


def _stmt(par, n):
    while n is not None and not isinstance(n, ast.stmt):
        n = par.get(n)
    return n


def _terms(e):
    """names and attribute/subscript chains read by expression e"""
    names, chains = set(), set()
    for x in ast.walk(e):
        if isinstance(x, ast.Name):
            names.add(x.id)
        elif isinstance(x, (ast.Attribute, ast.Subscript)):
            chains.add(src(x))
    return names, chains


def _one_pass(fn: ast.FunctionDef, keep=()) -> bool:
    par = _parents(fn)
    params = {a.arg for a in fn.args.posonlyargs + fn.args.args + fn.args.kwonlyargs}
    if fn.args.vararg:
        params.add(fn.args.vararg.arg)
    if fn.args.kwarg:
        params.add(fn.args.kwarg.arg)
    defs: dict[str, list] = {}
    stores = []  # (lineno, kind, text)
    mutated = set()
    for n in ast.walk(fn):
        if isinstance(n, ast.Assign) and len(n.targets) == 1 and isinstance(n.targets[0], ast.Name) and not _in_nested_scope(par, n, fn):
            defs.setdefault(n.targets[0].id, []).append((n, n.value))
        elif isinstance(n, ast.Name) and isinstance(n.ctx, (ast.Store, ast.Del)):
            p = par.get(n)
            if not (isinstance(p, ast.Assign) and len(p.targets) == 1 and p.targets[0] is n and not _in_nested_scope(par, p, fn)):
                defs.setdefault(n.id, []).append((None, None))
        if isinstance(n, (ast.Global, ast.Nonlocal)):
            for nm in n.names:
                defs.setdefault(nm, []).append((None, None))
        if isinstance(n, (ast.Attribute, ast.Subscript)) and isinstance(n.ctx, (ast.Store, ast.Del)):
            stores.append((n.lineno, src(n)))
            b = n.value
            while isinstance(b, (ast.Attribute, ast.Subscript)):
                b = b.value
            if isinstance(b, ast.Name):
                mutated.add(b.id)
        if isinstance(n, ast.AugAssign):
            if isinstance(n.target, ast.Name):
                defs.setdefault(n.target.id, []).append((None, None))
            else:
                stores.append((n.lineno, src(n.target)))
        if isinstance(n, ast.Expr) and isinstance(n.value, ast.Call) and isinstance(n.value.func, ast.Attribute):
            b = n.value.func.value
            while isinstance(b, (ast.Attribute, ast.Subscript)):
                b = b.value
            if isinstance(b, ast.Name):
                mutated.add(b.id)
    name_store_lines: dict[str, list] = {}
    for nm, lst in defs.items():
        for d, _ in lst:
            name_store_lines.setdefault(nm, []).append(getattr(d, "lineno", -1) if d is not None else -1)
    uses: dict[str, list] = {}
    for n in ast.walk(fn):
        if isinstance(n, ast.Name) and isinstance(n.ctx, ast.Load):
            uses.setdefault(n.id, []).append(n)
    changed = False
    for nm, lst in defs.items():
        if len(lst) != 1 or lst[0][0] is None or nm in params or nm in mutated or nm in keep:
            continue
        d, rhs = lst[0]
        if any(isinstance(x, _IMPURE) for x in ast.walk(rhs)):
            continue
        if isinstance(rhs, (ast.List, ast.Dict, ast.Set, ast.ListComp, ast.DictComp, ast.SetComp)) and len(uses.get(nm, [])) != 1:
            continue  # a container literal named once and used several times is one object, not several
        us = uses.get(nm, [])
        if not us:
            continue
        rnames, rchains = _terms(rhs)
        has_call = any(isinstance(x, ast.Call) for x in ast.walk(rhs))
        if nm in rnames:
            continue
        dloops = _loops_of(par, d, fn)
        ok = True
        for u in us:
            if _in_nested_scope(par, u, fn) and not _comp_only(par, u, fn):
                ok = False
                break
            if u.lineno < d.lineno:
                ok = False
                break
            uloops = _loops_of(par, u, fn)
            if uloops[: len(dloops)] != dloops:
                ok = False
                break
            # loops around the use but not the definition: anything stored in them may differ per iteration
            extra = uloops[len(dloops):]
            lo, hi = d.lineno, _stmt(par, u).lineno - 1
            if extra:
                lo = min(lo, extra[0].lineno)
                hi = max(hi, getattr(extra[0], "end_lineno", hi) or hi)
            for ln, text in stores:
                if lo < ln <= hi or (extra and lo <= ln <= hi):
                    if _conflicts(text, rnames, rchains, has_call):
                        ok = False
                        break
            for rn in rnames:
                for ln in name_store_lines.get(rn, []):
                    if ln == -1 and rn not in params and len(defs.get(rn, [])) > 1:
                        ok = False
                    elif lo < ln <= hi:
                        ok = False
                # loop targets / comprehension variables: (None, None) single def -> stable inside their loop
            if not ok:
                break
        if not ok:
            continue
        # substitute
        for u in us:
            new = copy.deepcopy(rhs)
            for x in ast.walk(new):
                if hasattr(x, "lineno"):
                    x.lineno = u.lineno
                    x.end_lineno = getattr(u, "end_lineno", u.lineno)
                    x.col_offset = u.col_offset
                    x.end_col_offset = getattr(u, "end_col_offset", u.col_offset)
            _replace(par.get(u), u, new)
        # drop the definition
        p = par.get(d)
        for fld in ("body", "orelse", "finalbody"):
            b = getattr(p, fld, None)
            if isinstance(b, list) and d in b:
                i = b.index(d)
                if len(b) == 1:
                    b[i] = ast.copy_location(ast.Pass(), d)
                else:
                    del b[i]
        changed = True
        break  # parent map is stale: restart
    return changed


def _conflicts(store_text: str, rnames, rchains, has_call) -> bool:
    """may a store to `store_text` change what the right-hand side reads?"""
    t0 = store_text.split("[")[0]
    root = t0.split(".")[0]
    if has_call and root in rnames:
        return True  # a call may read any part of the object
    for c in rchains:
        c0 = c.split("[")[0]
        if c0 == t0 or c0.startswith(t0 + ".") or t0.startswith(c0 + "."):
            return True
    return False


def _comp_only(par, u, fn):
    n = par.get(u)
    while n is not fn and n is not None:
        if isinstance(n, (ast.FunctionDef, ast.AsyncFunctionDef, ast.Lambda, ast.ClassDef)):
            return False
        n = par.get(n)
    return True


def _replace(parent, old, new):
    for fld, val in ast.iter_fields(parent):
        if val is old:
            setattr(parent, fld, new)
            return
        if isinstance(val, list):
            for i, x in enumerate(val):
                if x is old:
                    val[i] = new
                    return


def unpack_tuples(fn: ast.FunctionDef) -> None:
    """`a, b = x, y` -> `a = x; b = y` when no target is read by a later element (in place)."""
    for n in ast.walk(fn):
        for fld in ("body", "orelse", "finalbody"):
            b = getattr(n, fld, None)
            if not isinstance(b, list):
                continue
            i = 0
            while i < len(b):
                s = b[i]
                if (isinstance(s, ast.Assign) and len(s.targets) == 1 and isinstance(s.targets[0], (ast.Tuple, ast.List)) and isinstance(s.value, (ast.Tuple, ast.List))
                        and len(s.targets[0].elts) == len(s.value.elts) and all(isinstance(t, ast.Name) for t in s.targets[0].elts)):
                    tn = {t.id for t in s.targets[0].elts}
                    rn = {x.id for v in s.value.elts for x in ast.walk(v) if isinstance(x, ast.Name)}
                    if not (tn & rn):
                        new = [ast.copy_location(ast.Assign(targets=[t], value=v, lineno=s.lineno), s) for t, v in zip(s.targets[0].elts, s.value.elts)]
                        b[i:i + 1] = new
                        i += len(new)
                        continue
                i += 1


def inlined(fn: ast.FunctionDef, keep=()) -> ast.FunctionDef:
    k = (id(fn), tuple(keep))
    if k not in _cache:
        new = copy.deepcopy(fn)
        unpack_tuples(new)
        for _ in range(60):
            if not _one_pass(new, keep):
                break
        _cache[k] = new
        _keep.append(fn)  # keep ids stable
    return _cache[k]


def inl(fi, keep=()):
    """FuncInfo whose node is the inlined copy."""
    return dataclasses.replace(fi, node=inlined(fi.node, keep))
