"""Local-variable transparency: a copy of a function in which every single-assignment, never-mutated local
whose value is a pure expression is replaced by that expression at its uses (and its definition dropped).

Rules that recognise an idiom by its shape run on the inlined copy, so that naming an intermediate value
(`u = comp.get_unitary(n); self._unitary = u @ self._unitary`) or removing such a name cannot change a verdict.
The transformation is conservative: a local is left alone whenever substituting it could change what is read
(its right-hand side mentions something stored to between definition and use, it is mutated through, it is
used inside a nested function, it is defined in a loop and used outside of it, ...)."""

from __future__ import annotations

import ast
import copy
import dataclasses

from .source import src

_IMPURE = (ast.Lambda, ast.Yield, ast.YieldFrom, ast.Await, ast.NamedExpr)
_cache: dict = {}
_keep: list = []


def _parents(fn):
    par = {}
    for n in ast.walk(fn):
        for c in ast.iter_child_nodes(n):
            par[c] = n
    return par


def _loops_of(par, n, fn):
    out = []
    while n is not fn and n is not None:
        p = par.get(n)
        if isinstance(p, (ast.For, ast.While)) and (n in p.body):
            out.append(p)
        n = p
    return out[::-1]


def _in_nested_scope(par, n, fn):
    n = par.get(n)
    while n is not fn and n is not None:
        if isinstance(n, (ast.FunctionDef, ast.AsyncFunctionDef, ast.Lambda, ast.ClassDef)):
            return True
        n = par.get(n)
    return False


def _stmt(par, n):
    while n is not None and not isinstance(n, ast.stmt):
        n = par.get(n)
    return n


def _terms(e):
    """names and attribute/subscript chains read by expression e"""
    names, chains = set(), set()
    bound = {x.id for x in ast.walk(e) if isinstance(x, ast.Name) and isinstance(x.ctx, ast.Store)}
    for x in ast.walk(e):
        if isinstance(x, ast.Name) and x.id not in bound:
            names.add(x.id)
        elif isinstance(x, (ast.Attribute, ast.Subscript)):
            chains.add(src(x))
    return names, chains


def _one_pass(fn: ast.FunctionDef, keep=()) -> bool:
    par = _parents(fn)
    params = {a.arg for a in fn.args.posonlyargs + fn.args.args + fn.args.kwonlyargs}
    if fn.args.vararg:
        params.add(fn.args.vararg.arg)
    if fn.args.kwarg:
        params.add(fn.args.kwarg.arg)
    defs: dict[str, list] = {}
    stores = []  # (lineno, kind, text)
    mutated = set()
    for n in ast.walk(fn):
        if isinstance(n, ast.Assign) and len(n.targets) == 1 and isinstance(n.targets[0], ast.Name) and not _in_nested_scope(par, n, fn):
            defs.setdefault(n.targets[0].id, []).append((n, n.value))
        elif isinstance(n, ast.Name) and isinstance(n.ctx, (ast.Store, ast.Del)):
            p = par.get(n)
            if not (isinstance(p, ast.Assign) and len(p.targets) == 1 and p.targets[0] is n and not _in_nested_scope(par, p, fn)):
                defs.setdefault(n.id, []).append((None, None))
        if isinstance(n, (ast.Global, ast.Nonlocal)):
            for nm in n.names:
                defs.setdefault(nm, []).append((None, None))
        if isinstance(n, (ast.Attribute, ast.Subscript)) and isinstance(n.ctx, (ast.Store, ast.Del)):
            stores.append((n.lineno, src(n)))
            b = n.value
            while isinstance(b, (ast.Attribute, ast.Subscript)):
                b = b.value
            if isinstance(b, ast.Name):
                mutated.add(b.id)
        if isinstance(n, ast.AugAssign):
            if isinstance(n.target, ast.Name):
                defs.setdefault(n.target.id, []).append((None, None))
            else:
                stores.append((n.lineno, src(n.target)))
        if isinstance(n, ast.Expr) and isinstance(n.value, ast.Call) and isinstance(n.value.func, ast.Attribute):
            b = n.value.func.value
            while isinstance(b, (ast.Attribute, ast.Subscript)):
                b = b.value
            if isinstance(b, ast.Name):
                mutated.add(b.id)
    name_store_lines: dict[str, list] = {}
    for nm, lst in defs.items():
        for d, _ in lst:
            name_store_lines.setdefault(nm, []).append(getattr(d, "lineno", -1) if d is not None else -1)
    uses: dict[str, list] = {}
    for n in ast.walk(fn):
        if isinstance(n, ast.Name) and isinstance(n.ctx, ast.Load):
            uses.setdefault(n.id, []).append(n)
    changed = False
    for nm, lst in defs.items():
        if len(lst) != 1 or lst[0][0] is None or nm in params or nm in mutated or nm in keep:
            continue
        d, rhs = lst[0]
        if any(isinstance(x, _IMPURE) for x in ast.walk(rhs)) or isinstance(rhs, ast.GeneratorExp):
            continue
        if isinstance(rhs, (ast.List, ast.Dict, ast.Set, ast.ListComp, ast.DictComp, ast.SetComp)) and len(uses.get(nm, [])) != 1:
            continue  # a container literal named once and used several times is one object, not several
        us = uses.get(nm, [])
        if not us:
            continue
        rnames, rchains = _terms(rhs)
        has_call = any(isinstance(x, ast.Call) for x in ast.walk(rhs))
        if nm in rnames:
            continue
        dloops = _loops_of(par, d, fn)
        ok = True
        for u in us:
            if _in_nested_scope(par, u, fn) and not _comp_only(par, u, fn):
                ok = False
                break
            if u.lineno < d.lineno:
                ok = False
                break
            uloops = _loops_of(par, u, fn)
            if uloops[: len(dloops)] != dloops:
                ok = False
                break
            # loops around the use but not the definition: anything stored in them may differ per iteration
            extra = uloops[len(dloops):]
            lo, hi = d.lineno, _stmt(par, u).lineno - 1
            if extra:
                lo = min(lo, extra[0].lineno)
                hi = max(hi, getattr(extra[0], "end_lineno", hi) or hi)
            for ln, text in stores:
                if lo < ln <= hi or (extra and lo <= ln <= hi):
                    if _conflicts(text, rnames, rchains, has_call):
                        ok = False
                        break
            for rn in rnames:
                for ln in name_store_lines.get(rn, []):
                    if ln == -1 and rn not in params and len(defs.get(rn, [])) > 1:
                        ok = False
                    elif lo < ln <= hi:
                        ok = False
                # loop targets / comprehension variables: (None, None) single def -> stable inside their loop
            if not ok:
                break
        if not ok:
            continue
        # substitute
        for u in us:
            new = copy.deepcopy(rhs)
            for x in ast.walk(new):
                if hasattr(x, "lineno"):
                    x.lineno = u.lineno
                    x.end_lineno = getattr(u, "end_lineno", u.lineno)
                    x.col_offset = u.col_offset
                    x.end_col_offset = getattr(u, "end_col_offset", u.col_offset)
            _replace(par.get(u), u, new)
        # drop the definition
        p = par.get(d)
        for fld in ("body", "orelse", "finalbody"):
            b = getattr(p, fld, None)
            if isinstance(b, list) and d in b:
                i = b.index(d)
                if len(b) == 1:
                    b[i] = ast.copy_location(ast.Pass(), d)
                else:
                    del b[i]
        changed = True
        break  # parent map is stale: restart
    return changed


def _conflicts(store_text: str, rnames, rchains, has_call) -> bool:
    """may a store to `store_text` change what the right-hand side reads?"""
    t0 = store_text.split("[")[0]
    root = t0.split(".")[0]
    if has_call and root in rnames:
        return True  # a call may read any part of the object
    for c in rchains:
        c0 = c.split("[")[0]
        if c0 == t0 or c0.startswith(t0 + ".") or t0.startswith(c0 + "."):
            return True
    return False


def _comp_only(par, u, fn):
    n = par.get(u)
    while n is not fn and n is not None:
        if isinstance(n, (ast.FunctionDef, ast.AsyncFunctionDef, ast.Lambda, ast.ClassDef)):
            return False
        n = par.get(n)
    return True


def _replace(parent, old, new):
    for fld, val in ast.iter_fields(parent):
        if val is old:
            setattr(parent, fld, new)
            return
        if isinstance(val, list):
            for i, x in enumerate(val):
                if x is old:
                    val[i] = new
                    return


def unpack_tuples(fn: ast.FunctionDef) -> None:
    """`a, b = x, y` -> `a = x; b = y` when no target is read by a later element (in place)."""
    for n in ast.walk(fn):
        for fld in ("body", "orelse", "finalbody"):
            b = getattr(n, fld, None)
            if not isinstance(b, list):
                continue
            i = 0
            while i < len(b):
                s = b[i]
                if (isinstance(s, ast.Assign) and len(s.targets) == 1 and isinstance(s.targets[0], (ast.Tuple, ast.List)) and isinstance(s.value, (ast.Tuple, ast.List))
                        and len(s.targets[0].elts) == len(s.value.elts) and all(isinstance(t, ast.Name) for t in s.targets[0].elts)):
                    tn = {t.id for t in s.targets[0].elts}
                    rn = {x.id for v in s.value.elts for x in ast.walk(v) if isinstance(x, ast.Name)}
                    if not (tn & rn):
                        new = [ast.copy_location(ast.Assign(targets=[t], value=v, lineno=s.lineno), s) for t, v in zip(s.targets[0].elts, s.value.elts)]
                        b[i:i + 1] = new
                        i += len(new)
                        continue
                i += 1


def inlined(fn: ast.FunctionDef, keep=()) -> ast.FunctionDef:
    k = (id(fn), tuple(keep))
    if k not in _cache:
        new = copy.deepcopy(fn)
        unpack_tuples(new)
        for _ in range(60):
            if not _one_pass(new, keep):
                break
        _cache[k] = new
        _keep.append(fn)  # keep ids stable
    return _cache[k]


def inl(fi, keep=()):
    """FuncInfo whose node is the inlined copy."""
    return dataclasses.replace(fi, node=inlined(fi.node, keep))


# ---------------------------------------------------------------- helper (procedure / expression) inlining
class _Subst(ast.NodeTransformer):
    def __init__(self, mapping: dict, rename: dict):
        self.mapping, self.rename = mapping, rename

    def visit_Name(self, n):
        if n.id in self.mapping and isinstance(n.ctx, ast.Load):
            return copy.deepcopy(self.mapping[n.id])
        if n.id in self.rename:
            return ast.copy_location(ast.Name(id=self.rename[n.id], ctx=n.ctx), n)
        return n


def _helper_of(ix, fi, call: ast.Call):
    f = call.func
    if isinstance(f, ast.Attribute) and isinstance(f.value, ast.Name) and fi.cls is not None and f.value.id in ("self", "cls", fi.cls.name):
        h = fi.cls.methods.get(f.attr)
        if h is None:
            for c in ix.mro(fi.cls)[1:]:
                if f.attr in c.methods:
                    h = c.methods[f.attr]
                    break
        return h
    if isinstance(f, ast.Name):
        h = fi.module.functions.get(f.id)
        if h is None:
            r = ix.resolve(fi.module, f.id)
            if r and r[0] == "func":
                h = r[1]
        return h
    return None


def _bind(h, call: ast.Call):
    """param -> argument expression, or None when the call shape is not simple"""
    a = h.node.args
    if a.vararg or a.kwarg or any(isinstance(x, ast.Starred) for x in call.args) or any(k.arg is None for k in call.keywords):
        return None
    params = [x.arg for x in a.posonlyargs + a.args]
    if h.kind in ("method", "classmethod") and params:
        params = params[1:]
    kwonly = [x.arg for x in a.kwonlyargs]
    if len(call.args) > len(params):
        return None
    m = dict(zip(params, call.args))
    for k in call.keywords:
        if k.arg not in params + kwonly or k.arg in m:
            return None
        m[k.arg] = k.value
    defaults = dict(zip(params[len(params) - len(a.defaults):], a.defaults))
    for p, d in zip(kwonly, a.kw_defaults):
        if d is not None:
            defaults[p] = d
    for p in params + kwonly:
        if p not in m:
            if p not in defaults:
                return None
            m[p] = defaults[p]
    return m


def _body_no_doc(fn):
    b = list(fn.body)
    if b and isinstance(b[0], ast.Expr) and isinstance(b[0].value, ast.Constant) and isinstance(b[0].value.value, str):
        b = b[1:]
    return b


def _relocate(nodes, at):
    for nd in nodes:
        for x in ast.walk(nd):
            if hasattr(x, "lineno") or isinstance(x, (ast.expr, ast.stmt)):
                x.lineno = at.lineno
                x.end_lineno = getattr(at, "end_lineno", at.lineno)
                x.col_offset = getattr(at, "col_offset", 0)
                x.end_col_offset = getattr(at, "end_col_offset", 0)


def _as_expression(body, cont=None):
    """A statement list made of `return E` and (nested) `if` statements whose branches end in returns, read as one
    conditional expression; `cont` is the value of falling off the end of the list.  None when it is not of that form."""
    if not body:
        return cont
    first, rest = body[0], body[1:]
    if isinstance(first, ast.Return):
        return first.value
    if isinstance(first, ast.If):
        after = _as_expression(list(rest), cont)
        then = _as_expression(list(first.body), after)
        other = _as_expression(list(first.orelse), after) if first.orelse else after
        if then is None or other is None:
            return None
        return ast.IfExp(test=first.test, body=then, orelse=other)
    return None


_hcache: dict = {}


def with_helpers(ctx, fi, exclude=(), only_private=True, depth=3, inline_locals=True):
    """FuncInfo whose node is a copy of fi.node in which calls of small same-class / same-module helpers are expanded:
    (1) `self._h(a, b)` as a statement, where _h returns nothing (raises / writes only) -> its body, parameters bound;
    (2) a call of a helper whose body is a single `return E` -> E with the parameters substituted.
    Locals of the helper are renamed apart.  The copy is then passed through `inlined`."""
    key = (id(fi.node), tuple(exclude), only_private, depth, inline_locals)
    if key in _hcache:
        return _hcache[key]
    fn = copy.deepcopy(fi.node)
    counter = [0]
    caller_names = {x.id for x in ast.walk(fn) if isinstance(x, ast.Name)} | {a.arg for a in ast.walk(fn) if isinstance(a, ast.arg)}

    def eligible(h):
        if h is None or h.node is fi.node:
            return False
        if only_private and not (h.name.startswith("_") and not h.name.startswith("__")):
            return False
        if h.name in exclude or h.kind in ("getter", "setter"):
            return False
        if any(isinstance(x, (ast.Yield, ast.YieldFrom, ast.Await)) for x in ast.walk(h.node)):
            return False
        return True

    def expand_stmt_list(body, d):
        i = 0
        while i < len(body):
            s = body[i]
            for fld in ("body", "orelse", "finalbody"):
                sub = getattr(s, fld, None)
                if isinstance(sub, list) and sub and isinstance(sub[0], ast.stmt) and not isinstance(s, (ast.FunctionDef, ast.ClassDef, ast.AsyncFunctionDef)):
                    expand_stmt_list(sub, d)
            if isinstance(s, ast.Try):
                for hd in s.handlers:
                    expand_stmt_list(hd.body, d)
            if isinstance(s, (ast.Assign, ast.AnnAssign, ast.AugAssign, ast.Expr, ast.Return)) and d > 0 and getattr(s, "value", None) is not None:
                # a call of a straight-line single-return helper in argument position is hoisted into a temporary first
                top = s.value
                hoisted = None
                scoped = set()
                for sc_ in ast.walk(top):
                    if isinstance(sc_, (ast.ListComp, ast.DictComp, ast.SetComp, ast.GeneratorExp, ast.Lambda, ast.IfExp, ast.BoolOp)):
                        scoped.update(id(x_) for x_ in ast.walk(sc_) if x_ is not sc_)
                for c_ in ast.walk(top):
                    if c_ is top or not isinstance(c_, ast.Call) or id(c_) in scoped:
                        continue
                    h_ = _helper_of(ctx.ix, fi, c_)
                    if eligible(h_) and _as_expression(_body_no_doc(h_.node)) is None:
                        hb_ = _body_no_doc(h_.node)
                        rets_ = [r for r in walk_nested_free(h_.node) if isinstance(r, ast.Return)]
                        if hb_ and len(rets_) == 1 and rets_[0] is hb_[-1] and rets_[0].value is not None and _bind(h_, c_) is not None:
                            hoisted = c_
                            break
                if hoisted is not None:
                    counter[0] += 1
                    tmp = f"_hoisted{counter[0]}"
                    caller_names.add(tmp)
                    pre_stmt = ast.Assign(targets=[ast.Name(id=tmp, ctx=ast.Store())], value=hoisted, lineno=s.lineno)
                    ast.copy_location(pre_stmt, s)
                    parent_map = {ch: n_ for n_ in ast.walk(s) for ch in ast.iter_child_nodes(n_)}
                    _replace(parent_map[hoisted], hoisted, ast.copy_location(ast.Name(id=tmp, ctx=ast.Load()), hoisted))
                    ast.fix_missing_locations(pre_stmt)
                    body[i:i] = [pre_stmt]
                    continue  # re-examine the new assignment at position i
            if isinstance(s, (ast.Assign, ast.AnnAssign)) and isinstance(s.value, ast.Call) and d > 0:
                # x = helper(args) where the helper is straight-line code ending in its only `return E`
                h = _helper_of(ctx.ix, fi, s.value)
                if eligible(h) and _as_expression(_body_no_doc(h.node)) is None:
                    hb = _body_no_doc(h.node)
                    rets = [r for r in walk_nested_free(h.node) if isinstance(r, ast.Return)]
                    if hb and len(rets) == 1 and rets[0] is hb[-1] and rets[0].value is not None:
                        m = _bind(h, s.value)
                        if m is not None:
                            counter[0] += 1
                            tag = f"__{h.name.strip('_')}{counter[0]}"
                            stored = {x.id for x in ast.walk(h.node) if isinstance(x, ast.Name) and isinstance(x.ctx, ast.Store)}
                            rename = {nm: nm + tag for nm in stored if nm in caller_names}
                            pre, mapping = [], {}
                            for p_, a_ in m.items():
                                if p_ in stored or not isinstance(a_, (ast.Name, ast.Attribute, ast.Constant, ast.Subscript)):
                                    pn = p_ + tag if p_ in caller_names else p_
                                    pre.append(ast.Assign(targets=[ast.Name(id=pn, ctx=ast.Store())], value=copy.deepcopy(a_), lineno=s.lineno))
                                    rename[p_] = pn
                                else:
                                    mapping[p_] = a_
                            sub = _Subst(mapping, rename)
                            new = pre + [sub.visit(copy.deepcopy(x)) for x in hb[:-1]]
                            last = copy.deepcopy(s)
                            last.value = sub.visit(copy.deepcopy(hb[-1].value))
                            new.append(last)
                            _relocate(new, s)
                            for nd in new:
                                ast.fix_missing_locations(nd)
                            expand_stmt_list(new, d - 1)
                            caller_names.update(x.id for nd in new for x in ast.walk(nd) if isinstance(x, ast.Name))
                            body[i:i + 1] = new
                            i += len(new)
                            continue
            is_tail = isinstance(s, ast.Return) and isinstance(s.value, ast.Call)
            if (is_tail or (isinstance(s, ast.Expr) and isinstance(s.value, ast.Call))) and d > 0:
                h = _helper_of(ctx.ix, fi, s.value)
                if eligible(h) and not (is_tail and _as_expression(_body_no_doc(h.node)) is not None):
                    hb = _body_no_doc(h.node)
                    rets = [r for r in walk_nested_free(h.node) if isinstance(r, ast.Return)]
                    tail_ret = (not is_tail) and hb and isinstance(hb[-1], ast.Return)
                    # statement call: the helper returns nothing, or its only return is its last statement (the value is
                    # discarded by the caller); tail call `return h(..)`: the helper's returns become ours
                    if is_tail or len(rets) == (1 if tail_ret else 0):
                        m = _bind(h, s.value)
                        if m is not None:
                            counter[0] += 1
                            tag = f"__{h.name.strip('_')}{counter[0]}"
                            stored = {x.id for x in ast.walk(h.node) if isinstance(x, ast.Name) and isinstance(x.ctx, ast.Store)}
                            rename = {nm: nm + tag for nm in stored if nm in caller_names}
                            pre = []
                            mapping = {}
                            for p, a in m.items():
                                if p in stored or not isinstance(a, (ast.Name, ast.Attribute, ast.Constant, ast.Subscript)):
                                    pn = p + tag if p in caller_names else p
                                    pre.append(ast.Assign(targets=[ast.Name(id=pn, ctx=ast.Store())], value=copy.deepcopy(a), lineno=s.lineno))
                                    rename[p] = pn
                                else:
                                    mapping[p] = a
                            new = [_Subst(mapping, rename).visit(copy.deepcopy(x)) for x in (hb[:-1] if tail_ret else hb)]
                            new = pre + new
                            _relocate(new, s)
                            for nd in new:
                                ast.fix_missing_locations(nd)
                            expand_stmt_list(new, d - 1)
                            caller_names.update(x.id for nd in new for x in ast.walk(nd) if isinstance(x, ast.Name))
                            body[i:i + 1] = new or [ast.copy_location(ast.Pass(), s)]
                            i += max(len(new), 1)
                            continue
            i += 1

    def walk_nested_free(f):
        stack = list(f.body)
        while stack:
            x = stack.pop()
            yield x
            for c in ast.iter_child_nodes(x):
                if not isinstance(c, (ast.FunctionDef, ast.AsyncFunctionDef, ast.Lambda, ast.ClassDef)):
                    stack.append(c)

    class ExprExpand(ast.NodeTransformer):
        def __init__(self, d):
            self.d = d

        def visit_Call(self, c):
            self.generic_visit(c)
            if self.d <= 0:
                return c
            h = _helper_of(ctx.ix, fi, c)
            if not eligible(h):
                return c
            hb = _body_no_doc(h.node)
            value = _as_expression(hb)
            if value is not None:
                m = _bind(h, c)
                if m is None:
                    return c
                e = _Subst(m, {}).visit(copy.deepcopy(value))
                _relocate([e], c)
                return ExprExpand(self.d - 1).visit(e)
            return c

    class PropExpand(ast.NodeTransformer):
        """self._p  ->  E   for a private property of the class whose getter is `return E`"""

        def visit_Attribute(self, a):
            self.generic_visit(a)
            if isinstance(a.ctx, ast.Load) and isinstance(a.value, ast.Name) and a.value.id == "self" and fi.cls is not None and a.attr.startswith("_") and not a.attr.startswith("__"):
                g = fi.cls.getters.get(a.attr)
                if g is not None and g.node is not fi.node and a.attr not in exclude:
                    e = _as_expression(_body_no_doc(g.node))
                    if e is not None:
                        e = copy.deepcopy(e)
                        _relocate([e], a)
                        return e
            return a

    expand_stmt_list(fn.body, depth)
    fn = ExprExpand(depth).visit(fn)
    fn = PropExpand().visit(fn)
    ast.fix_missing_locations(fn)
    out = dataclasses.replace(fi, node=inlined(fn) if inline_locals else fn)
    _keep.append(fn)
    _hcache[key] = out
    _keep.append(fi.node)
    return out


# ---------------------------------------------------------------- early exits as else-branches
def else_normal(fn: ast.FunctionDef) -> ast.FunctionDef:
    """Copy of fn in which `if T: ...; return/raise/continue/break` followed by more statements is rewritten as
    `if T: ... else: <the following statements>` (recursively): a chain of guard clauses and an if/elif/else chain
    become the same tree."""
    k = ("else", id(fn))
    if k in _cache:
        return _cache[k]
    new = copy.deepcopy(fn)

    def term(body):
        return bool(body) and isinstance(body[-1], (ast.Return, ast.Raise, ast.Continue, ast.Break))

    def fix(body):
        i = 0
        while i < len(body):
            s = body[i]
            for fld in ("body", "orelse", "finalbody"):
                sub = getattr(s, fld, None)
                if isinstance(sub, list) and sub and isinstance(sub[0], ast.stmt) and not isinstance(s, (ast.FunctionDef, ast.AsyncFunctionDef, ast.ClassDef)):
                    fix(sub)
            if isinstance(s, ast.Try):
                for h in s.handlers:
                    fix(h.body)
            if isinstance(s, ast.If) and not s.orelse and term(s.body) and body[i + 1:]:
                rest = body[i + 1:]
                del body[i + 1:]
                s.orelse = rest
                fix(s.orelse)
                return
            i += 1

    fix(new.body)
    _cache[k] = new
    _keep.append(fn)
    return new


def preorder_index(fn) -> dict:
    """id(node) -> position in a depth-first, source-order walk (usable where line numbers are not: inlined code
    carries the line of the call it replaced)"""
    out = {}

    def go(n):
        out[id(n)] = len(out)
        for c in ast.iter_child_nodes(n):
            go(c)

    go(fn)
    return out
