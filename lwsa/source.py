"""Load the working tree of /repo/lightworks as {relpath: text}, with optional overlay.

A Tree is what every rule analyses.  Variants (sensitivity battery) are Trees
whose text for one file was replaced in memory; nothing is written to disk.
"""

from __future__ import annotations

import ast
import hashlib
import os
from pathlib import Path


class AnalysisError(Exception):
    """The analyser could not decide (anchor vanished, unfoldable table, ...): exit 2."""


def repo_root() -> Path:
    return Path(os.environ.get("LWSA_REPO", "/repo"))


class Tree:
    def __init__(self, files: dict[str, str], label: str = "working-tree"):
        self.files = dict(files)
        self.label = label
        self._asts: dict[str, ast.Module] = {}
        self._parents: dict[str, dict] = {}

    @classmethod
    def load(cls, root: Path | None = None) -> "Tree":
        root = Path(root) if root else repo_root()
        pkg = root / "lightworks"
        if not pkg.is_dir():
            raise AnalysisError(f"package directory {pkg} not found")
        files = {}
        for p in sorted(pkg.rglob("*.py")):
            rel = str(p.relative_to(root))
            files[rel] = p.read_text(encoding="utf-8")
        if len(files) < 40:
            raise AnalysisError(f"only {len(files)} python files under {pkg}")
        return cls(files)

    def overlay(self, changes: dict[str, str], label: str) -> "Tree":
        f = dict(self.files)
        f.update(changes)
        return Tree(f, label)

    def ast(self, rel: str) -> ast.Module:
        if rel not in self._asts:
            if rel not in self.files:
                raise AnalysisError(f"anchor file {rel} not found")
            try:
                self._asts[rel] = ast.parse(self.files[rel], filename=rel)
            except SyntaxError as e:  # the build would fail too
                raise AnalysisError(f"{rel} does not parse: {e}") from e
        return self._asts[rel]

    def parents(self, rel: str) -> dict:
        if rel not in self._parents:
            par = {}
            for n in ast.walk(self.ast(rel)):
                for c in ast.iter_child_nodes(n):
                    par[c] = n
            self._parents[rel] = par
        return self._parents[rel]

    def digest(self, rels=None) -> str:
        h = hashlib.sha256()
        for r in sorted(rels or self.files):
            h.update(r.encode())
            h.update(self.files.get(r, "").encode())
        return h.hexdigest()[:16]


def src(node: ast.AST | None) -> str:
    """Normalised source of a construct (keys never depend on line numbers)."""
    if node is None:
        return ""
    try:
        return ast.unparse(node)
    except Exception:  # pragma: no cover
        return ast.dump(node)
