"""May-alias / freshness / mutation-effect analysis with bottom-up function summaries.

Abstract locations (nested tuples):
  ("P", name)          the object bound to parameter `name` at entry (incl. self)
  ("F", site)          an object created in this function (constructor, literal, copy, ...)
  ("D", site)          a deep-fresh object graph (deepcopy): everything reachable is itself
  ("f", base, field)   the object field `field` of `base` referred to at function entry
  ("e", base)          an element (or key/value) of container `base` at function entry
  ("G", rel, name)     a module-level object
  ("U",)               unknown
Values of provably immutable type carry no location at all.

The analysis is a structured abstract interpretation of the function body (joins at
branches, fixpoint on loops) over an environment name -> V and a heap
(loc, selector) -> V with strong updates on single concrete objects.
Every in-place change of an object is recorded as an Event; calls to repository
functions apply the callee's summary (events, returned value, heap effects) under the
substitution parameter -> actual argument.
"""

from __future__ import annotations

import ast
from dataclasses import dataclass, field

from .index import ClassInfo, FuncInfo, Index, ModuleInfo, mangle, walk_no_nested
from .source import AnalysisError, src

MAXDEPTH = 4
IMMUT = frozenset({"int", "float", "complex", "str", "bool", "None", "bytes", "tuple", "Number", "type", "slice", "range"})
CONTAINER_T = frozenset({"list", "dict", "set", "ndarray", "Counter"})
LIST_MUT = {"append", "extend", "insert", "pop", "remove", "clear", "sort", "reverse", "update", "add", "discard", "popitem", "setdefault", "__setitem__", "__delitem__", "fill", "resize", "itemset"}
PURE_BUILTINS = {
    "len", "sum", "min", "max", "abs", "int", "float", "str", "bool", "complex", "isinstance", "issubclass",
    "hasattr", "range", "print", "round", "hash", "id", "repr", "any", "all", "type", "callable", "ord", "chr",
    "divmod", "pow", "format", "input", "NotImplementedError", "ValueError", "TypeError", "KeyError",
    "AttributeError", "RuntimeError", "IndexError", "Exception", "super", "factorial", "prod",
}


def depth(loc) -> int:
    d = 0
    while loc[0] in ("f", "e", "k"):
        loc = loc[1]
        d += 1
    return d


def root(loc):
    while loc[0] in ("f", "e", "k"):
        loc = loc[1]
    return loc


def loc_str(loc) -> str:
    k = loc[0]
    if k == "P":
        return loc[1]
    if k == "F":
        return f"<fresh@{loc[1].rsplit('::', 1)[-1]}>"
    if k == "D":
        return f"<deepcopy@{loc[1].rsplit('::', 1)[-1]}>"
    if k == "f":
        return f"{loc_str(loc[1])}.{loc[2]}"
    if k == "e":
        return f"{loc_str(loc[1])}[*]"
    if k == "k":
        return f"key-of({loc_str(loc[1])})"
    if k == "G":
        return f"<global {loc[2]}>"
    return "<unknown>"


@dataclass(frozen=True)
class V:
    locs: frozenset = frozenset()
    types: frozenset = frozenset()

    def join(self, o: "V") -> "V":
        if self is o:
            return self
        return V(self.locs | o.locs, self.types | o.types)

    def __bool__(self):
        return bool(self.locs or self.types)


NOV = V()
UNK = V(frozenset({("U",)}))


@dataclass
class Event:
    kind: str  # attr-store | sub-store | mutator | aug | del | setattr | callee
    locs: frozenset
    node: ast.AST
    detail: str
    func: FuncInfo
    via: str | None = None  # callee fid for 'callee' events
    field: str | None = None

    def site(self) -> str:
        return f"{self.func.rel}:{getattr(self.node, 'lineno', 0)}"


@dataclass
class Summary:
    func: FuncInfo
    events: list[Event] = field(default_factory=list)
    returns: V = NOV
    yields: V = NOV
    heap: dict = field(default_factory=dict)
    calls: list = field(default_factory=list)  # (call node, [callee fids] | None)
    may_raise: bool = False
    unknown_calls: int = 0
    resolved_calls: int = 0
    stores_of_params: list = field(default_factory=list)  # (param loc stored into heap key)
    captures: list = field(default_factory=list)  # (event index, class name, arg V, call node): objects that keep a caller's list

    def mutated_roots(self) -> set:
        out = set()
        for ev in self.events:
            for loc in ev.locs:
                out.add(root(loc))
        return out


class Heap:
    __slots__ = ("d",)

    def __init__(self, d=None):
        self.d = dict(d) if d else {}

    def copy(self):
        return Heap(self.d)

    def read(self, loc, sel, _seen=None) -> V:
        k = loc[0]
        if k == "D":
            return V(frozenset({loc}))
        if k == "U":
            return UNK
        ent = self.d.get((loc, sel))
        if k == "F":
            if ent:
                return ent[0]
            link = self.d.get((loc, "__copy_of__")) if sel != "__copy_of__" else None
            if link:
                _seen = _seen or set()
                _seen.add(loc)
                out = NOV
                for l in link[0].locs:
                    if l not in _seen:
                        out = out.join(self.read(l, sel, _seen))
                return out
            return NOV
        if depth(loc) >= MAXDEPTH:
            imp = loc
        else:
            imp = ("e", loc) if sel == "*" else (("k", loc) if sel == "*k" else ("f", loc, sel))
        if ent:
            v, strong = ent
            if strong:
                return v
            return V(v.locs | {imp}, v.types)
        return V(frozenset({imp}))

    def write(self, locs, sel, val: V, weak=False) -> None:
        locs = [l for l in locs if l[0] not in ("U", "D")]
        single = len(locs) == 1 and locs[0][0] in ("P", "F") and not weak and sel not in ("*", "*k")
        for loc in locs:
            key = (loc, sel)
            if single:
                self.d[key] = (val, True)
            else:
                old = self.d.get(key)
                if old:
                    self.d[key] = (old[0].join(val), old[1])
                else:
                    # fresh containers: what we store is all there is
                    self.d[key] = (val, loc[0] == "F")

    def join(self, o: "Heap") -> "Heap":
        out = {}
        for key in set(self.d) | set(o.d):
            a, b = self.d.get(key), o.d.get(key)
            if a and b:
                out[key] = (a[0].join(b[0]), a[1] and b[1])
            else:
                v, strong = a or b
                out[key] = (v, strong and key[0][0] == "F")
        return Heap(out)

    def __eq__(self, o):
        return isinstance(o, Heap) and self.d == o.d


class State_:
    """Abstract state at a program point."""

    __slots__ = ("env", "heap")

    def __init__(self, env=None, heap=None):
        self.env = dict(env) if env else {}
        self.heap = heap if heap is not None else Heap()

    def copy(self):
        return State_(self.env, self.heap.copy())

    def join(self, o: "State_ | None") -> "State_":
        if o is None:
            return self.copy()
        env = {}
        for k in set(self.env) | set(o.env):
            a, b = self.env.get(k), o.env.get(k)
            env[k] = a.join(b) if (a is not None and b is not None) else (a if a is not None else b)
        return State_(env, self.heap.join(o.heap))

    def __eq__(self, o):
        return isinstance(o, State_) and self.env == o.env and self.heap == o.heap


def join_states(a, b):
    if a is None:
        return b
    if b is None:
        return a
    return a.join(b)


class Engine:
    def __init__(self, index: Index):
        self.ix = index
        self.memo: dict[int, Summary] = {}
        self.in_progress: dict[int, Summary] = {}
        self.dirty: set[int] = set()
        self._field_types: dict[tuple[str, str], frozenset] = {}
        self._methods_by_name: dict[str, list[tuple[ClassInfo, str]]] | None = None

    # ------------------------------------------------------------------ summaries
    def summary(self, fi: FuncInfo) -> Summary:
        key = id(fi.node)
        if key in self.memo:
            return self.memo[key]
        if key in self.in_progress:
            self.dirty.add(key)
            return self.in_progress[key]
        cur = Summary(fi)
        self.in_progress[key] = cur
        for _ in range(6):
            self.dirty.discard(key)
            new = FuncAnalysis(self, fi).run()
            same = _summary_sig(new) == _summary_sig(cur)
            cur = new
            self.in_progress[key] = cur
            if key not in self.dirty or same:
                break
        del self.in_progress[key]
        self.memo[key] = cur
        return cur

    # ------------------------------------------------------------------ helpers
    def methods_named(self, name: str) -> list[tuple[ClassInfo, str]]:
        if self._methods_by_name is None:
            d: dict[str, list] = {}
            for m in self.ix.modules.values():
                for c in m.classes.values():
                    for n in c.methods:
                        d.setdefault(n, []).append((c, "method"))
                    for n in c.getters:
                        d.setdefault(n, []).append((c, "property"))
                    for n in c.multimethods:
                        d.setdefault(n, []).append((c, "multimethod"))
            self._methods_by_name = d
        return self._methods_by_name.get(name, [])

    def class_of(self, tname: str) -> ClassInfo | None:
        try:
            return self.ix.find_class(tname)
        except AnalysisError:
            return None

    def field_types(self, ci: ClassInfo, fld: str) -> frozenset:
        """Types ever assigned to self.<fld> in class ci (from annotations / constructor calls)."""
        key = (ci.name, fld)
        if key in self._field_types:
            return self._field_types[key]
        self._field_types[key] = frozenset()
        out: set[str] = set()
        for c in self.ix.mro(ci):
            for name, ann in c.dataclass_fields:
                if name == fld:
                    out |= self.ix.ann_types(c.module, ann)
            for f in c.all_funcs():
                ptypes = {p: self.ix.ann_types(c.module, f.param_annotation(p)) for p in f.params()}
                for n in walk_no_nested(f.node):
                    tgt = val = ann = None
                    if isinstance(n, ast.Assign) and len(n.targets) == 1:
                        tgt, val = n.targets[0], n.value
                    elif isinstance(n, ast.AnnAssign):
                        tgt, val, ann = n.target, n.value, n.annotation
                    if isinstance(tgt, ast.Attribute) and isinstance(tgt.value, ast.Name) and tgt.value.id == "self" and mangle(c.name, tgt.attr) == fld:
                        if ann is not None:
                            out |= self.ix.ann_types(c.module, ann)
                        if isinstance(val, ast.Name) and val.id in ptypes:
                            out |= ptypes[val.id]
                        elif isinstance(val, ast.Call) and isinstance(val.func, ast.Name):
                            r = self.ix.resolve(c.module, val.func.id)
                            if r and r[0] == "class":
                                out.add(r[1].name)
                            elif val.func.id in ("list", "dict", "set"):
                                out.add(val.func.id)
                        elif isinstance(val, (ast.List, ast.ListComp)):
                            out.add("list")
                        elif isinstance(val, (ast.Dict, ast.DictComp)):
                            out.add("dict")
        out.discard("None")
        self._field_types[key] = frozenset(out)
        return self._field_types[key]


def _summary_sig(s: Summary):
    return (
        frozenset((e.kind, e.locs, e.detail) for e in s.events),
        s.returns,
        s.yields,
        frozenset((k, v) for k, v in s.heap.items()),
        s.may_raise,
    )


class _Return(Exception):
    pass


class FuncAnalysis:
    def __init__(self, eng: Engine, fi: FuncInfo):
        self.eng = eng
        self.ix = eng.ix
        self.fi = fi
        self.mi: ModuleInfo = fi.module
        self.cls = fi.cls
        self.sum = Summary(fi)
        self.ret_states: list[State_] = []
        self.loop_breaks: list[list[State_]] = []
        self.loop_continues: list[list[State_]] = []
        self.node_states: dict[int, State_] = {}  # id(stmt) -> state before it (last visit, joined)
        self._fresh_n = 0
        self._evkeys: dict = {}

    # ------------------------------------------------------------------ driver
    def run(self) -> Summary:
        st = State_()
        a = self.fi.node.args
        params = a.posonlyargs + a.args + a.kwonlyargs
        for i, p in enumerate(params):
            if i == 0 and self.cls is not None and self.fi.kind not in ("static",):
                st.env[p.arg] = V(frozenset({("P", p.arg)}), frozenset({self.cls.name}))
                continue
            types = frozenset(self.ix.ann_types(self.mi, p.annotation))
            types = types - {"None", "Any", "Optional", "Union"}
            if types and types <= IMMUT:
                st.env[p.arg] = V(frozenset(), types)
            else:
                st.env[p.arg] = V(frozenset({("P", p.arg)}), types)
        if a.vararg:
            st.env[a.vararg.arg] = V(frozenset({("P", a.vararg.arg)}), frozenset({"tuple"}))
        if a.kwarg:
            st.env[a.kwarg.arg] = V(frozenset({("P", a.kwarg.arg)}), frozenset({"dict"}))
        end = self.block(self.fi.node.body, st)
        if end is not None:
            self.ret_states.append(end)
        heap = None
        for s in self.ret_states:
            heap = s.heap if heap is None else heap.join(s.heap)
        self.sum.heap = heap.d if heap else {}
        return self.sum

    def fresh(self, node: ast.AST, tag: str = "") -> tuple:
        return ("F", f"{self.fi.fid}::{getattr(node, 'lineno', 0)}:{getattr(node, 'col_offset', 0)}{tag}")

    def event(self, kind, locs, node, detail, via=None, fld=None):
        locs = frozenset(l for l in locs if l[0] != "D")
        # events on objects created in this very function are still recorded (rules
        # decide what matters); deep-fresh objects are private by construction.
        key = (kind, id(node), detail, via, fld)
        old = self._evkeys.get(key)
        if old is not None:
            old.locs = old.locs | locs
            return
        ev = Event(kind, locs, node, detail, self.fi, via, fld)
        self._evkeys[key] = ev
        self.sum.events.append(ev)

    # ------------------------------------------------------------------ statements
    def block(self, stmts, st: State_ | None) -> State_ | None:
        for s in stmts:
            if st is None:
                return None
            st = self.stmt(s, st)
        return st

    def stmt(self, s, st: State_) -> State_ | None:
        prev = self.node_states.get(id(s))
        self.node_states[id(s)] = st.copy() if prev is None else prev.join(st)
        if isinstance(s, ast.Assign):
            v = self.expr(s.value, st)
            for t in s.targets:
                self.assign(t, v, st, s)
            return st
        if isinstance(s, ast.AnnAssign):
            if s.value is not None:
                v = self.expr(s.value, st)
                ts = frozenset(self.ix.ann_types(self.mi, s.annotation)) - {"None"}
                if ts and not v.types:
                    v = V(v.locs, ts)
                self.assign(s.target, v, st, s)
            return st
        if isinstance(s, ast.AugAssign):
            return self.augassign(s, st)
        if isinstance(s, ast.Expr):
            self.expr(s.value, st)
            return st
        if isinstance(s, ast.Return):
            if s.value is not None:
                v = self.expr(s.value, st)
                self.sum.returns = self.sum.returns.join(v)
            self.ret_states.append(st)
            return None
        if isinstance(s, ast.Raise):
            if s.exc is not None:
                self.expr(s.exc, st)
            self.sum.may_raise = True
            return None
        if isinstance(s, ast.If):
            self.expr(s.test, st)
            a, b = st.copy(), st.copy()
            self.narrow(s.test, a, True)
            self.narrow(s.test, b, False)
            a = self.block(s.body, a)
            b = self.block(s.orelse, b)
            return join_states(a, b)
        if isinstance(s, (ast.For, ast.While)):
            return self.loop(s, st)
        if isinstance(s, ast.Try):
            before = st.copy()
            after = self.block(s.body, st)
            hstate = join_states(before, after)
            outs = []
            if after is not None:
                outs.append(self.block(s.orelse, after) if s.orelse else after)
            for h in s.handlers:
                hs = hstate.copy()
                if h.name:
                    hs.env[h.name] = NOV
                outs.append(self.block(h.body, hs))
            res = None
            for o in outs:
                res = join_states(res, o)
            if s.finalbody and res is not None:
                res = self.block(s.finalbody, res)
            return res
        if isinstance(s, (ast.With, ast.AsyncWith)):
            for it in s.items:
                v = self.expr(it.context_expr, st)
                if it.optional_vars is not None:
                    self.assign(it.optional_vars, v, st, s)
            return self.block(s.body, st)
        if isinstance(s, ast.Break):
            if self.loop_breaks:
                self.loop_breaks[-1].append(st)
            return None
        if isinstance(s, ast.Continue):
            if self.loop_continues:
                self.loop_continues[-1].append(st)
            return None
        if isinstance(s, ast.Delete):
            for t in s.targets:
                if isinstance(t, ast.Subscript):
                    base = self.expr(t.value, st)
                    self.expr(t.slice, st)
                    self.event("del", base.locs, s, f"del {src(t)}")
                elif isinstance(t, ast.Attribute):
                    base = self.expr(t.value, st)
                    self.event("del", base.locs, s, f"del {src(t)}", fld=self.mangled(t.attr))
                elif isinstance(t, ast.Name):
                    st.env.pop(t.id, None)
            return st
        if isinstance(s, ast.Assert):
            self.expr(s.test, st)
            return st
        if isinstance(s, (ast.Pass, ast.Import, ast.ImportFrom, ast.Global, ast.Nonlocal, ast.FunctionDef, ast.AsyncFunctionDef, ast.ClassDef)):
            return st
        raise AnalysisError(f"unsupported statement {type(s).__name__} in {self.fi.fid}")

    def loop(self, s, st: State_) -> State_ | None:
        self.loop_breaks.append([])
        self.loop_continues.append([])
        cur = st
        exit_state = None
        for _ in range(8):
            body_in = cur.copy()
            if isinstance(s, ast.For):
                it = self.expr(s.iter, body_in)
                elem = self.elements_of(it, body_in, s.iter)
                self.assign(s.target, elem, body_in, s)
            else:
                self.expr(s.test, body_in)
                self.narrow(s.test, body_in, True)
            out = self.block(s.body, body_in)
            for c in self.loop_continues[-1]:
                out = join_states(out, c)
            self.loop_continues[-1].clear()
            new = join_states(cur, out)
            if new == cur:
                break
            cur = new
        exit_state = cur.copy()
        if isinstance(s, ast.For):
            self.expr(s.iter, exit_state)
        else:
            self.expr(s.test, exit_state)
            if isinstance(s.test, ast.Constant) and s.test.value is True:
                exit_state = None
        breaks = self.loop_breaks.pop()
        self.loop_continues.pop()
        if s.orelse and exit_state is not None:
            exit_state = self.block(s.orelse, exit_state)
        for b in breaks:
            exit_state = join_states(exit_state, b)
        return exit_state

    def narrow(self, test, st: State_, branch: bool) -> None:
        neg = False
        t = test
        while isinstance(t, ast.UnaryOp) and isinstance(t.op, ast.Not):
            neg = not neg
            t = t.operand
        if isinstance(t, ast.BoolOp) and isinstance(t.op, ast.And) and branch and not neg:
            for v in t.values:
                self.narrow(v, st, True)
            return
        if isinstance(t, ast.Call) and isinstance(t.func, ast.Name) and t.func.id == "isinstance" and len(t.args) == 2 and isinstance(t.args[0], ast.Name):
            if (branch and not neg) or (not branch and neg):
                name = t.args[0].id
                ts = self.type_names(t.args[1])
                if ts and name in st.env:
                    old = st.env[name]
                    if ts <= IMMUT:
                        st.env[name] = V(frozenset(), frozenset(ts))
                    else:
                        st.env[name] = V(old.locs, frozenset(ts))

    def type_names(self, e) -> set[str]:
        if isinstance(e, ast.Name):
            return {e.id}
        if isinstance(e, ast.Attribute):
            return {e.attr}
        if isinstance(e, ast.Tuple):
            out = set()
            for x in e.elts:
                out |= self.type_names(x)
            return out
        if isinstance(e, ast.BinOp) and isinstance(e.op, ast.BitOr):
            return self.type_names(e.left) | self.type_names(e.right)
        return set()

    # ------------------------------------------------------------------ assignment
    def mangled(self, attr: str) -> str:
        return mangle(self.cls.name if self.cls else None, attr)

    def assign(self, t, v: V, st: State_, stmt) -> None:
        if isinstance(t, ast.Name):
            st.env[t.id] = v
        elif isinstance(t, (ast.Tuple, ast.List)):
            ev = self.elements_of(v, st, t)
            starred = any(isinstance(e, ast.Starred) for e in t.elts)
            for i, e in enumerate(t.elts):
                # tuples made by zip / enumerate keep their positions: `for a, row in zip(A, B)` gives row only B's elements
                if not starred and v.locs and all(loc[0] == "F" and (loc, f"#{i}") in st.heap.d for loc in v.locs):
                    pv = NOV
                    for loc in v.locs:
                        pv = pv.join(st.heap.d[(loc, f"#{i}")][0])
                    self.assign(e, pv, st, stmt)
                    continue
                self.assign(e.value if isinstance(e, ast.Starred) else e, ev, st, stmt)
        elif isinstance(t, ast.Attribute):
            base = self.expr(t.value, st)
            fld = self.mangled(t.attr)
            if self.setter_call(base, t.attr, v, st, stmt):
                return
            self.event("attr-store", base.locs, stmt, f"{src(t)} = ...", fld=fld)
            st.heap.write(base.locs, fld, v)
        elif isinstance(t, ast.Subscript):
            base = self.expr(t.value, st)
            k = self.expr(t.slice, st)
            if self.dunder_call(base, "__setitem__", [k, v], st, stmt) is not None:
                return
            self.event("sub-store", base.locs, stmt, f"{src(t)} = ...")
            st.heap.write(base.locs, "*", v, weak=True)
            if k.locs:
                st.heap.write(base.locs, "*k", k, weak=True)
        elif isinstance(t, ast.Starred):
            self.assign(t.value, v, st, stmt)

    def setter_call(self, base: V, attr: str, v: V, st: State_, stmt) -> bool:
        handled = False
        for tn in base.types:
            ci = self.eng.class_of(tn)
            if ci is None:
                continue
            r = self.ix.lookup(ci, attr)
            if r and r[0] == "property":
                if r[2] is not None:
                    self.apply(r[2], [base, v], {}, st, stmt, recv=base)
                handled = True
        return handled and all(self.eng.class_of(tn) is not None for tn in base.types)

    def augassign(self, s: ast.AugAssign, st: State_) -> State_:
        t = s.target
        rhs = self.expr(s.value, st)
        if isinstance(t, ast.Name):
            cur = st.env.get(t.id, NOV)
            inplace = bool(cur.types & CONTAINER_T) or (not cur.types and cur.locs and (rhs.types & CONTAINER_T or isinstance(s.value, (ast.List, ast.ListComp))))
            if cur.types and cur.types <= IMMUT:
                inplace = False
            handled = False
            for tn in cur.types:
                ci = self.eng.class_of(tn)
                if ci is not None:
                    handled = True
                    r = self.ix.lookup(ci, "__iadd__") if isinstance(s.op, ast.Add) else None
                    if r and r[0] == "method":
                        self.apply(r[1], [cur, rhs], {}, st, s, recv=cur)
                    else:
                        r2 = self.ix.lookup(ci, "__add__") if isinstance(s.op, ast.Add) else None
                        if r2 and r2[0] == "method":
                            st.env[t.id] = self.apply(r2[1], [cur, rhs], {}, st, s, recv=cur)
                        else:
                            st.env[t.id] = V(frozenset({self.fresh(s)}), cur.types)
            if handled:
                return st
            if inplace:
                self.event("aug", cur.locs, s, f"{src(s)} (in-place on a container)")
                st.heap.write(cur.locs, "*", self.elements_of(rhs, st, s.value), weak=True)
            else:
                if cur.locs and not cur.types and rhs.locs:
                    # unknown: could be list concatenation in place
                    self.event("aug", cur.locs, s, f"{src(s)} (possibly in-place)")
                elif not cur.locs:
                    st.env[t.id] = V(frozenset(), cur.types | rhs.types)
            return st
        if isinstance(t, ast.Attribute):
            base = self.expr(t.value, st)
            fld = self.mangled(t.attr)
            cur = self.load_attr(base, t.attr, st, t)
            self.event("attr-store", base.locs, s, f"{src(s)}", fld=fld)
            if cur.types & CONTAINER_T or (cur.locs and rhs.types & CONTAINER_T):
                self.event("aug", cur.locs, s, f"{src(s)} (in-place on a container)")
                st.heap.write(cur.locs, "*", self.elements_of(rhs, st, s.value), weak=True)
            return st
        if isinstance(t, ast.Subscript):
            base = self.expr(t.value, st)
            self.expr(t.slice, st)
            if self.dunder_call(base, "__setitem__", [NOV, rhs], st, s) is None:
                self.event("sub-store", base.locs, s, f"{src(s)}")
                st.heap.write(base.locs, "*", rhs, weak=True)
            return st
        return st

    # ------------------------------------------------------------------ expressions
    def elements_of(self, v: V, st: State_, node) -> V:
        out = NOV
        for tn in v.types:
            ci = self.eng.class_of(tn)
            if ci is not None:
                r = self.ix.lookup(ci, "__iter__")
                if r and r[0] == "method":
                    s = self.eng.summary(r[1])
                    out = out.join(self.subst_val(s.yields.join(s.returns), {"self": v}, st, node, r[1]))
        for loc in v.locs:
            out = out.join(st.heap.read(loc, "*"))
            if not (v.types and v.types <= {"list", "set", "tuple", "ndarray"}):
                out = out.join(st.heap.read(loc, "*k"))
        return out

    def values_of(self, v: V, st: State_) -> V:
        out = NOV
        for loc in v.locs:
            out = out.join(st.heap.read(loc, "*"))
        return out

    def keys_of(self, v: V, st: State_) -> V:
        out = NOV
        for loc in v.locs:
            out = out.join(st.heap.read(loc, "*k"))
            if not (v.types and v.types <= {"dict", "Counter"}):
                out = out.join(st.heap.read(loc, "*"))
        return out

    def expr(self, e, st: State_) -> V:
        if e is None:
            return NOV
        m = getattr(self, "e_" + type(e).__name__, None)
        if m is None:
            for c in ast.iter_child_nodes(e):
                if isinstance(c, ast.expr):
                    self.expr(c, st)
            return NOV
        return m(e, st)

    def e_Constant(self, e, st):
        return V(frozenset(), frozenset({type(e.value).__name__ if e.value is not None else "None"}))

    def e_JoinedStr(self, e, st):
        for v in e.values:
            if isinstance(v, ast.FormattedValue):
                self.expr(v.value, st)
        return V(frozenset(), frozenset({"str"}))

    def e_Name(self, e, st):
        if e.id in st.env:
            return st.env[e.id]
        r = self.ix.resolve(self.mi, e.id)
        if r is None:
            return NOV
        if r[0] == "var":
            mi, name = r[1]
            types = set()
            for val in mi.assigns.get(name, []):
                if isinstance(val, ast.Call) and isinstance(val.func, ast.Name):
                    rr = self.ix.resolve(mi, val.func.id)
                    if rr and rr[0] == "class":
                        types.add(rr[1].name)
                elif isinstance(val, ast.Dict):
                    types.add("dict")
                elif isinstance(val, ast.List):
                    types.add("list")
                elif isinstance(val, ast.Constant):
                    return V(frozenset(), frozenset({type(val.value).__name__}))
            return V(frozenset({("G", mi.rel, name)}), frozenset(types))
        return NOV  # classes, functions, modules: no object identity tracked

    def e_Attribute(self, e, st):
        base = self.expr(e.value, st)
        return self.load_attr(base, e.attr, st, e)

    def load_attr(self, base: V, attr: str, st: State_, node) -> V:
        out = NOV
        fld = self.mangled(attr)
        known = False
        for tn in base.types:
            ci = self.eng.class_of(tn)
            if ci is None:
                continue
            r = self.ix.lookup(ci, attr)
            if r and r[0] == "property":
                known = True
                g = r[1]
                res = self.apply(g, [base], {}, st, node, recv=base)
                ts = frozenset(self.ix.ann_types(g.module, g.node.returns)) - {"None"}
                out = out.join(V(res.locs if not (ts and ts <= IMMUT) else frozenset(), ts or res.types))
            elif r and r[0] in ("method", "multimethod"):
                known = True  # bound method object: not tracked
            else:
                ft = self.eng.field_types(ci, fld)
                if ft:
                    known = True
                    v = NOV
                    for loc in base.locs:
                        v = v.join(st.heap.read(loc, fld))
                    if ft <= IMMUT:
                        out = out.join(V(frozenset(), ft))
                    else:
                        out = out.join(V(v.locs, ft | v.types))
        if not known:
            v = NOV
            for loc in base.locs:
                v = v.join(st.heap.read(loc, fld))
            out = out.join(v)
        return out

    def e_Subscript(self, e, st):
        base = self.expr(e.value, st)
        k = self.expr(e.slice, st)
        r = self.dunder_call(base, "__getitem__", [k], st, e)
        if r is not None:
            return r
        if isinstance(e.slice, ast.Slice) or (isinstance(e.slice, ast.Tuple) and any(isinstance(x, ast.Slice) for x in e.slice.elts)):
            if "ndarray" in base.types:
                return base  # numpy slices are views
            f = self.fresh(e)
            st.heap.write([f], "*", self.elements_of(base, st, e), weak=True)
            return V(frozenset({f}), base.types & CONTAINER_T)
        out = NOV
        for loc in base.locs:
            out = out.join(st.heap.read(loc, "*"))
        return out

    def e_Slice(self, e, st):
        for x in (e.lower, e.upper, e.step):
            if x is not None:
                self.expr(x, st)
        return NOV

    def dunder_call(self, base: V, name: str, args: list, st: State_, node):
        res = None
        for tn in base.types:
            ci = self.eng.class_of(tn)
            if ci is None:
                continue
            r = self.ix.lookup(ci, name)
            if r and r[0] == "method":
                v = self.apply(r[1], [base, *args], {}, st, node, recv=base)
                res = v if res is None else res.join(v)
        if res is not None and all(self.eng.class_of(tn) is not None for tn in base.types):
            return res
        return None

    def e_List(self, e, st):
        f = self.fresh(e)
        v = NOV
        for x in e.elts:
            xv = self.expr(x.value if isinstance(x, ast.Starred) else x, st)
            v = v.join(self.elements_of(xv, st, x) if isinstance(x, ast.Starred) else xv)
        st.heap.write([f], "*", v, weak=True)
        return V(frozenset({f}), frozenset({"list"}))

    def e_Tuple(self, e, st):
        f = self.fresh(e)
        v = NOV
        for x in e.elts:
            xv = self.expr(x.value if isinstance(x, ast.Starred) else x, st)
            v = v.join(self.elements_of(xv, st, x) if isinstance(x, ast.Starred) else xv)
        if not v.locs:
            return V(frozenset(), frozenset({"tuple"}))
        st.heap.write([f], "*", v, weak=True)
        return V(frozenset({f}), frozenset({"tuple"}))

    def e_Set(self, e, st):
        f = self.fresh(e)
        v = NOV
        for x in e.elts:
            v = v.join(self.expr(x, st))
        st.heap.write([f], "*", v, weak=True)
        return V(frozenset({f}), frozenset({"set"}))

    def e_Dict(self, e, st):
        f = self.fresh(e)
        v = NOV
        kv = NOV
        for k, x in zip(e.keys, e.values):
            if k is None:
                xv = self.expr(x, st)
                v = v.join(self.values_of(xv, st))
                kv = kv.join(self.keys_of(xv, st))
            else:
                kv = kv.join(self.expr(k, st))
                v = v.join(self.expr(x, st))
        st.heap.write([f], "*", v, weak=True)
        st.heap.write([f], "*k", kv, weak=True)
        return V(frozenset({f}), frozenset({"dict"}))

    def comp(self, e, st, elts, tname):
        inner = State_(st.env, st.heap)  # shares heap (writes visible), env copied
        for g in e.generators:
            it = self.expr(g.iter, inner)
            self.assign(g.target, self.elements_of(it, inner, g.iter), inner, e)
            for c in g.ifs:
                self.expr(c, inner)
        f = self.fresh(e)
        if tname == "dict":
            st.heap.write([f], "*k", self.expr(elts[0], inner), weak=True)
            st.heap.write([f], "*", self.expr(elts[1], inner), weak=True)
            return V(frozenset({f}), frozenset({tname}))
        v = NOV
        for x in elts:
            v = v.join(self.expr(x, inner))
        st.heap.write([f], "*", v, weak=True)
        return V(frozenset({f}), frozenset({tname}))

    def e_ListComp(self, e, st):
        return self.comp(e, st, [e.elt], "list")

    def e_SetComp(self, e, st):
        return self.comp(e, st, [e.elt], "set")

    def e_GeneratorExp(self, e, st):
        return self.comp(e, st, [e.elt], "list")

    def e_DictComp(self, e, st):
        return self.comp(e, st, [e.key, e.value], "dict")

    def e_IfExp(self, e, st):
        self.expr(e.test, st)
        return self.expr(e.body, st).join(self.expr(e.orelse, st))

    def e_BoolOp(self, e, st):
        v = NOV
        for x in e.values:
            v = v.join(self.expr(x, st))
        return v

    def e_UnaryOp(self, e, st):
        v = self.expr(e.operand, st)
        if isinstance(e.op, ast.Not):
            return V(frozenset(), frozenset({"bool"}))
        return V(frozenset(), v.types) if not v.locs else V(frozenset({self.fresh(e)}), v.types)

    def e_Compare(self, e, st):
        self.expr(e.left, st)
        for c in e.comparators:
            self.expr(c, st)
        return V(frozenset(), frozenset({"bool"}))

    def e_BinOp(self, e, st):
        a = self.expr(e.left, st)
        b = self.expr(e.right, st)
        if isinstance(e.op, ast.Add):
            r = self.dunder_call(a, "__add__", [b], st, e)
            if r is not None:
                return r
        if not a.locs and not b.locs:
            ts = (a.types | b.types) & IMMUT
            return V(frozenset(), ts)
        f = self.fresh(e)
        ev = self.elements_of(a, st, e.left).join(self.elements_of(b, st, e.right))
        st.heap.write([f], "*", ev, weak=True)
        ts = (a.types | b.types) & CONTAINER_T
        return V(frozenset({f}), ts)

    def e_Lambda(self, e, st):
        return NOV

    def e_Starred(self, e, st):
        return self.expr(e.value, st)

    def e_Yield(self, e, st):
        if e.value is not None:
            self.sum.yields = self.sum.yields.join(self.expr(e.value, st))
        return NOV

    def e_YieldFrom(self, e, st):
        v = self.expr(e.value, st)
        self.sum.yields = self.sum.yields.join(self.elements_of(v, st, e))
        return NOV

    def e_NamedExpr(self, e, st):
        v = self.expr(e.value, st)
        self.assign(e.target, v, st, e)
        return v

    # ------------------------------------------------------------------ calls
    def e_Call(self, e: ast.Call, st: State_) -> V:
        f = e.func
        args = []
        for a in e.args:
            if isinstance(a, ast.Starred):
                args.append(self.elements_of(self.expr(a.value, st), st, a))
            else:
                args.append(self.expr(a, st))
        kwargs = {k.arg: self.expr(k.value, st) for k in e.keywords}
        # ---- plain name
        if isinstance(f, ast.Name):
            if f.id in st.env:
                self.sum.unknown_calls += 1
                self.sum.calls.append((e, None))
                return UNK if st.env[f.id].locs else NOV
            r = self.ix.resolve(self.mi, f.id)
            if r:
                if r[0] == "class":
                    return self.construct(r[1], args, kwargs, st, e)
                if r[0] == "func":
                    fi = r[1]
                    mm = fi.module.multimethods.get(fi.name)
                    if mm and len(mm) > 1:
                        out = NOV
                        for g in mm:
                            out = out.join(self.apply(g, args, kwargs, st, e))
                        return out
                    return self.apply(fi, args, kwargs, st, e)
                if r[0] == "ext":
                    return self.ext_call(r[1], args, kwargs, st, e)
            return self.builtin_call(f.id, args, kwargs, st, e)
        # ---- attribute
        if isinstance(f, ast.Attribute):
            # super().__init__(...)
            if isinstance(f.value, ast.Call) and isinstance(f.value.func, ast.Name) and f.value.func.id == "super" and self.cls:
                selfv = st.env.get("self", NOV)
                for b in self.ix.mro(self.cls)[1:]:
                    r = self.ix.lookup(b, f.attr)
                    if r and r[0] == "method":
                        return self.apply(r[1], [selfv, *args], kwargs, st, e, recv=selfv)
                return NOV
            # module function / class static method
            if isinstance(f.value, ast.Name) and f.value.id not in st.env:
                r = self.ix.resolve(self.mi, f.value.id)
                if r and r[0] == "module":
                    rr = self.ix.resolve(r[1], f.attr)
                    if rr and rr[0] == "func":
                        return self.apply(rr[1], args, kwargs, st, e)
                    if rr and rr[0] == "class":
                        return self.construct(rr[1], args, kwargs, st, e)
                if r and r[0] == "class":
                    rr = self.ix.lookup(r[1], f.attr)
                    if rr and rr[0] == "method":
                        if rr[1].kind in ("static",):
                            return self.apply(rr[1], args, kwargs, st, e)
                        return self.apply(rr[1], args, kwargs, st, e, recv=args[0] if args else None)
                if r and r[0] == "ext":
                    return self.ext_call(f"{r[1]}.{f.attr}", args, kwargs, st, e)
                if r is None:
                    return self.ext_call(f"{f.value.id}.{f.attr}", args, kwargs, st, e)
            ch = _chain(f)
            if ch and ch[0] not in st.env:
                r = self.ix.resolve(self.mi, ch[0])
                if r and r[0] == "ext":
                    return self.ext_call(".".join([r[1], *ch[1:]]), args, kwargs, st, e)
            recv = self.expr(f.value, st)
            return self.method_call(recv, f.attr, args, kwargs, st, e)
        self.expr(f, st)
        self.sum.unknown_calls += 1
        self.sum.calls.append((e, None))
        return UNK

    def construct(self, ci: ClassInfo, args, kwargs, st, node) -> V:
        obj = self.fresh(node, "#" + ci.name)
        objv = V(frozenset({obj}), frozenset({ci.name}))
        init = self.ix.lookup(ci, "__init__")
        self.sum.resolved_calls += 1
        if ci.name in ("State", "AnnotatedState") and args:
            self.sum.captures.append((len(self.sum.events), ci.name, args[0], node))
        if init and init[0] == "method":
            self.apply(init[1], [objv, *args], kwargs, st, node, recv=objv)
            return objv
        # dataclass-style positional fields
        flds = self.ix.dataclass_fields(ci)
        if flds:
            for i, (name, _ann) in enumerate(flds):
                v = args[i] if i < len(args) else kwargs.get(name, NOV)
                st.heap.write([obj], name, v)
            post = self.ix.lookup(ci, "__post_init__")
            if post and post[0] == "method":
                self.apply(post[1], [objv], {}, st, node, recv=objv)
        else:
            # exception classes etc.: store args as elements
            v = NOV
            for a in args:
                v = v.join(a)
            if v.locs:
                st.heap.write([obj], "*", v, weak=True)
        return objv

    def method_call(self, recv: V, name: str, args, kwargs, st, node) -> V:
        cands: list[FuncInfo] = []
        typed = False
        builtin = False
        for tn in recv.types:
            ci = self.eng.class_of(tn)
            if ci is not None:
                r = self.ix.lookup(ci, name)
                if r and r[0] == "method":
                    cands.append(r[1])
                    typed = True
                elif r and r[0] == "multimethod":
                    cands.extend(r[1])
                    typed = True
            elif tn in CONTAINER_T or tn in IMMUT:
                builtin = True
        if not typed and not builtin:
            # unknown receiver type: every repo class defining the name, plus the builtin model
            for ci, kind in self.eng.methods_named(name):
                r = self.ix.lookup(ci, name)
                if r and r[0] == "method":
                    cands.append(r[1])
                elif r and r[0] == "multimethod":
                    cands.extend(r[1])
            builtin = True
        out = NOV
        seen = set()
        for fi in cands:
            if id(fi) in seen:
                continue
            seen.add(id(fi))
            out = out.join(self.apply(fi, [recv, *args], kwargs, st, node, recv=recv))
        if builtin:
            out = out.join(self.container_method(recv, name, args, kwargs, st, node, bool(cands)))
        if not cands and not builtin:
            self.sum.unknown_calls += 1
        return out

    def container_method(self, recv: V, name: str, args, kwargs, st, node, also_repo: bool) -> V:
        a0 = args[0] if args else NOV
        if name in ("append", "add", "insert", "setdefault", "discard", "remove", "pop", "popitem", "clear", "sort", "reverse", "extend", "update", "fill", "itemset", "resize"):
            if recv.types and recv.types <= IMMUT:
                return NOV
            self.event("mutator", recv.locs, node, f"{src(node.func)}(...)")
            if name in ("append", "add"):
                st.heap.write(recv.locs, "*", a0, weak=True)
            elif name == "insert" and len(args) > 1:
                st.heap.write(recv.locs, "*", args[1], weak=True)
            elif name == "setdefault":
                st.heap.write(recv.locs, "*k", a0, weak=True)
                st.heap.write(recv.locs, "*", args[1] if len(args) > 1 else NOV, weak=True)
                return self.values_of(recv, st)
            elif name == "extend":
                st.heap.write(recv.locs, "*", self.elements_of(a0, st, node), weak=True)
            elif name == "update":
                st.heap.write(recv.locs, "*", self.values_of(a0, st), weak=True)
                st.heap.write(recv.locs, "*k", self.keys_of(a0, st), weak=True)
            elif name in ("pop", "popitem"):
                return self.values_of(recv, st).join(args[1] if len(args) > 1 else NOV)
            return NOV
        if name in ("get",):
            return self.values_of(recv, st).join(args[1] if len(args) > 1 else NOV)
        if name == "keys":
            f = self.fresh(node, "#keys")
            st.heap.write([f], "*", self.keys_of(recv, st), weak=True)
            return V(frozenset({f}), frozenset({"list"}))
        if name == "values":
            f = self.fresh(node, "#values")
            st.heap.write([f], "*", self.values_of(recv, st), weak=True)
            return V(frozenset({f}), frozenset({"list"}))
        if name == "items":
            f = self.fresh(node, "#items")
            tup = self.fresh(node, "#item")
            kv = self.keys_of(recv, st).join(self.values_of(recv, st))
            st.heap.write([tup], "*", kv, weak=True)
            st.heap.write([f], "*", V(frozenset({tup}), frozenset({"tuple"})) if kv.locs else NOV, weak=True)
            return V(frozenset({f}), frozenset({"list"}))
        if name == "copy" and not (recv.types and recv.types <= {"list", "set"}):
            f = self.fresh(node, "#copy")
            st.heap.write([f], "*", self.values_of(recv, st), weak=True)
            st.heap.write([f], "*k", self.keys_of(recv, st) if (recv.types & {"dict"}) else NOV, weak=True)
            return V(frozenset({f}), recv.types & CONTAINER_T)
        if name in ("items", "keys", "values", "copy", "most_common", "elements", "tolist", "flatten", "astype", "conj", "conjugate", "transpose", "real", "imag"):
            f = self.fresh(node, "#" + name)
            st.heap.write([f], "*", self.elements_of(recv, st, node), weak=True)
            if name == "copy":
                return V(frozenset({f}), recv.types & CONTAINER_T)
            return V(frozenset({f}), frozenset({"list"}))
        if name in ("index", "count", "startswith", "endswith", "join", "format", "split", "strip", "replace", "lower", "upper", "all", "any", "sum", "mean", "dot", "reshape", "item", "is_integer", "isdigit"):
            return NOV
        return NOV

    def builtin_call(self, name: str, args, kwargs, st, node) -> V:
        a0 = args[0] if args else NOV
        if name in PURE_BUILTINS:
            return V(frozenset(), frozenset({name}) & IMMUT)
        if name == "dict":
            f = self.fresh(node, "#dict")
            st.heap.write([f], "*", self.values_of(a0, st), weak=True)
            st.heap.write([f], "*k", self.keys_of(a0, st) if a0.types & {"dict"} else NOV, weak=True)
            for kw in kwargs.values():
                st.heap.write([f], "*", kw, weak=True)
            return V(frozenset({f}), frozenset({"dict"}))
        if name in ("list", "sorted", "set", "tuple", "reversed", "frozenset", "Counter", "iter"):
            f = self.fresh(node, "#" + name)
            st.heap.write([f], "*", self.elements_of(a0, st, node), weak=True)
            t = {"sorted": "list", "reversed": "list", "iter": "list", "frozenset": "set"}.get(name, name)
            return V(frozenset({f}), frozenset({t}))
        if name in ("enumerate", "zip", "map", "filter"):
            f = self.fresh(node, "#" + name)
            v = NOV
            for a in args[1:] if name in ("map", "filter") else args:
                v = v.join(self.elements_of(a, st, node))
            tup = self.fresh(node, "#tuple")
            st.heap.write([tup], "*", v, weak=True)
            if name in ("enumerate", "zip") and not any(isinstance(a_, ast.Starred) for a_ in getattr(node, "args", [])):
                pos = ([NOV] if name == "enumerate" else []) + [self.elements_of(a, st, node) for a in (args[:1] if name == "enumerate" else args)]
                for i_, pv in enumerate(pos):
                    st.heap.d[(tup, f"#{i_}")] = (pv, True)
            st.heap.write([f], "*", V(frozenset({tup}), frozenset({"tuple"})) if v.locs else NOV, weak=True)
            return V(frozenset({f}), frozenset({"list"}))
        if name == "next":
            return self.elements_of(a0, st, node)
        if name == "copy":
            return self.shallow_copy(a0, st, node)
        if name == "deepcopy":
            return V(frozenset({("D", self.fresh(node)[1])}), a0.types)
        if name == "getattr":
            names = self.const_strings(node.args[1], st) if len(node.args) > 1 else None
            if names is None:
                self.sum.unknown_calls += 1
                return UNK
            out = NOV
            for n in names:
                out = out.join(self.load_attr(a0, n, st, node))
            if len(args) > 2:
                out = out.join(args[2])
            return out
        if name == "setattr":
            names = self.const_strings(node.args[1], st) if len(node.args) > 1 else None
            if names is None:
                self.event("setattr", a0.locs, node, f"{src(node)} (attribute name not constant)")
                return NOV
            for n in names:
                self.event("attr-store", a0.locs, node, f"setattr({src(node.args[0])}, '{n}', ...)", fld=n)
                st.heap.write(a0.locs, n, args[2] if len(args) > 2 else NOV, weak=len(names) > 1)
            return NOV
        self.sum.unknown_calls += 1
        self.sum.calls.append((node, None))
        return V(frozenset({self.fresh(node, "#ext")}))

    def const_strings(self, e, st) -> list[str] | None:
        """Fold a string expression to the finite set of values it may take."""
        if isinstance(e, ast.Constant) and isinstance(e.value, str):
            return [e.value]
        if isinstance(e, ast.BinOp) and isinstance(e.op, ast.Add):
            a, b = self.const_strings(e.left, st), self.const_strings(e.right, st)
            if a is None or b is None:
                return None
            return [x + y for x in a for y in b]
        if isinstance(e, ast.Name):
            # loop variable over a literal list of strings / local literal
            vals = []
            for n in walk_no_nested(self.fi.node):
                if isinstance(n, ast.For) and isinstance(n.target, ast.Name) and n.target.id == e.id:
                    lst = self._literal_list(n.iter)
                    if lst is None:
                        return None
                    vals += lst
                elif isinstance(n, ast.Assign) and any(isinstance(t, ast.Name) and t.id == e.id for t in n.targets):
                    if isinstance(n.value, ast.Constant) and isinstance(n.value.value, str):
                        vals.append(n.value.value)
                    else:
                        return None
            return vals or None
        return None

    def _literal_list(self, e) -> list[str] | None:
        if isinstance(e, (ast.List, ast.Tuple)) and all(isinstance(x, ast.Constant) and isinstance(x.value, str) for x in e.elts):
            return [x.value for x in e.elts]
        if isinstance(e, ast.Name):
            for n in walk_no_nested(self.fi.node):
                if isinstance(n, ast.Assign) and any(isinstance(t, ast.Name) and t.id == e.id for t in n.targets):
                    return self._literal_list(n.value)
        return None

    def shallow_copy(self, v: V, st, node) -> V:
        """copy.copy(x): new object, same fields/elements."""
        out_locs = set()
        for i, loc in enumerate(sorted(v.locs, key=repr)):
            f = self.fresh(node, f"#copy{i}")
            out_locs.add(f)
            st.heap.write([f], "*", st.heap.read(loc, "*"), weak=True)
            st.heap.write([f], "*k", st.heap.read(loc, "*k"), weak=True)
            # copy explicit fields
            for (l, sel), (val, _s) in list(st.heap.d.items()):
                if l == loc and sel not in ("*", "*k"):
                    st.heap.write([f], sel, val)
            if loc[0] != "F":
                # fields of a non-fresh object: readable lazily through a link
                st.heap.write([f], "__copy_of__", V(frozenset({loc})))
        if not v.locs:
            return V(frozenset({self.fresh(node, "#copy")}), v.types)
        return V(frozenset(out_locs), v.types)

    def ext_call(self, dotted: str, args, kwargs, st, node) -> V:
        last = dotted.split(".")[-1]
        if dotted in ("copy.copy",) or (last == "copy" and dotted.startswith("copy")):
            return self.shallow_copy(args[0] if args else NOV, st, node)
        if dotted in ("copy.deepcopy",) or last == "deepcopy":
            return V(frozenset({("D", self.fresh(node)[1])}), (args[0].types if args else frozenset()))
        self.sum.calls.append((node, "ext:" + dotted))
        if last in ("factorial", "prod", "sqrt", "log10", "isclose", "allclose", "trace", "det", "perm"):
            return NOV
        if dotted.startswith("numpy"):
            if last in ("asarray", "asanyarray", "ascontiguousarray", "asfortranarray", "atleast_1d", "atleast_2d", "squeeze", "ravel", "reshape", "transpose", "swapaxes", "real", "imag", "view") and args:
                # these return the argument itself or a view of it when no conversion is needed
                return V(args[0].locs | frozenset({self.fresh(node, "#np")}), frozenset({"ndarray"}))
            return V(frozenset({self.fresh(node, "#np")}), frozenset({"ndarray"}))
        if last in ("Counter",):
            f = self.fresh(node, "#Counter")
            st.heap.write([f], "*", self.elements_of(args[0] if args else NOV, st, node), weak=True)
            return V(frozenset({f}), frozenset({"dict"}))
        return V(frozenset({self.fresh(node, "#ext")}))

    # ------------------------------------------------------------------ applying a summary
    def apply(self, fi: FuncInfo, args: list, kwargs: dict, st: State_, node, recv: V | None = None) -> V:
        s = self.eng.summary(fi)
        self.sum.resolved_calls += 1
        self.sum.calls.append((node, fi))
        if s.may_raise:
            self.sum.may_raise = True
        # bind
        a = fi.node.args
        params = [p.arg for p in a.posonlyargs + a.args]
        bind: dict[str, V] = {}
        for i, v in enumerate(args):
            if i < len(params):
                bind[params[i]] = v
            elif a.vararg:
                bind[a.vararg.arg] = bind.get(a.vararg.arg, NOV).join(v)
        for k, v in kwargs.items():
            if k is not None:
                bind[k] = v
        site = f"{self.fi.fid}::{getattr(node, 'lineno', 0)}:{getattr(node, 'col_offset', 0)}"
        pre = st.heap.copy()
        cache: dict = {}

        def sub(loc) -> frozenset:
            if loc in cache:
                return cache[loc]
            k = loc[0]
            if k == "P":
                r = bind.get(loc[1], NOV).locs
            elif k == "F":
                tail = loc[1]
                if tail.count("=>") >= 2:
                    tail = tail.split("=>")[-1]
                r = frozenset({("F", f"{site}=>{tail}")})
            elif k == "D":
                r = frozenset({("D", f"{site}=>{loc[1].split('=>')[-1]}")})
            elif k == "f":
                r = frozenset().union(*[pre.read(b, loc[2]).locs for b in sub(loc[1])]) if sub(loc[1]) else frozenset()
            elif k == "e":
                r = frozenset().union(*[pre.read(b, "*").locs for b in sub(loc[1])]) if sub(loc[1]) else frozenset()
            elif k == "k":
                r = frozenset().union(*[pre.read(b, "*k").locs for b in sub(loc[1])]) if sub(loc[1]) else frozenset()
            else:
                r = frozenset({loc})
            cache[loc] = r
            return r

        def subv(v: V) -> V:
            locs = set()
            for l in v.locs:
                locs |= sub(l)
            return V(frozenset(locs), v.types)

        # events
        for ev in s.events:
            locs = set()
            for l in ev.locs:
                if l[0] == "F":
                    continue  # callee-local object
                locs |= sub(l)
            if locs:
                self.event("callee", locs, node, f"{src(node)[:80]} -> {fi.qualname}: {ev.detail}", via=fi.fid, fld=ev.field)
        # heap effects
        writes = []
        for (loc, sel), (val, strong) in s.heap.items():
            targets = sub(loc)
            if not targets:
                continue
            writes.append((targets, sel, subv(val), strong))
        for targets, sel, val, strong in writes:
            st.heap.write(list(targets), sel, val, weak=not strong)
        return subv(s.returns)

    def subst_val(self, v: V, bind: dict, st: State_, node, fi: FuncInfo) -> V:
        locs = set()
        for l in v.locs:
            locs |= self._sub_simple(l, bind, st, node)
        return V(frozenset(locs), v.types)

    def _sub_simple(self, loc, bind, st, node):
        k = loc[0]
        if k == "P":
            return bind.get(loc[1], NOV).locs
        if k == "F":
            return frozenset({("F", f"{self.fi.fid}::{getattr(node, 'lineno', 0)}=>{loc[1].split('=>')[-1]}")})
        if k == "f":
            out = set()
            for b in self._sub_simple(loc[1], bind, st, node):
                out |= st.heap.read(b, loc[2]).locs
            return frozenset(out)
        if k in ("e", "k"):
            out = set()
            for b in self._sub_simple(loc[1], bind, st, node):
                out |= st.heap.read(b, "*" if k == "e" else "*k").locs
            return frozenset(out)
        return frozenset({loc})


def _chain(e):
    out = []
    while isinstance(e, ast.Attribute):
        out.append(e.attr)
        e = e.value
    if isinstance(e, ast.Name):
        out.append(e.id)
        return out[::-1]
    return None


# ---------------------------------------------------------------------- queries used by rules
def reaches(loc, target_root) -> bool:
    """Is `loc` the object `target_root` or something reachable from it (field/element path)?"""
    return root(loc) == target_root


def events_on_param(summary: Summary, param: str) -> list[Event]:
    tr = ("P", param)
    return [ev for ev in summary.events if any(root(l) == tr for l in ev.locs)]
