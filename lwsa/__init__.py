"""lwsa - static analyser for Aegiq/lightworks (ast only; never imports or runs lightworks)."""

__all__ = ["source", "index"]
