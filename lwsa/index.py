"""Resolved program index: modules, imports, classes (MRO, methods, properties),
functions, module-level tables, private-name mangling, light type inference."""

from __future__ import annotations

import ast
from dataclasses import dataclass, field

from .source import AnalysisError, Tree, src


def mangle(cls_name: str | None, attr: str) -> str:
    if cls_name and attr.startswith("__") and not attr.endswith("__"):
        return "_" + cls_name.lstrip("_") + attr
    return attr


@dataclass
class FuncInfo:
    module: "ModuleInfo"
    cls: "ClassInfo | None"
    name: str
    node: ast.FunctionDef
    kind: str = "function"  # function | method | static | classmethod | getter | setter
    dispatch_type: str | None = None  # for multimethod registrations

    @property
    def qualname(self) -> str:
        return f"{self.cls.name}.{self.name}" if self.cls else self.name

    @property
    def rel(self) -> str:
        return self.module.rel

    @property
    def fid(self) -> str:
        return f"{self.module.rel}::{self.qualname}" + (
            f"[{self.kind}]" if self.kind in ("setter",) else ""
        )

    def params(self) -> list[str]:
        a = self.node.args
        return [x.arg for x in a.posonlyargs + a.args + a.kwonlyargs]

    def param_annotation(self, name: str):
        a = self.node.args
        for x in a.posonlyargs + a.args + a.kwonlyargs:
            if x.arg == name:
                return x.annotation
        return None

    def site(self, node: ast.AST | None = None) -> str:
        n = node if node is not None else self.node
        return f"{self.rel}:{getattr(n, 'lineno', 0)}"


@dataclass
class ClassInfo:
    module: "ModuleInfo"
    name: str
    node: ast.ClassDef
    methods: dict[str, FuncInfo] = field(default_factory=dict)
    getters: dict[str, FuncInfo] = field(default_factory=dict)
    setters: dict[str, FuncInfo] = field(default_factory=dict)
    multimethods: dict[str, list[FuncInfo]] = field(default_factory=dict)
    dataclass_fields: list[tuple[str, ast.expr | None]] = field(default_factory=list)
    is_dataclass: bool = False

    def all_funcs(self):
        seen = set()
        for d in (self.methods, self.getters, self.setters):
            for f in d.values():
                if id(f) not in seen:
                    seen.add(id(f))
                    yield f
        for lst in self.multimethods.values():
            for f in lst:
                if id(f) not in seen:
                    seen.add(id(f))
                    yield f


@dataclass
class ModuleInfo:
    rel: str
    name: str
    tree: ast.Module
    is_pkg: bool
    imports: dict[str, tuple[str, str | None]] = field(default_factory=dict)
    star_imports: list[str] = field(default_factory=list)
    classes: dict[str, ClassInfo] = field(default_factory=dict)
    functions: dict[str, FuncInfo] = field(default_factory=dict)
    multimethods: dict[str, list[FuncInfo]] = field(default_factory=dict)
    assigns: dict[str, list[ast.AST]] = field(default_factory=dict)  # name -> value nodes


def _decorator_names(fn) -> list[str]:
    out = []
    for d in fn.decorator_list:
        if isinstance(d, ast.Call):
            d = d.func
        out.append(src(d))
    return out


class Index:
    def __init__(self, tree: Tree):
        self.tree = tree
        self.modules: dict[str, ModuleInfo] = {}
        self.by_rel: dict[str, ModuleInfo] = {}
        for rel in tree.files:
            if not rel.startswith("lightworks/"):
                continue
            parts = rel[:-3].split("/")
            is_pkg = parts[-1] == "__init__"
            if is_pkg:
                parts = parts[:-1]
            name = ".".join(parts)
            mi = ModuleInfo(rel, name, tree.ast(rel), is_pkg)
            self.modules[name] = mi
            self.by_rel[rel] = mi
        for mi in self.modules.values():
            self._scan(mi)
        self._subclasses: dict[str, list[ClassInfo]] | None = None

    # ------------------------------------------------------------ scanning
    def _abs_module(self, mi: ModuleInfo, level: int, module: str | None) -> str:
        if level == 0:
            return module or ""
        base = mi.name.split(".")
        if not mi.is_pkg:
            base = base[:-1]
        if level > 1:
            base = base[: len(base) - (level - 1)]
        if module:
            base = base + module.split(".")
        return ".".join(base)

    def _scan(self, mi: ModuleInfo) -> None:
        def scan_body(body):
            for st in body:
                if isinstance(st, ast.ImportFrom):
                    mod = self._abs_module(mi, st.level, st.module)
                    for al in st.names:
                        if al.name == "*":
                            mi.star_imports.append(mod)
                        else:
                            mi.imports[al.asname or al.name] = (mod, al.name)
                elif isinstance(st, ast.Import):
                    for al in st.names:
                        mi.imports[al.asname or al.name.split(".")[0]] = (
                            al.name if al.asname else al.name.split(".")[0],
                            None,
                        )
                elif isinstance(st, ast.If):  # TYPE_CHECKING blocks, try-imports
                    scan_body(st.body)
                    scan_body(st.orelse)
                elif isinstance(st, ast.Try):
                    scan_body(st.body)
                elif isinstance(st, ast.ClassDef):
                    self._scan_class(mi, st)
                elif isinstance(st, ast.FunctionDef):
                    decs = _decorator_names(st)
                    fi = FuncInfo(mi, None, st.name, st)
                    if any(d.endswith(".register") for d in decs):
                        base = [d for d in decs if d.endswith(".register")][0][: -len(".register")]
                        mi.multimethods.setdefault(base, []).append(fi)
                        mi.functions[st.name] = fi
                    elif "multimethod" in decs:
                        mi.multimethods.setdefault(st.name, []).append(fi)
                        mi.functions[st.name] = fi
                    else:
                        mi.functions[st.name] = fi
                elif isinstance(st, ast.Assign):
                    for t in st.targets:
                        if isinstance(t, ast.Name):
                            mi.assigns.setdefault(t.id, []).append(st.value)
                elif isinstance(st, ast.AnnAssign) and isinstance(st.target, ast.Name) and st.value is not None:
                    mi.assigns.setdefault(st.target.id, []).append(st.value)

        scan_body(mi.tree.body)

    def _scan_class(self, mi: ModuleInfo, node: ast.ClassDef) -> None:
        ci = ClassInfo(mi, node.name, node)
        for d in node.decorator_list:
            dn = src(d.func if isinstance(d, ast.Call) else d)
            if dn.split(".")[-1] == "dataclass":
                ci.is_dataclass = True
        for st in node.body:
            if isinstance(st, ast.FunctionDef):
                decs = _decorator_names(st)
                fi = FuncInfo(mi, ci, st.name, st, "method")
                if "property" in decs:
                    fi.kind = "getter"
                    ci.getters[st.name] = fi
                elif any(d.endswith(".setter") for d in decs):
                    fi.kind = "setter"
                    ci.setters[st.name] = fi
                elif any(d.endswith(".register") for d in decs):
                    base = [d for d in decs if d.endswith(".register")][0][: -len(".register")]
                    ci.multimethods.setdefault(base, []).append(fi)
                elif "multimethod" in decs:
                    ci.multimethods.setdefault(st.name, []).append(fi)
                else:
                    if "staticmethod" in decs:
                        fi.kind = "static"
                    elif "classmethod" in decs:
                        fi.kind = "classmethod"
                    ci.methods[st.name] = fi
            elif isinstance(st, ast.AnnAssign) and isinstance(st.target, ast.Name):
                ci.dataclass_fields.append((st.target.id, st.annotation))
        mi.classes[node.name] = ci

    # ------------------------------------------------------------ resolution
    def module(self, rel: str) -> ModuleInfo:
        if rel not in self.by_rel:
            raise AnalysisError(f"anchor module {rel} not found")
        return self.by_rel[rel]

    def resolve(self, mi: ModuleInfo, name: str, _seen=None):
        """Resolve a global name in module mi -> ('class', ClassInfo) | ('func', FuncInfo)
        | ('module', ModuleInfo) | ('var', (ModuleInfo, name)) | ('ext', dotted) | None"""
        _seen = _seen or set()
        key = (mi.name, name)
        if key in _seen:
            return None
        _seen.add(key)
        if name in mi.classes:
            return ("class", mi.classes[name])
        if name in mi.functions:
            return ("func", mi.functions[name])
        if name in mi.assigns:
            return ("var", (mi, name))
        if name in mi.imports:
            mod, sym = mi.imports[name]
            if sym is None:
                if mod in self.modules:
                    return ("module", self.modules[mod])
                return ("ext", mod)
            if mod in self.modules:
                r = self.resolve(self.modules[mod], sym, _seen)
                if r:
                    return r
                sub = f"{mod}.{sym}"
                if sub in self.modules:
                    return ("module", self.modules[sub])
                return None
            sub = f"{mod}.{sym}"
            if sub in self.modules:
                return ("module", self.modules[sub])
            return ("ext", f"{mod}.{sym}")
        for mod in mi.star_imports:
            if mod in self.modules:
                r = self.resolve(self.modules[mod], name, _seen)
                if r:
                    return r
        return None

    def find_class(self, name: str) -> ClassInfo | None:
        """Class by bare name (unique in this code base; ambiguity -> AnalysisError)."""
        found = [m.classes[name] for m in self.modules.values() if name in m.classes]
        if len(found) > 1:
            raise AnalysisError(f"class name {name} is ambiguous: {[c.module.rel for c in found]}")
        return found[0] if found else None

    def cls(self, name: str) -> ClassInfo:
        c = self.find_class(name)
        if c is None:
            raise AnalysisError(f"anchor class {name} not found")
        return c

    def func(self, rel: str, qualname: str, kind: str | None = None) -> FuncInfo:
        mi = self.module(rel)
        if "." in qualname:
            cn, fn = qualname.split(".", 1)
            if cn not in mi.classes:
                raise AnalysisError(f"anchor class {cn} not found in {rel}")
            ci = mi.classes[cn]
            if kind == "setter":
                d = ci.setters
            elif kind == "getter":
                d = ci.getters
            else:
                d = {**ci.getters, **ci.methods}
            if fn not in d:
                raise AnalysisError(f"anchor {qualname} ({kind or 'method'}) not found in {rel}")
            return d[fn]
        if qualname not in mi.functions:
            raise AnalysisError(f"anchor function {qualname} not found in {rel}")
        return mi.functions[qualname]

    def bases(self, ci: ClassInfo) -> list[ClassInfo]:
        out = []
        for b in ci.node.bases:
            if isinstance(b, ast.Name):
                r = self.resolve(ci.module, b.id)
                if r and r[0] == "class":
                    out.append(r[1])
        return out

    def mro(self, ci: ClassInfo) -> list[ClassInfo]:
        out, seen = [], set()

        def go(c):
            if id(c) in seen:
                return
            seen.add(id(c))
            out.append(c)
            for b in self.bases(c):
                go(b)

        go(ci)
        return out

    def subclasses(self, ci: ClassInfo, strict=True) -> list[ClassInfo]:
        out = []
        for m in self.modules.values():
            for c in m.classes.values():
                if c is ci and strict:
                    continue
                if any(x is ci for x in self.mro(c)):
                    out.append(c)
        return out

    def lookup(self, ci: ClassInfo, name: str):
        """-> ('method', FuncInfo) | ('property', getter, setter|None) | ('multimethod', [FuncInfo]) | None"""
        for c in self.mro(ci):
            if name in c.methods:
                return ("method", c.methods[name])
            if name in c.getters:
                return ("property", c.getters[name], c.setters.get(name))
            if name in c.multimethods:
                return ("multimethod", c.multimethods[name])
        return None

    def all_functions(self):
        for m in self.modules.values():
            yield from m.functions.values()
            for lst in m.multimethods.values():
                for f in lst:
                    if f.name not in m.functions or m.functions[f.name] is not f:
                        yield f
            for c in m.classes.values():
                yield from c.all_funcs()

    def dataclass_fields(self, ci: ClassInfo) -> list[tuple[str, ast.expr | None]]:
        out = []
        for c in reversed(self.mro(ci)):
            out.extend(c.dataclass_fields)
        return out

    # ------------------------------------------------------------ light types
    def ann_types(self, mi: ModuleInfo, ann: ast.AST | None) -> set[str]:
        """Class names mentioned by an annotation (Union / | / Optional / quoted / generics head)."""
        out: set[str] = set()
        if ann is None:
            return out
        if isinstance(ann, ast.Constant) and isinstance(ann.value, str):
            try:
                return self.ann_types(mi, ast.parse(ann.value, mode="eval").body)
            except SyntaxError:
                return out
        if isinstance(ann, ast.Name):
            out.add(ann.id)
        elif isinstance(ann, ast.Attribute):
            out.add(ann.attr)
        elif isinstance(ann, ast.BinOp) and isinstance(ann.op, ast.BitOr):
            out |= self.ann_types(mi, ann.left) | self.ann_types(mi, ann.right)
        elif isinstance(ann, ast.Subscript):
            head = src(ann.value).split(".")[-1]
            if head in ("Union", "Optional"):
                sl = ann.slice
                elts = sl.elts if isinstance(sl, ast.Tuple) else [sl]
                for e in elts:
                    out |= self.ann_types(mi, e)
            else:
                out.add(head)
        elif isinstance(ann, ast.Constant) and ann.value is None:
            out.add("None")
        return out

    def elem_types(self, mi: ModuleInfo, ann: ast.AST | None) -> set[str]:
        """Element class names of container annotations: list[State], dict[State, x] (keys)."""
        if ann is None:
            return set()
        if isinstance(ann, ast.Constant) and isinstance(ann.value, str):
            try:
                return self.elem_types(mi, ast.parse(ann.value, mode="eval").body)
            except SyntaxError:
                return set()
        out = set()
        if isinstance(ann, ast.BinOp) and isinstance(ann.op, ast.BitOr):
            return self.elem_types(mi, ann.left) | self.elem_types(mi, ann.right)
        if isinstance(ann, ast.Subscript):
            sl = ann.slice
            elts = sl.elts if isinstance(sl, ast.Tuple) else [sl]
            for e in elts:
                out |= self.ann_types(mi, e)
        return out


def walk_no_nested(node: ast.AST):
    """ast.walk that does not descend into nested function/class definitions or lambdas."""
    todo = list(ast.iter_child_nodes(node))
    while todo:
        n = todo.pop()
        yield n
        if isinstance(n, (ast.FunctionDef, ast.AsyncFunctionDef, ast.ClassDef, ast.Lambda)):
            continue
        todo.extend(ast.iter_child_nodes(n))


def attr_chain(e: ast.AST) -> list[str] | None:
    """a.b.c -> ['a','b','c'] ; None if not a pure name/attribute chain."""
    out = []
    while isinstance(e, ast.Attribute):
        out.append(e.attr)
        e = e.value
    if isinstance(e, ast.Name):
        out.append(e.id)
        return out[::-1]
    return None
