"""Sensitivity battery: in-memory variants of the working tree (one textual edit each).

kind 'B' = breaking variant: the named property's check must report >= 1 violation (exit 1).
kind 'T' = behaviour-preserving twin: the check must stay silent (no violation, no ANALYSIS-ERROR).
An edit whose anchor text is absent from the current tree is skipped and counted 'not_applicable'.
Nothing is written to disk; the battery is evidence about the checker and never changes the
verdict of a property check on the working tree.
"""

from __future__ import annotations

import importlib
import time
from concurrent.futures import ProcessPoolExecutor

from .source import AnalysisError, Tree

L = "lightworks/"
CIRC = L + "sdk/circuit/circuit.py"
UTILS = L + "sdk/circuit/circuit_utils.py"
COMP = L + "sdk/circuit/compiler.py"
COMPS = L + "sdk/circuit/components.py"
PARAMS = L + "sdk/circuit/parameters.py"
PERM = L + "sdk/utils/permutation_conversion.py"
HER = L + "sdk/utils/heralding_utils.py"
STATE = L + "sdk/state/state.py"
ASTATE = L + "emulator/state/annotated_state.py"
SIM = L + "emulator/simulation/simulator.py"
SAM = L + "emulator/simulation/sampler.py"
QS = L + "emulator/simulation/quick_sampler.py"
AN = L + "emulator/simulation/analyzer.py"
BE = L + "emulator/backend/backend.py"
SLOS = L + "emulator/backend/slos.py"
PERMB = L + "emulator/backend/permanent.py"
PD = L + "emulator/simulation/probability_distribution.py"
DET = L + "emulator/components/detector.py"
SRC = L + "emulator/components/source.py"
SIMR = L + "emulator/results/simulation_result.py"
SAMR = L + "emulator/results/sampling_result.py"
RECK = L + "interferometers/reck.py"
GAUSS = L + "interferometers/dists/gaussian.py"
TOPHAT = L + "interferometers/dists/top_hat.py"
SQG = L + "qubit/gates/single_qubit_gates.py"
TQG = L + "qubit/gates/two_qubit_gates.py"
QC = L + "qubit/converter/qiskit_convert.py"
MAP = L + "tomography/mappings.py"
TUT = L + "tomography/utils.py"
LI = L + "tomography/process_tomography_li.py"
MLEF = L + "tomography/process_tomography_mle.py"
STF = L + "tomography/state_tomography.py"
SVG = L + "sdk/visualisation/draw_circuit_svg.py"
MPL = L + "sdk/visualisation/draw_circuit_mpl.py"
DISP = L + "sdk/visualisation/display.py"

# (id, kind, property, file, old, new)
VARIANTS = [
    # ---------------- C01
    ("B-A2", "B", "C01", CIRC, "        mode = self._map_mode(mode)\n        self._mode_in_range(mode)\n        check_loss(loss)\n        self.__circuit_spec.append(PhaseShifter(mode, phi))", "        self._mode_in_range(mode)\n        check_loss(loss)\n        self.__circuit_spec.append(PhaseShifter(mode, phi))"),
    ("B-A1", "B", "C01", CIRC, "            self.__circuit_spec.append(Loss(mode, loss))\n\n    def loss(", "            self.loss(mode, loss)\n\n    def loss("),
    ("B-A3", "B", "C01", CIRC, "            self._map_mode(mi): self._map_mode(mo) for mi, mo in swaps.items()", "            self._map_mode(mi): mo for mi, mo in swaps.items()"),
    ("B-A5", "B", "C01", CIRC, "        self._mode_in_range(mode_2)\n", ""),
    ("B-M1", "B", "C01", COMP, "self._unitary = spec.get_unitary(self.total_modes) @ self._unitary", "self._unitary = self._unitary @ spec.get_unitary(self.total_modes)"),
    ("B-M2", "B", "C01", COMP, "for s in spec.circuit_spec:", "for s in reversed(spec.circuit_spec):"),
    ("B-M4", "B", "C01", COMPS, "            unitary[self.mode_1, self.mode_2] = np.sin(theta)\n            unitary[self.mode_2, self.mode_1] = np.sin(theta)", "            unitary[self.mode_2, self.mode_1] = np.sin(theta)\n            unitary[self.mode_2, self.mode_1] = np.sin(theta)"),
    ("B-M6", "B", "C01", PERM, "permutation[j, i] = 1", "permutation[i, j] = 1"),
    ("B-M7", "B", "C01", CIRC, "return self._build().U_full[: self.n_modes, : self.n_modes]", "return self._build().U_full[: self.n_modes - 1, : self.n_modes - 1]"),
    ("B-E1", "B", "C01", CIRC, "if not (0 <= mode < self.n_modes):", "if not (0 <= mode <= self.n_modes):"),
    ("T-3", "T", "C01", COMP, "self._unitary = spec.get_unitary(self.total_modes) @ self._unitary", "self._unitary = np.matmul(spec.get_unitary(self.total_modes), self._unitary)"),
    ("T-2", "T", "C01", CIRC, "        modes = [self._map_mode(i) for i in modes]\n        for m in modes:\n            self._mode_in_range(m)", "        mapped = []\n        for i in modes:\n            mapped.append(self._map_mode(i))\n        modes = mapped\n        for m in modes:\n            self._mode_in_range(m)"),
    ("T-6", "T", "C01", PERM, "    for i, j in full_swaps.items():\n        permutation[j, i] = 1", "    for src_mode, dst_mode in full_swaps.items():\n        permutation[dst_mode, src_mode] = 1"),
    ("T-1b", "T", "C01", CIRC, "        mode = self._map_mode(mode)\n        self._mode_in_range(mode)\n        check_loss(loss)\n        self.__circuit_spec.append(PhaseShifter(mode, phi))", "        full_mode = self._map_mode(mode)\n        self._mode_in_range(full_mode)\n        check_loss(loss)\n        mode = full_mode\n        self.__circuit_spec.append(PhaseShifter(mode, phi))"),
    # ---------------- C02
    ("B-L1", "B", "C02", CIRC, "            for m in sorted(circuit.heralds[\"input\"]):\n                if target_mode > m:", "            for m in circuit.heralds[\"input\"]:\n                if target_mode > m:"),
    ("B-L2", "B", "C02", CIRC, "        for i in sorted(self.__internal_modes):\n            if mode >= i:", "        for i in self.__internal_modes:\n            if mode >= i:"),
    ("B-A7", "B", "C02", CIRC, "if user_mode + circuit.n_modes - n_heralds > n_user_modes:", "if mode + circuit.n_modes - n_heralds > self.n_modes:"),
    ("B-A8", "B", "C02", CIRC, "provisional_swaps = {p: p for p in pass_through}", "provisional_swaps = {}"),
    ("B-A9", "B", "C02", CIRC, "self.__in_heralds[m + mode] = new_heralds[\"input\"][m]", "self.__in_heralds[m] = new_heralds[\"input\"][m]"),
    ("B-H2", "B", "C02", UTILS, "                k += 1 if k >= mode else 0\n                v += 1 if v >= mode else 0", "                k += 1 if k >= mode else 0"),
    ("B-H3", "B", "C02", UTILS, "            spec.heralds = {\"input\": new_in_heralds, \"output\": new_out_heralds}\n", ""),
    ("B-P2", "B", "C02", CIRC, "            \"__external_in_heralds\",\n            \"__external_out_heralds\",\n        ]", "            \"__external_in_heralds\",\n        ]"),
    ("B-P1", "B", "C02", CIRC, "            self.__out_heralds[m + mode] = new_heralds[\"input\"][m]\n", ""),
    ("B-G1", "B", "C02", CIRC, "circuit = circuit_copy if group else circuit.copy()", "circuit = circuit.copy()"),
    ("T-5", "T", "C02", CIRC, "        circuit_copy = circuit.copy()\n        # Use unpack groups and check if heralds are used\n        circuit_copy.unpack_groups()\n        spec = circuit_copy.__circuit_spec\n        # Force grouping if heralding included\n        if circuit_copy.heralds[\"input\"]:", "        circuit_copy = circuit.copy()\n        # Use unpack groups and check if heralds are used\n        circuit_copy.unpack_groups()\n        # Force grouping if heralding included\n        if circuit_copy.heralds[\"input\"]:"),
    # ---------------- C03
    ("B-B1", "B", "C03", SIM, "out_state = add_heralds_to_state(outs, out_heralds)", "out_state = add_heralds_to_state(outs, in_heralds)"),
    ("B-B2", "B", "C03", SIM, "                out_state += [0] * circuit.loss_modes\n", ""),
    ("B-B5", "B", "C03", SIM, "        input_modes = self.circuit.input_modes\n        # Check each input", "        input_modes = self.circuit.n_modes\n        # Check each input"),
    ("B-V1", "B", "C03", SIM, "            # Also validate state values\n            state._validate()\n        return inputs", "        return inputs"),
    ("B-V2", "B", "C03", STATE, "            if s < 0:", "            if s < -1:"),
    ("B-B9", "B", "C03", PERMB, "        x += [i] * out_state[i]\n        y += [i] * in_state[i]", "        x += [i] * in_state[i]\n        y += [i] * out_state[i]"),
    ("B-B10", "B", "C03", SIM, "circuit.U_full, in_state, out_state\n                )", "circuit.U_full, out_state, in_state\n                )"),
    ("T-V1", "T", "C03", SIM, "            if len(state) != input_modes:\n                msg = (\n                    \"One or more input states have an incorrect number of \"\n                    f\"modes, correct number of modes is {input_modes}.\"\n                )\n                raise ModeMismatchError(msg)\n            # Also validate state values\n            state._validate()\n        return inputs", "            if not (len(state) == input_modes):\n                msg = (\n                    \"One or more input states have an incorrect number of \"\n                    f\"modes, correct number of modes is {input_modes}.\"\n                )\n                raise ModeMismatchError(msg)\n            # Also validate state values\n            state._validate()\n        return inputs"),
    # ---------------- C04
    ("B-G1p", "B", "C04", BE, "                    if ostate in pdist:\n                        pdist[ostate] += abs(p) ** 2\n                    else:\n                        pdist[ostate] = abs(p) ** 2\n            # Work out", "                    pdist[ostate] = abs(p) ** 2\n            # Work out"),
    ("B-G2s", "B", "C04", BE, "                    if new_s in pdist:\n                        pdist[new_s] += abs(p) ** 2\n                    else:\n                        pdist[new_s] = abs(p) ** 2", "                    pdist[new_s] = abs(p) ** 2"),
    ("B-G3", "B", "C04", PD, "        pdist[vacuum] = pdist.get(vacuum, 0) + 1 - total_prob", "        pdist[vacuum] = 1 - total_prob"),
    ("B-G4", "B", "C04", PD, "    if total_prob < 1 and circuit.loss_modes > 0:\n        vacuum", "    if circuit.loss_modes > 0:\n        vacuum"),
    ("B-G5", "B", "C04", BE, "                        pdist[ostate] += abs(p) ** 2\n                    else:\n                        pdist[ostate] = abs(p) ** 2", "                        pdist[ostate] += abs(p)\n                    else:\n                        pdist[ostate] = abs(p)"),
    ("B-G6", "B", "C04", BE, "            for s, p in full_dist.items():\n                if abs(p) ** 2 > settings.sampler_probability_threshold:", "            for s, p in full_dist.items():\n                if abs(p) ** 2 >= settings.sampler_probability_threshold:"),
    ("B-G7", "B", "C04", PD, "                        if new_state not in new_pdist:\n                            new_pdist[new_state] = p1 * p2\n                        else:\n                            new_pdist[new_state] += p1 * p2", "                        new_pdist[new_state] = p1 * p2"),
    ("T-9", "T", "C04", PD, "                if s in pdist:\n                    pdist[s] += p * prob\n                else:\n                    pdist[s] = p * prob", "                pdist[s] = pdist.get(s, 0) + p * prob"),
    ("T-G3", "T", "C04", BE, "                if abs(p) ** 2 > settings.sampler_probability_threshold:\n                    # Only care about non-loss modes\n                    ostate = State(ostate[: circuit.n_modes])  # noqa: PLW2901\n                    if ostate in pdist:\n                        pdist[ostate] += abs(p) ** 2\n                    else:\n                        pdist[ostate] = abs(p) ** 2", "                prob = abs(p) ** 2\n                if prob > settings.sampler_probability_threshold:\n                    # Only care about non-loss modes\n                    ostate = State(ostate[: circuit.n_modes])  # noqa: PLW2901\n                    if ostate in pdist:\n                        pdist[ostate] += prob\n                    else:\n                        pdist[ostate] = prob"),
    # ---------------- C05
    ("B-B4", "B", "C05", AN, "n_photons = inputs[0].n_photons", "n_photons = full_inputs[0].n_photons"),
    ("B-B3", "B", "C05", QS, "        in_state = add_heralds_to_state(\n            self.input_state, self.circuit.heralds[\"input\"]\n        )", "        in_state = self.input_state.s"),
    ("B-R1", "B", "C05", AN, "        # Convert state to list of States if not provided for single state case\n        if isinstance(inputs, State):\n            inputs = [inputs]\n        # Process inputs using dedicated function", "        if self.circuit.heralds[\"input\"] != self.circuit.heralds[\"output\"]:\n            raise RuntimeError(\"herald mismatch\")\n        if isinstance(inputs, State):\n            inputs = [inputs]\n        # Process inputs using dedicated function"),
    ("B-B11", "B", "C05", AN, "                fo = add_heralds_to_state(state, out_heralds)", "                fo = add_heralds_to_state(state, self.circuit.heralds[\"input\"])"),
    ("T-12", "T", "C05", AN, "        probs = np.zeros((len(full_inputs), len(full_outputs)))\n", "        probs = np.zeros((len(full_inputs), len(full_outputs)))\n        n_in, n_out = len(full_inputs), len(full_outputs)\n"),
    # ---------------- C06
    ("B-K2", "B", "C06", SRC, "c0 = 1 - nu * (p1 + p2 * nu + 2 * (1 - nu) * p2)", "c0 = 1 - nu * (p1 + p2 * nu + (1 - nu) * p2)"),
    ("B-K3", "B", "C06", SRC, "self._counter += 2", "self._counter += 1"),
    ("B-K1", "B", "C06", SRC, "            ([0], c1),\n            ([dpc], c1d),", "            ([0], c1d),\n            ([dpc], c1),"),
    ("B-G8", "B", "C06", SRC, "            if state not in new_dist:\n                new_dist[state] = p\n            else:\n                new_dist[state] += p", "            new_dist[state] = p"),
    ("T-K1", "T", "C06", SRC, "c1dp = nu * (1 - nu) * p2", "c1dp = (1 - nu) * nu * p2"),
    # ---------------- C07
    ("B-I1", "B", "C07", SAM, "            state = self.detector._get_output(state)  # noqa: PLW2901\n            # Checks herald requirements are met\n            for m, n in herald_items:\n                if state[m] != n:\n                    break", "            raw = state\n            state = self.detector._get_output(state)  # noqa: PLW2901\n            # Checks herald requirements are met\n            for m, n in herald_items:\n                if raw[m] != n:\n                    break"),
    ("B-I2", "B", "C07", SAM, "if post_select.validate(hs) and hs.n_photons >= min_detection:", "if post_select.validate(hs) and hs.n_photons > min_detection:"),
    ("B-I4", "B", "C07", DET, "        # Account for efficiency\n        if self.efficiency < 1:\n            for mode, n in enumerate(in_state):\n                for _i in range(n):\n                    if random() > self.efficiency:\n                        output[mode] -= 1\n        # Then include dark counts\n        if self.p_dark > 0:\n            for mode in range(len(in_state)):\n                if random() < self.p_dark:\n                    output[mode] += 1", "        # Then include dark counts\n        if self.p_dark > 0:\n            for mode in range(len(in_state)):\n                if random() < self.p_dark:\n                    output[mode] += 1\n        # Account for efficiency\n        if self.efficiency < 1:\n            for mode, n in enumerate(in_state):\n                for _i in range(n):\n                    if random() > self.efficiency:\n                        output[mode] -= 1"),
    ("B-I5", "B", "C07", DET, "if random() > self.efficiency:", "if random() < self.efficiency:"),
    ("B-I6", "B", "C07", DET, "if random() < self.p_dark:", "if random() > self.p_dark:"),
    ("B-I7", "B", "C07", SAM, "samples = rng.choice(vals, p=probs, size=N)", "samples = rng.choice(vals, p=probs, size=N - 1)"),
    ("B-I8", "B", "C07", SAM, "        if self.detector.p_dark != 0:\n            raise SamplerError(\n                \"sample_N_outputs not compatible with detector dark counts\"\n            )\n", ""),
    ("B-J1", "B", "C07", SAM, "            samples = rng.choice(vals, p=list(pdist.values()), size=N)\n        # Sometimes", "            samples = np.random.choice(vals, p=list(pdist.values()), size=N)\n        # Sometimes"),
    ("B-J3", "B", "C07", QS, "rng = np.random.default_rng(process_random_seed(seed))", "rng = np.random.default_rng()"),
    ("B-B7", "B", "C07", SAM, "                    filtered_samples.append(hs)", "                    filtered_samples.append(state)"),
    ("T-11", "T", "C07", SAM, "if post_select.validate(hs) and hs.n_photons >= min_detection:", "if not (hs.n_photons < min_detection) and post_select.validate(hs):"),
    # ---------------- C08
    ("B-C1", "B", "C08", CIRC, "circuit = circuit_copy if group else circuit.copy()", "if group:\n            circuit = circuit_copy"),
    ("B-C2", "B", "C08", UTILS, "    new_circuit_spec = []\n    for spec in circuit_spec:\n        spec = copy(spec)\n        if isinstance(spec, BeamSplitter):\n            spec.mode_1 += mode", "    new_circuit_spec = []\n    for spec in circuit_spec:\n        if isinstance(spec, BeamSplitter):\n            spec.mode_1 += mode"),
    ("B-C5", "B", "C08", CIRC, "new_circ.__circuit_spec = copy(self.__circuit_spec)", "new_circ.__circuit_spec = self.__circuit_spec"),
    ("B-C6", "B", "C08", CIRC, "new_circ.__in_heralds = copy(self.__in_heralds)", "new_circ.__in_heralds = self.__in_heralds"),
    ("B-C7", "B", "C08", CIRC, "        new_circ.__circuit_spec = self.__circuit_spec + value.__circuit_spec\n        return new_circ", "        spec = self.__circuit_spec\n        spec += value.__circuit_spec\n        new_circ.__circuit_spec = spec\n        return new_circ"),
    ("B-D1", "B", "C08", CIRC, "        # Check if herald already used on input or output\n        if input_mode in self.__in_heralds:\n            raise ValueError(\"Heralding already set for chosen input mode.\")\n        if output_mode in self.__out_heralds:\n            raise ValueError(\"Heralding already set for chosen output mode.\")\n        # If not then update dictionaries\n        self.__in_heralds[input_mode] = n_photons", "        # Check if herald already used on input or output\n        if input_mode in self.__in_heralds:\n            raise ValueError(\"Heralding already set for chosen input mode.\")\n        # If not then update dictionaries\n        self.__in_heralds[input_mode] = n_photons\n        if output_mode in self.__out_heralds:\n            raise ValueError(\"Heralding already set for chosen output mode.\")"),
    ("B-D2", "B", "C08", CIRC, "        # Validate loss before updating circuit spec\n        check_loss(loss)\n        # Then update circuit spec\n        self.__circuit_spec.append(\n            BeamSplitter(mode_1, mode_2, reflectivity, convention)\n        )", "        # Then update circuit spec\n        self.__circuit_spec.append(\n            BeamSplitter(mode_1, mode_2, reflectivity, convention)\n        )\n        check_loss(loss)"),
    ("T-7", "T", "C08", CIRC, "new_circ.__in_heralds = copy(self.__in_heralds)", "new_circ.__in_heralds = dict(self.__in_heralds)"),
    ("T-7b", "T", "C08", CIRC, "new_circ.__circuit_spec = copy(self.__circuit_spec)", "new_circ.__circuit_spec = list(self.__circuit_spec)"),
    # ---------------- C09
    ("B-9a", "B", "C09", UTILS, "                    blocked_modes.add(spec2.mode_1)\n                    blocked_modes.add(spec2.mode_2)", "                    blocked_modes.add(spec2.mode_1)"),
    ("B-9b", "B", "C09", UTILS, "spec2.mode, spec2.mode + spec2.unitary.shape[0]\n                    ):", "spec2.mode, spec2.mode + spec2.unitary.shape[0] - 1\n                    ):"),
    ("B-9c", "B", "C09", UTILS, "                        to_skip.append(i + 1 + j)\n            new_spec.append(spec)", "                        to_skip.append(i + 1 + j)\n                        new_spec.append(spec2)\n            new_spec.append(spec)"),
    ("B-9d", "B", "C09", UTILS, "            swaps = {v: k for k, v in swaps.items()}\n            new_spec.append(ModeSwaps(swaps))", "            new_spec.append(ModeSwaps(swaps))"),
    ("B-9e", "B", "C09", UTILS, "        elif isinstance(spec, Group):\n            spec.circuit_spec = convert_non_adj_beamsplitters(spec.circuit_spec)\n            new_spec.append(spec)\n        else:", "        elif isinstance(spec, Group):\n            new_spec.append(spec)\n        else:"),
    ("B-9f", "B", "C09", CIRC, "        self.__circuit_spec = unpack_circuit_spec(self.__circuit_spec)\n        return", "        self.__circuit_spec = unpack_circuit_spec(self.__circuit_spec)\n        self.__in_heralds = dict(sorted(self.__in_heralds.items()))\n        return"),
    ("T-19", "T", "C09", UTILS, "                    blocked_modes.add(spec2.mode_1)\n                    blocked_modes.add(spec2.mode_2)", "                    blocked_modes.update((spec2.mode_1, spec2.mode_2))"),
    # ---------------- C10
    ("B-10a", "B", "C10", PARAMS, "            if value < self.min_bound:\n                raise ParameterValueError(\"Set value is below minimum bound.\")", "            if value > self.min_bound:\n                raise ParameterValueError(\"Set value is below minimum bound.\")"),
    ("B-10b", "B", "C10", PARAMS, "            if self.__value > value:\n                raise ParameterBoundsError(\n                    \"Current parameter value is above new maximum bound.\"", "            if self.__min_bound > value:\n                raise ParameterBoundsError(\n                    \"Current parameter value is above new maximum bound.\""),
    ("B-10c", "B", "C10", PARAMS, "        if self.max_bound is not None:\n            if value > self.max_bound:\n                raise ParameterValueError(\"Set value is above maximum bound.\")\n        self.__value = value\n        return", "        self.__value = value\n        if self.max_bound is not None:\n            if value > self.max_bound:\n                raise ParameterValueError(\"Set value is above maximum bound.\")\n        return"),
    ("B-10d", "B", "C10", COMPS, "        if not 0 <= self._reflectivity <= 1:\n            raise ValueError(\"Reflectivity must be in range [0,1].\")", "        if not isinstance(self.reflectivity, Parameter):\n            if not 0 <= self.reflectivity <= 1:\n                raise ValueError(\"Reflectivity must be in range [0,1].\")"),
    ("B-10e", "B", "C10", COMPS, "unitary[self.mode, self.mode] = np.exp(1j * self._phi)", "unitary[self.mode, self.mode] = np.exp(1j * self.phi)"),
    ("B-10f", "B", "C10", CIRC, "        try:\n            circuit = self._build_process()\n        except Exception as e:", "        if hasattr(self, \"_cached\"):\n            return self._cached\n        try:\n            circuit = self._build_process()\n            self._cached = circuit\n        except Exception as e:"),
    ("B-10g", "B", "C10", CIRC, "for spec in unpack_circuit_spec(self.__circuit_spec):\n            for p in spec.values():", "for spec in self.__circuit_spec:\n            for p in spec.values():"),
    ("B-10h", "B", "C10", CIRC, "            if isinstance(spec, Group):\n                spec.circuit_spec = self._freeze_params(spec.circuit_spec)\n                new_spec.append(spec)\n            else:", "            if isinstance(spec, Group):\n                new_spec.append(spec)\n            else:"),
    ("B-10i", "B", "C10", CIRC, "        except Exception as e:\n            msg = \"An error occurred during the circuit compilation process\"", "        except ValueError as e:\n            msg = \"An error occurred during the circuit compilation process\""),
    ("B-10j", "B", "C10", COMPS, "        if not 0 <= self._loss <= 1:", "        if not 0 <= self._loss < 1:"),
    ("T-14", "T", "C10", PARAMS, "        if self.min_bound is not None:\n            if value < self.min_bound:\n                raise ParameterValueError(\"Set value is below minimum bound.\")", "        if not (self.min_bound is None or value >= self.min_bound):\n            raise ParameterValueError(\"Set value is below minimum bound.\")"),
    # ---------------- C11
    ("B-F1", "B", "C11", QS, "        if self._check_parameter_updates():\n            self.probability_distribution  # noqa: B018\n        return self.__continuous_distribution", "        return self.__continuous_distribution"),
    ("B-F2", "B", "C11", SAM, "for state, cd in self.continuous_distribution.items():", "for state, cd in self._Sampler__continuous_distribution.items():"),
    ("B-F3", "B", "C11", SAM, "            \"brightness\",\n            \"purity\",", "            \"brightness\","),
    ("B-F4", "B", "C11", SAM, "            self.__circuit.U_full,\n            self.__circuit.heralds,\n            self.input_state,\n            self.backend.backend,", "            self.__circuit.U_full,\n            self.input_state,\n            self.backend.backend,"),
    ("B-F5", "B", "C11", QS, "            self.post_select,\n            self.photon_counting,\n        ]", "            self.post_select,\n        ]"),
    ("B-F6", "B", "C11", AN, "        if expected is not None:\n            results.error_rate = self.error_rate", "        if hasattr(self, \"error_rate\"):\n            results.error_rate = self.error_rate"),
    ("B-F7", "B", "C11", SAM, "            samples = rng.choice(vals, p=norm_p, size=N)\n", "            samples = rng.choice(vals, p=norm_p, size=N)\n            self.__probability_distribution = dict(zip(pdist.keys(), norm_p))\n"),
    ("T-13", "T", "C11", QS, "        if self._check_parameter_updates():\n            self.probability_distribution  # noqa: B018\n        return self.__continuous_distribution", "        if not self._check_parameter_updates():\n            return self.__continuous_distribution\n        self.probability_distribution  # noqa: B018\n        return self.__continuous_distribution"),
    # ---------------- C12 / C13
    ("B-K6", "B", "C12", QC, "    \"s\": S(),\n    \"sdg\": Sadj(),", "    \"s\": Sadj(),\n    \"sdg\": S(),"),
    ("B-K7", "B", "C12", QC, "TWO_QUBIT_GATES_MAP = {\"cx\": CNOT_Heralded, \"cz\": CZ_Heralded, \"swap\": SWAP}", "TWO_QUBIT_GATES_MAP = {\"cx\": CNOT_Heralded, \"cz\": CZ, \"swap\": SWAP}"),
    ("B-K8", "B", "C12", QC, "            self.circuit.add(add_circ, add_mode)\n            for swap_qs in to_swap:\n                self._add_two_qubit_gate(\"swap\", swap_qs[0], swap_qs[1])\n        else:\n            msg = f\"Unsupported gate '{gate}' included in circuit.\"\n            raise ValueError(msg)", "            self.circuit.add(add_circ, add_mode)\n            for swap_qs in to_swap:\n                self._add_two_qubit_gate(\"swap\", swap_qs[0], swap_qs[1])\n        else:\n            pass"),
    ("B-K4", "B", "C13", SQG, "[np.cos(theta / 2), -np.sin(theta / 2)],", "[np.cos(theta / 2), np.sin(theta / 2)],"),
    ("B-K5", "B", "C13", SQG, "unitary = np.array([[1, 0], [0, -1j]])", "unitary = np.array([[1, 0], [0, 1j]])"),
    ("B-K10", "B", "C13", TQG, "        circ.add(H(), 2 * target_qubit)\n        circ.add(CZ(), 0)\n        circ.add(H(), 2 * target_qubit)", "        circ.add(H(), 2 * target_qubit)\n        circ.add(CZ(), 0)\n        circ.add(H(), 2 * (1 - target_qubit))"),
    ("T-17", "T", "C13", SQG, "[np.exp(-1j * theta / 2), 0],", "[np.exp(-0.5j * theta), 0],"),
    # ---------------- C14
    ("B-14a", "B", "C14", GAUSS, "while val < self._min_value or val > self._max_value:", "while val < self._min_value and val > self._max_value:"),
    ("B-14b", "B", "C14", TOPHAT, "            self._min_value\n            + (self._max_value - self._min_value) * self._rng.random()", "            self._min_value\n            + self._max_value * self._rng.random()"),
    ("B-14c", "B", "C14", RECK, "    phi %= 2 * np.pi\n    return phi if phi < 2 * np.pi else 0.0", "    return phi % (2 * np.pi)"),
    ("B-14d", "B", "C14", RECK, "        # Reset error model seed\n        self.error_model._set_random_seed(seed)\n", ""),
    ("B-14e", "B", "C14", TOPHAT, "self._rng = random.default_rng(seed)", "self._generator = random.default_rng(seed)"),
    ("B-14f", "B", "C14", RECK, "                mapped_circuit.bs(\n                    mode, reflectivity=self.error_model.get_bs_reflectivity()\n                )", "                mapped_circuit.bs(\n                    mode, mode + 2, reflectivity=self.error_model.get_bs_reflectivity()\n                )"),
    ("T-16", "T", "C14", GAUSS, "while val < self._min_value or val > self._max_value:", "while not (self._min_value <= val <= self._max_value):"),
    ("T-15", "T", "C14", TOPHAT, "        return (\n            self._min_value\n            + (self._max_value - self._min_value) * self._rng.random()\n        )", "        return self._rng.uniform(self._min_value, self._max_value)"),
    # ---------------- C15 / C16
    ("B-K11", "B", "C15", MAP, "_y_measure.add(qubit.S())", "_y_measure.add(qubit.Sadj())"),
    ("B-K14", "B", "C15", TUT, "            elif state[2 * j : 2 * j + 2] == State([0, 1]):\n                multiplier *= -1", "            elif state[2 * j : 2 * j + 2] == State([0, 1]):\n                multiplier *= 1"),
    ("B-K21", "B", "C15", STF, "self._rho = _calculate_density_matrix(results_dict, self.n_qubits)", "self._rho = _calculate_density_matrix(results_dict, self.n_qubits).T"),
    ("B-K22", "B", "C15", STF, "self._rho = _calculate_density_matrix(results_dict, self.n_qubits)", "rho = _calculate_density_matrix(results_dict, self.n_qubits)\n        self._rho = (rho + rho.T) / 2"),
    ("B-K23", "B", "C15", TUT, "mat = np.kron(mat, PAULI_MAPPING[g])", "mat = np.kron(mat, PAULI_MAPPING[g].T)"),
    ("T-K21", "T", "C15", STF, "self._rho = _calculate_density_matrix(results_dict, self.n_qubits)", "rho = _calculate_density_matrix(results_dict, self.n_qubits)\n        self._rho = (rho + rho.conj().T) / 2"),
    ("B-K12", "B", "C16", MAP, "    \"Y+\": (State([1, 0]), r_transform),\n    \"Y-\": (State([0, 1]), r_transform),", "    \"Y+\": (State([0, 1]), r_transform),\n    \"Y-\": (State([1, 0]), r_transform),"),
    ("B-K13", "B", "C16", MAP, "    \"Y+\": np.array([[1, -1j], [1j, 1]]) / 2,\n    \"Y-\": np.array([[1, 1j], [-1j, 1]]) / 2,", "    \"Y+\": np.array([[1, 1j], [-1j, 1]]) / 2,\n    \"Y-\": np.array([[1, -1j], [1j, 1]]) / 2,"),
    ("B-K15", "B", "C16", LI, "np.kron(np.array(full_rhos[in_s]).conj(), full_paulis[meas])", "np.kron(full_paulis[meas], np.array(full_rhos[in_s]).conj())"),
    ("B-K16", "B", "C16", MLEF, "return (self._a_matrix @ _vec(choi)).clip(1e-8)", "return (self._a_matrix @ _vec(choi.T)).clip(1e-8)"),
    ("B-K17", "B", "C16", MLEF, "return -_unvec(np.conj(self._a_matrix.T) @ (n_vec / self._p_vec(choi)))", "return -_unvec(self._a_matrix.T @ (n_vec / self._p_vec(choi)))"),
    ("B-K18", "B", "C16", LI, "                np.kron(np.array(full_rhos[in_s]).conj(), full_paulis[meas])\n            ).conj()", "                np.kron(np.array(full_rhos[in_s]).conj(), full_paulis[meas])\n            )"),
    ("B-K19", "B", "C16", LI, "                np.kron(np.array(full_rhos[in_s]).conj(), full_paulis[meas])\n            ).conj()", "                np.kron(np.array(full_rhos[in_s]).T, full_paulis[meas])\n            )"),
    ("B-K20", "B", "C16", LI, "self._choi = _unvec(choi)", "self._choi = _unvec(choi).T"),
    ("T-K16", "T", "C16", LI, "                np.kron(np.array(full_rhos[in_s]).conj(), full_paulis[meas])\n            ).conj()", "                np.kron(np.array(full_rhos[in_s]), np.conj(full_paulis[meas]))\n            )"),
    ("T-K17", "T", "C16", MLEF, "np.kron(self._all_rhos[in_s], ((id_mat + obs) / 2).T)", "np.kron(self._all_rhos[in_s], (id_mat + obs.T) / 2)"),
    ("T-K18", "T", "C16", LI, "self._choi = _unvec(choi)", "choi_matrix = _unvec(choi)\n        self._choi = choi_matrix"),
    # ---------------- C17
    ("B-17a", "B", "C17", SIMR, "        if self.result_type == \"probability_amplitude\":\n            raise ValueError(\n                \"Threshold mapping cannot be applied to probability \"\n                \"amplitudes.\"\n            )\n", ""),
    ("B-17m", "B", "C17", SAMR, "        mapped_result: dict[State, float] = {}\n        for out_state, val in self.items():\n            if invert:\n                new_s = State([1 - (s % 2) for s in out_state])\n            else:\n                new_s = State([s % 2 for s in out_state])\n            if new_s in mapped_result:\n                mapped_result[new_s] += val\n            else:\n                mapped_result[new_s] = val\n", "        mapped_result = {State([(1 - s % 2) if invert else s % 2 for s in out_state]): val for out_state, val in self.items()}\n"),
    ("B-Z1", "B", "C03", L + "sdk/circuit/compiler.py", "        if output_mode is None:\n            output_mode = input_mode\n", "        output_mode = output_mode or input_mode\n"),
    ("B-Z2", "B", "C14", L + "interferometers/error_model.py", "                if seed is not None:\n                    seed = rng.integers(2**31 - 1)", "                if seed:\n                    seed = rng.integers(2**31 - 1)"),
    ("B-17b", "B", "C17", SIMR, "                    array[i, j] = mapped_result[in_state][out_state]", "                    array[j, i] = mapped_result[in_state][out_state]"),
    ("B-17c", "B", "C17", SIMR, "            outputs=list(unique_outputs),", "            outputs=sorted(unique_outputs, key=str),"),
    ("B-G9", "B", "C17", SIMR, "                    new_s = State([s % 2 for s in out_state])\n                if new_s in mapped_result[in_state]:\n                    mapped_result[in_state][new_s] += val\n                else:\n                    mapped_result[in_state][new_s] = val", "                    new_s = State([s % 2 for s in out_state])\n                mapped_result[in_state][new_s] = val"),
    ("B-G10", "B", "C17", SAMR, "            new_s = State([1 if s >= 1 else 0 for s in out_state])\n            if invert:\n                new_s = State([1 - s for s in new_s])\n            if new_s in mapped_result:\n                mapped_result[new_s] += val\n            else:\n                mapped_result[new_s] = val", "            new_s = State([1 if s >= 1 else 0 for s in out_state])\n            if invert:\n                new_s = State([1 - s for s in new_s])\n            mapped_result[new_s] = val"),
    ("B-17d", "B", "C17", SIMR, "new_s = State([1 if s >= 1 else 0 for s in out_state])", "new_s = State([1 if s > 1 else 0 for s in out_state])"),
    # ---------------- C18
    ("B-18a", "B", "C18", STATE, "        return copy(self.__s)", "        return self.__s"),
    ("B-18b", "B", "C18", ASTATE, "            return list(self.__s[indices])", "            return self.__s[indices]"),
    ("B-18c", "B", "C18", STATE, "        return hash(self.__str__())", "        return hash(id(self))"),
    ("B-18d", "B", "C18", STATE, "        return State(\n            [n1 + n2 for n1, n2 in zip(self.__s, merge_state.s, strict=True)]\n        )", "        for i, n2 in enumerate(merge_state.s):\n            self.__s[i] += n2\n        return self"),
    ("B-L3", "B", "C18", HER, "to_remove = sorted(herald_modes, reverse=True)", "to_remove = sorted(herald_modes)"),
    ("B-C9", "B", "C18", HER, "        return state.s if isinstance(state, State) else copy(state)\n    n_modes", "        return state.s if isinstance(state, State) else state\n    n_modes"),
    ("T-20", "T", "C18", STATE, "        return copy(self.__s)", "        return list(self.__s)"),
    # ---------------- C19
    ("B-19a", "B", "C19", MPL, "    @_add.register\n    def _add_barrier(self, spec: Barrier) -> None:", "    def _add_barrier(self, spec: Barrier) -> None:"),
    ("B-19b", "B", "C19", SVG, "self.draw_spec += [(\"lc\", (xloc, yloc, size))]", "self.draw_spec += [(\"lc\", (xloc, yloc))]"),
    ("B-19c", "B", "C19", MPL, "        if not isinstance(ref, str):\n            ref = round(ref, 4)", "        ref = round(ref, 4)"),
    ("B-19d", "B", "C19", SVG, "        self.herald_modes = self.circuit._internal_modes\n", "        self.herald_modes = self.circuit._internal_modes\n        self.herald_modes.sort()\n"),
    ("B-19f", "B", "C19", DISP, "    raise DisplayError(\"Display type not recognised.\")", "    return None"),
]


def _run_one(args):
    vid, kind, prop, rel, old, new, files = args
    from .ctx import Ctx

    t0 = time.time()
    base = Tree(files)
    if rel not in base.files or old not in base.files[rel]:
        return (vid, kind, prop, "not_applicable", [], 0.0)
    tree = base.overlay({rel: base.files[rel].replace(old, new, 1)}, vid)
    try:
        mod = importlib.import_module(f"lwsa.props.{prop.lower()}")
        res = mod.check(Ctx(tree))
        from .report import load_known, match_known

        known = load_known()
        bad = [o for o in res.obligations if o.status == "violation" and not match_known(prop, o, known)]
        und = [o for o in res.obligations if o.status == "undecided"]
        if bad:
            return (vid, kind, prop, "violation", sorted({o.rule for o in bad}), round(time.time() - t0, 2))
        if und and kind == "B":
            return (vid, kind, prop, "silent", ["undecided:" + ",".join(sorted({o.rule for o in und}))], round(time.time() - t0, 2))
        low = [n for n, (m, mn) in res.floors.items() if m < mn]
        if low:
            return (vid, kind, prop, "analysis-error", ["floor:" + x for x in low], round(time.time() - t0, 2))
        return (vid, kind, prop, "silent", [], round(time.time() - t0, 2))
    except AnalysisError as e:
        return (vid, kind, prop, "analysis-error", [str(e)[:120]], round(time.time() - t0, 2))
    except Exception as e:  # noqa: BLE001
        return (vid, kind, prop, "internal-error", [repr(e)[:120]], round(time.time() - t0, 2))


def run_battery(props=None, jobs=16):
    base = Tree.load()
    todo = [(v[0], v[1], v[2], v[3], v[4], v[5], base.files) for v in VARIANTS if props is None or v[2] in props]
    with ProcessPoolExecutor(max_workers=jobs) as ex:
        results = list(ex.map(_run_one, todo))
    return results


def summarise(results):
    out = {"breaking": {"killed": 0, "survived": [], "undecided": [], "n/a": 0}, "twins": {"silent": 0, "false_alarm": [], "undecided": [], "n/a": 0}}
    for vid, kind, prop, verdict, rules, _t in results:
        if kind == "B":
            if verdict == "violation":
                out["breaking"]["killed"] += 1
            elif verdict == "not_applicable":
                out["breaking"]["n/a"] += 1
            elif verdict == "silent":
                out["breaking"]["survived"].append(vid)
            else:
                out["breaking"]["undecided"].append(f"{vid}:{verdict}")
        else:
            if verdict == "silent":
                out["twins"]["silent"] += 1
            elif verdict == "not_applicable":
                out["twins"]["n/a"] += 1
            elif verdict == "violation":
                out["twins"]["false_alarm"].append(f"{vid}:{','.join(rules)}")
            else:
                out["twins"]["undecided"].append(f"{vid}:{verdict}")
    return out


# positive controls: one breaking variant per property that must be reported on every run (a rule
# whose expected count on the tree is zero must be shown to still match something)
CONTROLS = {
    "C01": "B-A2", "C02": "B-L1", "C03": "B-B1", "C04": "B-G3", "C05": "B-B4", "C06": "B-K2", "C07": "B-I2", "C08": "B-C1", "C09": "B-9a",
    "C10": "B-10a", "C11": "B-F1", "C12": "B-K6", "C13": "B-K4", "C14": "B-14a", "C15": "B-K11", "C16": "B-K12", "C17": "B-17b", "C18": "B-18a", "C19": "B-19c",
}


def run_control(prop: str, base: Tree):
    """-> (variant id, verdict, rules).  verdict 'violation' expected."""
    vid = CONTROLS.get(prop)
    v = next((x for x in VARIANTS if x[0] == vid and x[2] == prop), None)
    if v is None:
        return (vid, "missing", [])
    r = _run_one((v[0], v[1], v[2], v[3], v[4], v[5], base.files))
    if r[3] == "violation":
        return (r[0], r[3], r[4])
    # the designated control does not apply to this tree (its anchor text was rewritten) or the rewritten code is
    # outside what its rule recognises: any other breaking edit of the same property serves as the control
    first = r
    for v in VARIANTS:
        if v[2] == prop and v[1] == "B" and v[0] != vid:
            r = _run_one((v[0], v[1], v[2], v[3], v[4], v[5], base.files))
            if r[3] == "violation":
                return (r[0], r[3], r[4])
            if first[3] == "not_applicable" and r[3] != "not_applicable":
                first = r
    return (first[0], first[3], first[4])
