"""Order of the factors of a Kronecker product built from a comma-separated operator string.

The statements that turn `measurement.split(",")` into `P_0 (x) P_1 (x) ... (x) P_{n-1}` are read with the string
replaced by n symbolic positions 0..n-1; every value is either a position list (an operator sequence) or a factor
order (a tuple of positions, the order in which the factors sit in a Kronecker product).  Supported: indexing and
slicing of the sequence, star-unpacking, loops over (slices of) the sequence, comprehensions that map each element
through a table, np.kron(a, b), functools.reduce(np.kron, seq), reversed(...).  The result for n = 2, 3 must be
(0, 1, .., n-1).  Nothing is executed; outside this fragment the evaluator gives up (Unknown)."""

from __future__ import annotations

import ast

from .source import src


class Unknown(Exception):
    pass


class Seq(list):
    """a python sequence of factor orders (each element a tuple of positions)"""


def _is_split(e, param: str) -> bool:
    return isinstance(e, ast.Call) and isinstance(e.func, ast.Attribute) and e.func.attr == "split" and src(e.func.value) == param


class Eval:
    def __init__(self, n: int, param: str, table_names=("PAULI_MAPPING",)):
        self.n, self.param, self.tables = n, param, table_names
        self.result = None

    # ---- expressions
    def ev(self, e, env):
        if _is_split(e, self.param):
            return Seq((i,) for i in range(self.n))
        if isinstance(e, ast.Name):
            if e.id in env:
                return env[e.id]
            raise Unknown(e.id)
        if isinstance(e, ast.Subscript):
            if isinstance(e.value, ast.Name) and e.value.id in self.tables:
                return self.ev(e.slice, env)  # table lookup keeps the position
            if isinstance(e.value, ast.Attribute) and e.value.attr in self.tables:
                return self.ev(e.slice, env)
            base = self.ev(e.value, env)
            if not isinstance(base, Seq):
                raise Unknown("subscript of a product")
            sl = e.slice
            if isinstance(sl, ast.Slice):
                lo = self._int(sl.lower, 0)
                hi = self._int(sl.upper, None)
                st = self._int(sl.step, 1)
                return Seq(list(base)[lo:hi:st])
            return list(base)[self._int(sl, None)]
        if isinstance(e, (ast.ListComp, ast.GeneratorExp)) and len(e.generators) == 1 and not e.generators[0].ifs and isinstance(e.generators[0].target, ast.Name):
            g = e.generators[0]
            it = self.ev(g.iter, env)
            if not isinstance(it, Seq):
                raise Unknown("comprehension over a product")
            out = Seq()
            for x in it:
                env2 = dict(env)
                env2[g.target.id] = x
                out.append(self.ev(e.elt, env2))
            return out
        if isinstance(e, (ast.List, ast.Tuple)):
            return Seq(self.ev(x, env) for x in e.elts)
        if isinstance(e, ast.Call):
            f = src(e.func)
            last = f.split(".")[-1]
            if last == "kron" and len(e.args) == 2:
                a, b = self.ev(e.args[0], env), self.ev(e.args[1], env)
                if isinstance(a, Seq) or isinstance(b, Seq):
                    raise Unknown("kron of sequences")
                return tuple(a) + tuple(b)
            if last == "reduce" and len(e.args) >= 2 and src(e.args[0]).split(".")[-1] == "kron":
                seq = self.ev(e.args[1], env)
                if not isinstance(seq, Seq) or not seq:
                    raise Unknown("reduce over a product")
                acc = tuple(seq[0]) if len(e.args) == 2 else tuple(self.ev(e.args[2], env))
                for x in (seq[1:] if len(e.args) == 2 else seq):
                    acc = acc + tuple(x)
                return acc
            if last in ("reversed",) and len(e.args) == 1:
                s = self.ev(e.args[0], env)
                return Seq(reversed(s)) if isinstance(s, Seq) else s
            if last in ("list", "tuple", "iter") and len(e.args) == 1:
                return self.ev(e.args[0], env)
            if last in ("array", "asarray", "copy") and e.args:
                return self.ev(e.args[0], env)
        raise Unknown(src(e)[:60])

    @staticmethod
    def _int(e, default):
        if e is None:
            return default
        if isinstance(e, ast.Constant) and isinstance(e.value, int):
            return e.value
        if isinstance(e, ast.UnaryOp) and isinstance(e.op, ast.USub) and isinstance(e.operand, ast.Constant):
            return -e.operand.value
        raise Unknown("non-constant index")

    # ---- statements
    def run(self, stmts, env):
        for st in stmts:
            if self.result is not None:
                return
            self.stmt(st, env)

    def stmt(self, st, env):
        if isinstance(st, ast.Assign) and len(st.targets) == 1:
            t = st.targets[0]
            try:
                v = self.ev(st.value, env)
            except Unknown:
                # not part of the product construction
                for x in ast.walk(t):
                    if isinstance(x, ast.Name):
                        env.pop(x.id, None)
                return
            if isinstance(t, ast.Name):
                env[t.id] = v
            elif isinstance(t, (ast.Tuple, ast.List)) and isinstance(v, Seq):
                elts = list(t.elts)
                star = [i for i, x in enumerate(elts) if isinstance(x, ast.Starred)]
                vals = list(v)
                if not star:
                    for x, y in zip(elts, vals):
                        if isinstance(x, ast.Name):
                            env[x.id] = y
                else:
                    k = star[0]
                    after = len(elts) - k - 1
                    for x, y in zip(elts[:k], vals[:k]):
                        if isinstance(x, ast.Name):
                            env[x.id] = y
                    mid = vals[k:len(vals) - after] if after else vals[k:]
                    if isinstance(elts[k].value, ast.Name):
                        env[elts[k].value.id] = Seq(mid)
                    for x, y in zip(elts[k + 1:], vals[len(vals) - after:] if after else []):
                        if isinstance(x, ast.Name):
                            env[x.id] = y
        elif isinstance(st, ast.For) and isinstance(st.target, ast.Name):
            try:
                it = self.ev(st.iter, env)
            except Unknown:
                return
            if not isinstance(it, Seq):
                return
            for x in it:
                env[st.target.id] = x
                self.run(st.body, env)
        elif isinstance(st, ast.Return) and st.value is not None:
            try:
                self.result = self.ev(st.value, env)
            except Unknown:
                self.result = "unknown"
        elif isinstance(st, ast.AugAssign):
            return


def factor_order(stmts, param: str, target: str | None, n: int, table_names=("PAULI_MAPPING",)):
    """order of the Kronecker factors held by `target` (or returned) after running stmts for an n-operator string"""
    ev = Eval(n, param, table_names)
    env: dict = {}
    ev.run(stmts, env)
    if target is None:
        return ev.result
    return env.get(target, "unknown")
