"""R-M  Small structural invariants of the compiler and of the per-component matrices."""

from __future__ import annotations

import ast

from ..index import FuncInfo, walk_no_nested
from ..inline import inlined
from ..report import Result
from ..source import AnalysisError, src


def _matmul(e):
    """-> (left, right) for A @ B, np.matmul(A,B), np.dot(A,B), A.dot(B)"""
    if isinstance(e, ast.BinOp) and isinstance(e.op, ast.MatMult):
        return e.left, e.right
    if isinstance(e, ast.Call):
        f = src(e.func)
        if f.split(".")[-1] in ("matmul", "dot") and len(e.args) == 2:
            return e.args[0], e.args[1]
        if isinstance(e.func, ast.Attribute) and e.func.attr == "dot" and len(e.args) == 1:
            return e.func.value, e.args[0]
    return None


def m1_left_multiplication(ctx, res: Result, fi: FuncInfo, acc="_unitary") -> None:
    """new accumulator = M(component) . old accumulator"""
    fn = inlined(fi.node)
    n = 0
    for a in walk_no_nested(fn):
        if isinstance(a, ast.Assign) and len(a.targets) == 1 and src(a.targets[0]) == f"self.{acc}":
            mm = _matmul(a.value)
            if mm is None:
                continue
            n += 1
            l, r = mm
            good = src(r) == f"self.{acc}" and "get_unitary" in src(l)
            res.add(good, "M1-left-multiplication", fi.qualname, fi.site(a), fi.qualname, "component matrix multiplies the accumulated unitary from the left (insertion order = product order)",
                    f"accumulator update `{src(a)[:120]}` is not M(component) @ accumulated: components would be applied in reverse order", construct=src(a)[:200])
        if isinstance(a, ast.AugAssign) and src(a.target) == f"self.{acc}" and isinstance(a.op, ast.MatMult):
            n += 1
            res.bad("M1-left-multiplication", fi.qualname, fi.site(a), fi.qualname, f"`{src(a)[:100]}` multiplies the component matrix from the right: components would be applied in reverse order", construct=src(a)[:200])
    if n == 0:
        res.frozen(False, "M1-left-multiplication", fi.qualname, fi.site(), fi.qualname, "", "no matrix-product update of the accumulated unitary recognised", construct=fi.qualname)
    # group recursion in list order
    loops = [l for l in walk_no_nested(fn) if isinstance(l, ast.For) and "circuit_spec" in src(l.iter)]
    for l in loops:
        good = isinstance(l.iter, ast.Attribute) and l.iter.attr == "circuit_spec"
        res.add(good, "M1-group-in-order", fi.qualname, fi.site(l), fi.qualname, "group members are compiled in list order", f"group members iterated as `{src(l.iter)}` (not in insertion order)", construct=src(l.iter))
    if not loops:
        res.frozen(False, "M1-group-in-order", fi.qualname, fi.site(), fi.qualname, "", "no iteration over circuit_spec recognised (groups compiled elsewhere?)", construct=fi.qualname)


def _isinstance_truth(ctx, e, var: str, case_mro: set[str]):
    """three-valued truth of a branch test when `var` is an instance of a class whose MRO names are case_mro"""
    if isinstance(e, ast.UnaryOp) and isinstance(e.op, ast.Not):
        v = _isinstance_truth(ctx, e.operand, var, case_mro)
        return None if v is None else (not v)
    if isinstance(e, ast.BoolOp):
        vs = [_isinstance_truth(ctx, x, var, case_mro) for x in e.values]
        if isinstance(e.op, ast.And):
            if any(v is False for v in vs):
                return False
            return True if all(v is True for v in vs) else None
        if any(v is True for v in vs):
            return True
        return False if all(v is False for v in vs) else None
    if isinstance(e, ast.Call) and isinstance(e.func, ast.Name) and e.func.id == "isinstance" and len(e.args) == 2 and src(e.args[0]) == var:
        t = e.args[1]
        names = [x for x in (t.elts if isinstance(t, ast.Tuple) else [t])]
        if all(isinstance(x, (ast.Name, ast.Attribute)) for x in names):
            return any(src(x).split(".")[-1] in case_mro for x in names)
    return None


def m2_loss_shape(ctx, res: Result, fi: FuncInfo, circ_u: FuncInfo, total: FuncInfo, component_base="Component") -> None:
    """exactly one extra mode per loss element; get_unitary sized n_modes + loss modes; U is the leading block.
    Path rule per component class T (CFG of the compiler's add restricted to the branches feasible when spec is a T):
      Loss: every path to the normal exit passes the counter increment, the pad and the matrix product;
      Group: every path passes the recursion loop;  Barrier: nothing is required;
      any other class: every path passes the matrix product;  and no class but Loss reaches increment or pad."""
    from ..cfg import CFG, forward

    fn = inlined(fi.node)
    var = fi.params()[1] if len(fi.params()) > 1 else "spec"
    cfg = CFG(fn)

    def gen(n):
        out = set()
        if n.ast is None:
            return out
        if n.kind == "for":
            if "circuit_spec" in src(n.ast.iter) and any(isinstance(c, ast.Call) and src(c.func) == f"self.{fi.name}" for c in ast.walk(n.ast)):
                out.add("recurse")
            return out
        if n.kind != "stmt":
            return out
        st = n.ast
        if isinstance(st, ast.AugAssign) and src(st.target) == "self._loss_modes":
            out.add("inc")
        if isinstance(st, ast.Assign) and src(st.targets[0]) == "self._loss_modes":
            out.add("inc")
        for c in ast.walk(st):
            if isinstance(c, ast.Call) and src(c.func).split(".")[-1] == "pad":
                out.add("pad")
        if isinstance(st, ast.Assign) and src(st.targets[0]) == "self._unitary" and _matmul(st.value) is not None:
            out.add("matmul")
        if isinstance(st, ast.AugAssign) and src(st.target) == "self._unitary" and isinstance(st.op, ast.MatMult):
            out.add("matmul")
        return out

    gens = {n.id: gen(n) for n in cfg.nodes}
    allg = set().union(*gens.values()) if gens else set()
    if not {"inc", "pad", "matmul"} <= allg:
        res.frozen(False, "M2-one-mode-per-loss", fi.qualname, fi.site(), fi.qualname, "", f"loss-mode idiom (counter increment + np.pad + matrix product) not recognised: found {sorted(allg)}", construct=fi.qualname)
    else:
        base = ctx.ix.find_class(component_base)
        cases = [c for c in (ctx.ix.subclasses(base) if base else []) if c.module.rel == base.module.rel]
        if len(cases) < 5:
            raise AnalysisError(f"{component_base}: only {len(cases)} component classes found")
        for case in cases:
            mro = {c.name for c in ctx.ix.mro(case)}

            def feasible(n, t, lab, mro=mro):
                if lab in ("exc", "raise"):
                    return False
                if n.kind == "test" and lab in ("true", "false"):
                    v = _isinstance_truth(ctx, n.ast.test, var, mro)
                    if v is not None:
                        return v == (lab == "true")
                return True

            # must-facts: intersection over paths; may-facts: union
            def tr(n, st, lab):
                must, may = st
                g = gens[n.id]
                return (must | frozenset(g), may | frozenset(g))

            IN = forward(cfg, (frozenset(), frozenset()), tr, lambda a, b: (a[0] & b[0], a[1] | b[1]), edge_filter=feasible)
            ex = IN[cfg.exit.id]
            inst = f"{fi.qualname}:{case.name}"
            if ex is None:
                res.bad("M2-every-component-compiled", inst, fi.site(), fi.qualname, f"no normal path through the compiler for a {case.name}", construct=case.name)
                continue
            must, may = ex
            if case.name == "Loss":
                need, forbid = {"inc", "pad", "matmul"}, set()
            elif case.name == "Group":
                need, forbid = {"recurse"}, {"inc", "pad"}
            elif case.name == "Barrier":
                need, forbid = set(), {"inc", "pad"}
            else:
                need, forbid = {"matmul"}, {"inc", "pad"}
            miss, extra = need - must, forbid & may
            why = {"inc": "the loss-mode counter increment", "pad": "the padding of the accumulated unitary", "matmul": "the matrix product with the accumulated unitary", "recurse": "the recursion over its members"}
            if miss or extra:
                msg = "; ".join([f"a path for a {case.name} skips {why[m]}" for m in sorted(miss)] + [f"a {case.name} can reach {why[m]}" for m in sorted(extra)])
                res.bad("M2-every-component-compiled", inst, fi.site(), fi.qualname, msg + ": U_full no longer has one extra mode per loss element / the component does not enter the product", construct=f"{case.name}: must={sorted(must)} may={sorted(may)}")
            else:
                res.ok("M2-every-component-compiled", inst, fi.site(), fi.qualname, f"every path for a {case.name} passes {sorted(need) or 'nothing required'}; cannot reach {sorted(forbid)}")
        # the increment is by exactly one and not inside a loop
        incs = [a for a in walk_no_nested(fn) if isinstance(a, (ast.AugAssign, ast.Assign)) and src(a.target if isinstance(a, ast.AugAssign) else a.targets[0]) == "self._loss_modes"]
        par = _parents(fn)
        def in_loop(x):
            x = par.get(x)
            while x is not None and x is not fn:
                if isinstance(x, (ast.For, ast.While)):
                    return True
                x = par.get(x)
            return False
        ok = len(incs) == 1 and not in_loop(incs[0]) and (
            (isinstance(incs[0], ast.AugAssign) and isinstance(incs[0].op, ast.Add) and src(incs[0].value) == "1")
            or (isinstance(incs[0], ast.Assign) and src(incs[0].value).replace(" ", "") in ("self._loss_modes+1", "1+self._loss_modes")))
        res.add(ok, "M2-one-mode-per-loss", fi.qualname, fi.site(incs[0]) if incs else fi.site(), fi.qualname, "loss-mode counter is incremented by exactly one, once",
                "loss-mode counter is not incremented by exactly one per Loss element", construct=src(incs[0]) if incs else fi.qualname)
        pads = [c for c in walk_no_nested(fn) if isinstance(c, ast.Call) and src(c.func).split(".")[-1] == "pad"]
        okp = len(pads) == 1 and len(pads[0].args) >= 2 and src(pads[0].args[1]).replace(" ", "") in ("(0,1)", "((0,1),(0,1))", "[(0,1),(0,1)]", "[(0,1)]", "((0,1),)") and src(pads[0].args[0]) == "self._unitary" and not in_loop(pads[0])
        res.add(okp, "M2-one-mode-per-loss", fi.qualname + ":pad", fi.site(pads[0]) if pads else fi.site(), fi.qualname, "accumulated unitary is padded by one row/column, once",
                "accumulated unitary is not padded by exactly one row and column per Loss element", construct=src(pads[0]) if pads else fi.qualname)
        # the padded matrix gets 1 on the new diagonal entry and becomes the accumulator
        pst = _stmt_of(par, pads[0]) if pads else None
        tgt = src(pst.targets[0]) if isinstance(pst, ast.Assign) else ""
        diag = [a for a in walk_no_nested(fn) if isinstance(a, ast.Assign) and tgt and src(a.targets[0]).replace(" ", "") == f"{tgt}[-1,-1]"]
        stored = tgt == "self._unitary" or any(isinstance(a, ast.Assign) and src(a.targets[0]) == "self._unitary" and src(a.value) == tgt for a in walk_no_nested(fn))
        if not tgt:
            res.frozen(False, "M2-one-mode-per-loss", fi.qualname + ":diag", fi.site(), fi.qualname, "", "padded matrix is not assigned to a name or the accumulator", construct=src(pst)[:100] if pst else "")
        else:
            res.add(len(diag) == 1 and stored and src(diag[0].value).replace(" ", "") in ("1+0j", "1", "1.0", "1.0+0j", "1j*0+1", "complex(1)"), "M2-one-mode-per-loss", fi.qualname + ":diag", fi.site(diag[0]) if diag else fi.site(), fi.qualname,
                    "the new loss mode starts as an identity row/column", "new loss mode is not initialised to identity (or the padded matrix is dropped)", construct=src(diag[0]) if diag else fi.qualname)
    gus = [c for c in walk_no_nested(fn) if isinstance(c, ast.Call) and isinstance(c.func, ast.Attribute) and c.func.attr == "get_unitary"]
    res.add(bool(gus) and all(len(c.args) == 1 and src(c.args[0]) == "self.total_modes" for c in gus), "M2-component-matrix-size", fi.qualname, fi.site(), fi.qualname,
            "component matrices are built for n_modes + loss modes", "component matrix size is not the total (real + loss) mode count", construct=";".join(src(c) for c in gus))
    rets = [r for r in walk_no_nested(inlined(total.node)) if isinstance(r, ast.Return)]
    t = src(rets[0].value).replace(" ", "") if rets else ""
    res.add(t in ("self.n_modes+self.loss_modes", "self.loss_modes+self.n_modes", "self._n_modes+self._loss_modes", "self._loss_modes+self._n_modes", "self.n_modes+self._loss_modes", "self._loss_modes+self.n_modes", "self._n_modes+self.loss_modes", "self.loss_modes+self._n_modes"), "M2-component-matrix-size", total.qualname, total.site(), total.qualname,
            "total_modes = n_modes + loss_modes", f"total_modes is `{t}`", construct=t)
    from ..inline import with_helpers as _wh
    rets = [r for r in walk_no_nested(_wh(ctx, circ_u, exclude=("_build",)).node) if isinstance(r, ast.Return)]
    t = src(rets[0].value).replace(" ", "") if rets else ""
    res.add(t.endswith("[:self.n_modes,:self.n_modes]") and "U_full" in t, "M2-U-leading-block", circ_u.qualname, circ_u.site(), circ_u.qualname, "U is the leading n_modes x n_modes block of U_full",
            f"U is `{t}`, not the leading block of U_full", construct=t)


def _parents(fn):
    par = {}
    for n in ast.walk(fn):
        for c in ast.iter_child_nodes(n):
            par[c] = n
    return par


def _stmt_of(par, n):
    while n is not None and not isinstance(n, ast.stmt):
        n = par.get(n)
    return n


def _index_pairs(fn: ast.FunctionDef, target="unitary"):
    """(branch-key, row, col) for every `unitary[r, c] = ...` store."""
    out = []
    par = {}
    for n in ast.walk(fn):
        for c in ast.iter_child_nodes(n):
            par[c] = n
    for a in walk_no_nested(fn):
        if isinstance(a, ast.Assign) and isinstance(a.targets[0], ast.Subscript) and src(a.targets[0].value) == target and isinstance(a.targets[0].slice, ast.Tuple) and len(a.targets[0].slice.elts) == 2:
            r, c = a.targets[0].slice.elts
            br = None
            p = par.get(a)
            if isinstance(p, ast.If):
                br = src(p.test) if a in p.body else "else:" + src(p.test)
            out.append((br, src(r), src(c), a))
    return out


def m3_block_coverage(ctx, res: Result, fi: FuncInfo, modes: list[str], extra: list[str] | None = None) -> None:
    """A component on modes S writes exactly S x S, each entry once (per convention branch)."""
    S = modes + (extra or [])
    want = {(a, b) for a in S for b in S}
    pairs = _index_pairs(inlined(fi.node))
    if not pairs:
        res.frozen(False, "M3-block-coverage", fi.qualname, fi.site(), fi.qualname, "", "no unitary[r, c] stores recognised", construct=fi.qualname)
        return
    branches: dict = {}
    for br, r, c, a in pairs:
        branches.setdefault(br, []).append((r, c, a))
    for br, lst in branches.items():
        got = [(r, c) for r, c, _ in lst]
        inst = f"{fi.qualname}:{br or 'body'}"
        dup = len(got) != len(set(got))
        if set(got) == want and not dup:
            res.ok("M3-block-coverage", inst, fi.site(lst[0][2]), fi.qualname, f"writes exactly the {len(want)} entries of its mode block, once each")
        else:
            res.bad("M3-block-coverage", inst, fi.site(lst[0][2]), fi.qualname,
                    f"entries written {sorted(got)} are not exactly the block {sorted(want)} (missing {sorted(want - set(got))}, duplicated={dup}): the component's matrix is not the documented one embedded on its modes",
                    construct=";".join(f"[{r},{c}]" for r, c in got))


def m3_slice_block(ctx, res: Result, fi: FuncInfo) -> None:
    stores = [a for a in walk_no_nested(inlined(fi.node)) if isinstance(a, ast.Assign) and isinstance(a.targets[0], ast.Subscript) and src(a.targets[0].value) == "unitary"]
    ok = False
    why = "no sliced block store"
    for a in stores:
        sl = a.targets[0].slice
        if isinstance(sl, ast.Tuple) and len(sl.elts) == 2 and all(isinstance(x, ast.Slice) for x in sl.elts):
            r, c = sl.elts
            same = src(r) == src(c)
            lo = src(r.lower) if r.lower else ""
            hi = src(r.upper) if r.upper else ""
            good = same and lo == "self.mode" and hi.replace(" ", "") in ("self.mode+nm", "nm+self.mode", "self.mode+self.unitary.shape[0]")
            ok = good
            why = f"block slice rows `{src(r)}` cols `{src(c)}`"
    res.add(ok, "M3-block-coverage", fi.qualname, fi.site(), fi.qualname, "block is written at [mode : mode+n, mode : mode+n] on both axes", f"unitary block is not embedded on the same mode range on both axes: {why}", construct=why)


def m4_permutation_orientation(ctx, res: Result, fi: FuncInfo) -> None:
    """swaps k -> v is stored at [v, k] (rows = outputs, columns = inputs)."""
    fn = inlined(fi.node)
    found = False
    direct = False
    for lp in walk_no_nested(fn):
        if isinstance(lp, ast.For) and isinstance(lp.target, ast.Tuple) and len(lp.target.elts) == 2 and src(lp.iter).endswith(".items()"):
            k, v = (src(x) for x in lp.target.elts)
            for a in ast.walk(lp):
                if isinstance(a, ast.Assign) and isinstance(a.targets[0], ast.Subscript) and isinstance(a.targets[0].slice, ast.Tuple) and len(a.targets[0].slice.elts) == 2:
                    r, c = (src(x) for x in a.targets[0].slice.elts)
                    if {r, c} != {k, v}:
                        continue
                    found = True
                    if isinstance(lp.iter, ast.Call) and isinstance(lp.iter.func, ast.Attribute) and isinstance(lp.iter.func.value, ast.Name) and lp.iter.func.value.id in fi.params():
                        direct = True
                    res.add((r, c) == (v, k), "M4-permutation-orientation", fi.qualname, fi.site(a), fi.qualname, "entry for initial mode k -> destination v is stored at [v, k]",
                            f"permutation entry stored at [{r}, {c}] for items ({k} -> {v}): the transpose (inverse permutation); invisible for involutive swaps only", construct=src(a))
    if not found:
        res.frozen(False, "M4-permutation-orientation", fi.qualname, fi.site(), fi.qualname, "", "permutation construction (loop over items storing [v, k]) not recognised", construct=fi.qualname)
        return
    # absent modes map to themselves: d.get(m, m) for m over range(n_modes), in a loop or a comprehension
    good = False
    for n in ast.walk(fn):
        gen_iters = []
        if isinstance(n, ast.For):
            gen_iters = [(n.target, n.iter, n)]
        elif isinstance(n, (ast.DictComp, ast.ListComp, ast.GeneratorExp)):
            gen_iters = [(g.target, g.iter, n) for g in n.generators]
        for tg, it, scope in gen_iters:
            if isinstance(it, ast.Call) and src(it.func) == "range" and isinstance(tg, ast.Name):
                for c in ast.walk(scope):
                    if isinstance(c, ast.Call) and isinstance(c.func, ast.Attribute) and c.func.attr == "get" and len(c.args) == 2 and src(c.args[0]) == src(c.args[1]) == tg.id:
                        good = True
    if good:
        res.ok("M4-permutation-total", fi.qualname, fi.site(), fi.qualname, "modes absent from the swap dictionary map to themselves")
    elif direct:
        res.bad("M4-permutation-total", fi.qualname, fi.site(), fi.qualname, "the matrix is filled from the swap dictionary as given: modes absent from the swap dictionary are not completed with the identity", construct=fi.qualname)
    else:
        res.frozen(False, "M4-permutation-total", fi.qualname, fi.site(), fi.qualname, "", "completion of absent modes (d.get(m, m) over range(n)) not recognised", construct=fi.qualname)


def m3_block_unitary(ctx, res: Result, fi: FuncInfo, symbols: dict) -> None:
    """The entries a component writes form a unitary block for every parameter value (polynomial
    identity M^dagger M = I over the generators; rules s^2 = 1 - c^2, b^2 = 1 - a^2)."""
    from ..fold import Angle, Folder, NotFoldable, SignLost
    from ..poly import Poly, mdag, meq, meye, mmul

    c, s_ = Poly.gen("c"), Poly.gen("s")
    Poly.rules = {"s": Poly.const(1) - c * c, "b": Poly.const(1) - Poly.gen("a") * Poly.gen("a")}
    keep = set()
    for k in symbols:
        try:
            keep |= {x.id for x in ast.walk(ast.parse(k, mode="eval")) if isinstance(x, ast.Name)}
        except SyntaxError:
            pass
    pairs = _index_pairs(inlined(fi.node, tuple(sorted(keep))))
    if not pairs:
        res.frozen(False, "M3-block-unitary", fi.qualname, fi.site(), fi.qualname, "", "no unitary[r, c] stores recognised", construct=fi.qualname)
        return
    branches: dict = {}
    for br, r, cc, a in pairs:
        branches.setdefault(br, []).append((r, cc, a))
    for br, lst in branches.items():
        idx = []
        for r, cc, _a in lst:
            for x in (r, cc):
                if x not in idx:
                    idx.append(x)
        fd = Folder(angle_names=tuple(k for k, v in symbols.items() if v == "angle" and "." not in k and " " not in k))
        for k, v in symbols.items():
            if v == "angle":
                fd.env[k] = Angle(2)  # the generators are cos/sin of the *whole* angle: theta = 2 * (theta/2)
        M = [[Poly.const(1 if i == j else 0) for j in range(len(idx))] for i in range(len(idx))]
        try:
            for r, cc, a in lst:
                val = _fold_with_symbols(fd, a.value, symbols)
                M[idx.index(r)][idx.index(cc)] = val
        except SignLost as e:
            res.bad("M3-block-unitary", f"{fi.qualname}:{br or 'body'}", fi.site(lst[0][2]), fi.qualname, f"{e}: the sign of the entry is lost for part of the parameter range, the block is not the documented matrix", construct=str(e)[:200])
            continue
        except NotFoldable as e:
            res.frozen(False, "M3-block-unitary", f"{fi.qualname}:{br or 'body'}", fi.site(lst[0][2]), fi.qualname, "", f"matrix entry not foldable: {e}", construct=str(e)[:200])
            continue
        ok = meq(mmul(mdag(M), M), meye(len(idx)))
        inst = f"{fi.qualname}:{br or 'body'}"
        res.add(ok, "M3-block-unitary", inst, fi.site(lst[0][2]), fi.qualname, "the written block is unitary for every parameter value",
                "the block this component writes is not unitary (M^dagger M != I as a polynomial identity): U_full of a circuit containing it is not unitary", construct=";".join(f"[{r},{cc}]={src(a.value)}" for r, cc, a in lst)[:300])


def _fold_with_symbols(fd, e, symbols):
    from ..fold import NotFoldable
    from ..poly import Poly

    s = src(e)
    for k, v in symbols.items():
        if v != "angle" and s.replace(" ", "") == k.replace(" ", ""):
            return Poly.gen(v)
    if isinstance(e, ast.Attribute) and src(e) in fd.env:
        return fd.env[src(e)]
    if isinstance(e, ast.BinOp):
        a, b = _fold_with_symbols(fd, e.left, symbols), _fold_with_symbols(fd, e.right, symbols)
        from ..fold import Angle

        if isinstance(a, Angle) or isinstance(b, Angle):
            return fd._angle_op(a, b, e.op, e)
        if isinstance(e.op, ast.Mult):
            return a * b
        if isinstance(e.op, ast.Add):
            return a + b
        if isinstance(e.op, ast.Sub):
            return a - b
        if isinstance(e.op, ast.Div):
            return a / b
        if isinstance(e.op, ast.Pow):
            return a ** b
        raise NotFoldable(src(e))
    if isinstance(e, ast.UnaryOp) and isinstance(e.op, ast.USub):
        return -_fold_with_symbols(fd, e.operand, symbols)
    if isinstance(e, ast.Call) and src(e.func).split(".")[-1] in ("cos", "sin", "exp") and e.args:
        arg = _fold_with_symbols(fd, e.args[0], symbols)
        from ..fold import Angle

        if isinstance(arg, Angle):
            return fd._trig(src(e.func).split(".")[-1], arg, e)
    return fd.fold(e)
