"""R-M  Small structural invariants of the compiler and of the per-component matrices."""

from __future__ import annotations

import ast

from ..index import FuncInfo, walk_no_nested
from ..report import Result
from ..source import AnalysisError, src


def _matmul(e):
    """-> (left, right) for A @ B, np.matmul(A,B), np.dot(A,B), A.dot(B)"""
    if isinstance(e, ast.BinOp) and isinstance(e.op, ast.MatMult):
        return e.left, e.right
    if isinstance(e, ast.Call):
        f = src(e.func)
        if f.split(".")[-1] in ("matmul", "dot") and len(e.args) == 2:
            return e.args[0], e.args[1]
        if isinstance(e.func, ast.Attribute) and e.func.attr == "dot" and len(e.args) == 1:
            return e.func.value, e.args[0]
    return None


def m1_left_multiplication(ctx, res: Result, fi: FuncInfo, acc="_unitary") -> None:
    """new accumulator = M(component) . old accumulator"""
    n = 0
    for a in walk_no_nested(fi.node):
        if isinstance(a, ast.Assign) and len(a.targets) == 1 and src(a.targets[0]) == f"self.{acc}":
            mm = _matmul(a.value)
            if mm is None:
                continue
            n += 1
            l, r = mm
            good = src(r) == f"self.{acc}" and "get_unitary" in src(l)
            res.add(good, "M1-left-multiplication", fi.qualname, fi.site(a), fi.qualname, "component matrix multiplies the accumulated unitary from the left (insertion order = product order)",
                    f"accumulator update `{src(a)[:120]}` is not M(component) @ accumulated: components would be applied in reverse order", construct=src(a)[:200])
    if n == 0:
        res.bad("M1-left-multiplication", fi.qualname, fi.site(), fi.qualname, "no matrix-product update of the accumulated unitary found", construct=fi.qualname)
    # group recursion in list order
    loops = [l for l in walk_no_nested(fi.node) if isinstance(l, ast.For) and "circuit_spec" in src(l.iter)]
    for l in loops:
        good = src(l.iter) in ("spec.circuit_spec",) or (isinstance(l.iter, ast.Attribute) and l.iter.attr == "circuit_spec")
        res.add(good, "M1-group-in-order", fi.qualname, fi.site(l), fi.qualname, "group members are compiled in list order", f"group members iterated as `{src(l.iter)}` (not in insertion order)", construct=src(l.iter))
    if not loops:
        res.bad("M1-group-in-order", fi.qualname, fi.site(), fi.qualname, "groups are not compiled (no iteration over circuit_spec)", construct=fi.qualname)


def m2_loss_shape(ctx, res: Result, fi: FuncInfo, circ_u: FuncInfo, total: FuncInfo) -> None:
    """exactly one extra mode per loss element; get_unitary sized n_modes + loss modes; U is the leading block"""
    incs = [a for a in walk_no_nested(fi.node) if isinstance(a, ast.AugAssign) and src(a.target) == "self._loss_modes"]
    ok = len(incs) == 1 and isinstance(incs[0].op, ast.Add) and src(incs[0].value) == "1"
    par = ctx.tree.parents(fi.rel)
    under_loss = False
    if incs:
        p = par.get(incs[0])
        under_loss = isinstance(p, ast.If) and "isinstance(spec, Loss)" in src(p.test) and incs[0] in p.body
    early = [r for r in walk_no_nested(fi.node) if isinstance(r, (ast.Return, ast.Continue, ast.Raise))]
    res.add(not early, "M2-every-component-compiled", fi.qualname, fi.site(early[0]) if early else fi.site(), fi.qualname, "no early exit: every Loss grows the unitary and every non-barrier component is multiplied in",
            f"`{src(early[0])[:60] if early else ''}` lets a component be skipped: U_full no longer has one extra mode per loss element / the component does not enter the product", construct=src(early[0])[:80] if early else "")
    res.add(ok and under_loss, "M2-one-mode-per-loss", fi.qualname, fi.site(incs[0]) if incs else fi.site(), fi.qualname, "loss-mode counter is incremented by exactly one, once, on the Loss branch",
            "loss-mode counter is not incremented by exactly one per Loss element", construct=src(incs[0]) if incs else fi.qualname)
    pads = [c for c in walk_no_nested(fi.node) if isinstance(c, ast.Call) and src(c.func).endswith("pad")]
    if not pads or not incs:
        raise AnalysisError(f"{fi.qualname}: loss-mode idiom (counter increment + np.pad) not recognised")
    okp = len(pads) == 1 and len(pads[0].args) >= 2 and src(pads[0].args[1]).replace(" ", "") in ("(0,1)", "((0,1),(0,1))", "[(0,1),(0,1)]")
    samebr = bool(pads) and bool(incs) and par.get(_stmt_of(par, pads[0])) is par.get(incs[0])
    res.add(okp and samebr, "M2-one-mode-per-loss", fi.qualname + ":pad", fi.site(pads[0]) if pads else fi.site(), fi.qualname, "accumulated unitary is padded by one row/column on the Loss branch",
            "accumulated unitary is not padded by exactly one row and column per Loss element", construct=src(pads[0]) if pads else fi.qualname)
    diag = [a for a in walk_no_nested(fi.node) if isinstance(a, ast.Assign) and src(a.targets[0]).replace(" ", "") == "self._unitary[-1,-1]"]
    res.add(len(diag) == 1 and src(diag[0].value).replace(" ", "") in ("1+0j", "1", "1.0", "1.0+0j", "1j*0+1"), "M2-one-mode-per-loss", fi.qualname + ":diag", fi.site(diag[0]) if diag else fi.site(), fi.qualname,
            "the new loss mode starts as an identity row/column", "new loss mode is not initialised to identity", construct=src(diag[0]) if diag else fi.qualname)
    gus = [c for c in walk_no_nested(fi.node) if isinstance(c, ast.Call) and isinstance(c.func, ast.Attribute) and c.func.attr == "get_unitary"]
    res.add(bool(gus) and all(len(c.args) == 1 and src(c.args[0]) == "self.total_modes" for c in gus), "M2-component-matrix-size", fi.qualname, fi.site(), fi.qualname,
            "component matrices are built for n_modes + loss modes", "component matrix size is not the total (real + loss) mode count", construct=";".join(src(c) for c in gus))
    rets = [r for r in walk_no_nested(total.node) if isinstance(r, ast.Return)]
    t = src(rets[0].value).replace(" ", "") if rets else ""
    res.add(t in ("self.n_modes+self.loss_modes", "self.loss_modes+self.n_modes", "self._n_modes+self._loss_modes", "self._loss_modes+self._n_modes"), "M2-component-matrix-size", total.qualname, total.site(), total.qualname,
            "total_modes = n_modes + loss_modes", f"total_modes is `{t}`", construct=t)
    rets = [r for r in walk_no_nested(circ_u.node) if isinstance(r, ast.Return)]
    t = src(rets[0].value).replace(" ", "") if rets else ""
    res.add(t.endswith("[:self.n_modes,:self.n_modes]") and "U_full" in t, "M2-U-leading-block", circ_u.qualname, circ_u.site(), circ_u.qualname, "U is the leading n_modes x n_modes block of U_full",
            f"U is `{t}`, not the leading block of U_full", construct=t)


def _stmt_of(par, n):
    while n is not None and not isinstance(n, ast.stmt):
        n = par.get(n)
    return n


def _index_pairs(fn: ast.FunctionDef, target="unitary"):
    """(branch-key, row, col) for every `unitary[r, c] = ...` store."""
    out = []
    par = {}
    for n in ast.walk(fn):
        for c in ast.iter_child_nodes(n):
            par[c] = n
    for a in walk_no_nested(fn):
        if isinstance(a, ast.Assign) and isinstance(a.targets[0], ast.Subscript) and src(a.targets[0].value) == target and isinstance(a.targets[0].slice, ast.Tuple) and len(a.targets[0].slice.elts) == 2:
            r, c = a.targets[0].slice.elts
            br = None
            p = par.get(a)
            if isinstance(p, ast.If):
                br = src(p.test) if a in p.body else "else:" + src(p.test)
            out.append((br, src(r), src(c), a))
    return out


def m3_block_coverage(ctx, res: Result, fi: FuncInfo, modes: list[str], extra: list[str] | None = None) -> None:
    """A component on modes S writes exactly S x S, each entry once (per convention branch)."""
    S = modes + (extra or [])
    want = {(a, b) for a in S for b in S}
    pairs = _index_pairs(fi.node)
    if not pairs:
        raise AnalysisError(f"{fi.qualname}: no unitary[r, c] stores found")
    branches: dict = {}
    for br, r, c, a in pairs:
        branches.setdefault(br, []).append((r, c, a))
    for br, lst in branches.items():
        got = [(r, c) for r, c, _ in lst]
        inst = f"{fi.qualname}:{br or 'body'}"
        dup = len(got) != len(set(got))
        if set(got) == want and not dup:
            res.ok("M3-block-coverage", inst, fi.site(lst[0][2]), fi.qualname, f"writes exactly the {len(want)} entries of its mode block, once each")
        else:
            res.bad("M3-block-coverage", inst, fi.site(lst[0][2]), fi.qualname,
                    f"entries written {sorted(got)} are not exactly the block {sorted(want)} (missing {sorted(want - set(got))}, duplicated={dup}): the component's matrix is not the documented one embedded on its modes",
                    construct=";".join(f"[{r},{c}]" for r, c in got))


def m3_slice_block(ctx, res: Result, fi: FuncInfo) -> None:
    stores = [a for a in walk_no_nested(fi.node) if isinstance(a, ast.Assign) and isinstance(a.targets[0], ast.Subscript) and src(a.targets[0].value) == "unitary"]
    ok = False
    why = "no sliced block store"
    for a in stores:
        sl = a.targets[0].slice
        if isinstance(sl, ast.Tuple) and len(sl.elts) == 2 and all(isinstance(x, ast.Slice) for x in sl.elts):
            r, c = sl.elts
            same = src(r) == src(c)
            lo = src(r.lower) if r.lower else ""
            hi = src(r.upper) if r.upper else ""
            good = same and lo == "self.mode" and hi.replace(" ", "") in ("self.mode+nm", "nm+self.mode", "self.mode+self.unitary.shape[0]")
            ok = good
            why = f"block slice rows `{src(r)}` cols `{src(c)}`"
    res.add(ok, "M3-block-coverage", fi.qualname, fi.site(), fi.qualname, "block is written at [mode : mode+n, mode : mode+n] on both axes", f"unitary block is not embedded on the same mode range on both axes: {why}", construct=why)


def m4_permutation_orientation(ctx, res: Result, fi: FuncInfo) -> None:
    """swaps k -> v is stored at [v, k] (rows = outputs, columns = inputs)."""
    found = False
    for lp in walk_no_nested(fi.node):
        if isinstance(lp, ast.For) and isinstance(lp.target, ast.Tuple) and len(lp.target.elts) == 2 and src(lp.iter).endswith(".items()"):
            k, v = (src(x) for x in lp.target.elts)
            for a in ast.walk(lp):
                if isinstance(a, ast.Assign) and isinstance(a.targets[0], ast.Subscript) and isinstance(a.targets[0].slice, ast.Tuple):
                    r, c = (src(x) for x in a.targets[0].slice.elts)
                    found = True
                    res.add((r, c) == (v, k), "M4-permutation-orientation", fi.qualname, fi.site(a), fi.qualname, "entry for initial mode k -> destination v is stored at [v, k]",
                            f"permutation entry stored at [{r}, {c}] for items ({k} -> {v}): the transpose (inverse permutation); invisible for involutive swaps only", construct=src(a))
    if not found:
        # comprehension / other construction: accept `permutation[dst, src]` forms only if recognisable
        raise AnalysisError(f"{fi.qualname}: permutation construction not recognised")
    fills = [lp for lp in walk_no_nested(fi.node) if isinstance(lp, ast.For) and "range(n_modes)" in src(lp.iter)]
    good = any("swaps.get(m, m)" in src(lp) or ".get(" in src(lp) for lp in fills)
    res.add(good, "M4-permutation-total", fi.qualname, fi.site(), fi.qualname, "modes absent from the swap dictionary map to themselves", "modes absent from the swap dictionary are not completed with the identity", construct=fi.qualname)


def m3_block_unitary(ctx, res: Result, fi: FuncInfo, symbols: dict) -> None:
    """The entries a component writes form a unitary block for every parameter value (polynomial
    identity M^dagger M = I over the generators; rules s^2 = 1 - c^2, b^2 = 1 - a^2)."""
    from ..fold import Angle, Folder, NotFoldable
    from ..poly import Poly, mdag, meq, meye, mmul

    c, s_ = Poly.gen("c"), Poly.gen("s")
    Poly.rules = {"s": Poly.const(1) - c * c, "b": Poly.const(1) - Poly.gen("a") * Poly.gen("a")}
    pairs = _index_pairs(fi.node)
    if not pairs:
        raise AnalysisError(f"{fi.qualname}: no unitary[r, c] stores found")
    branches: dict = {}
    for br, r, cc, a in pairs:
        branches.setdefault(br, []).append((r, cc, a))
    for br, lst in branches.items():
        idx = []
        for r, cc, _a in lst:
            for x in (r, cc):
                if x not in idx:
                    idx.append(x)
        fd = Folder(angle_names=tuple(k for k, v in symbols.items() if v == "angle" and "." not in k and " " not in k))
        for k, v in symbols.items():
            if v == "angle":
                fd.env[k] = Angle(2)  # the generators are cos/sin of the *whole* angle: theta = 2 * (theta/2)
        M = [[Poly.const(1 if i == j else 0) for j in range(len(idx))] for i in range(len(idx))]
        try:
            for r, cc, a in lst:
                val = _fold_with_symbols(fd, a.value, symbols)
                M[idx.index(r)][idx.index(cc)] = val
        except NotFoldable as e:
            raise AnalysisError(f"{fi.qualname}: matrix entry not foldable: {e}") from e
        ok = meq(mmul(mdag(M), M), meye(len(idx)))
        inst = f"{fi.qualname}:{br or 'body'}"
        res.add(ok, "M3-block-unitary", inst, fi.site(lst[0][2]), fi.qualname, "the written block is unitary for every parameter value",
                "the block this component writes is not unitary (M^dagger M != I as a polynomial identity): U_full of a circuit containing it is not unitary", construct=";".join(f"[{r},{cc}]={src(a.value)}" for r, cc, a in lst)[:300])


def _fold_with_symbols(fd, e, symbols):
    from ..fold import NotFoldable
    from ..poly import Poly

    s = src(e)
    for k, v in symbols.items():
        if v != "angle" and s.replace(" ", "") == k.replace(" ", ""):
            return Poly.gen(v)
    if isinstance(e, ast.Attribute) and src(e) in fd.env:
        return fd.env[src(e)]
    if isinstance(e, ast.BinOp):
        a, b = _fold_with_symbols(fd, e.left, symbols), _fold_with_symbols(fd, e.right, symbols)
        from ..fold import Angle

        if isinstance(a, Angle) or isinstance(b, Angle):
            return fd._angle_op(a, b, e.op, e)
        if isinstance(e.op, ast.Mult):
            return a * b
        if isinstance(e.op, ast.Add):
            return a + b
        if isinstance(e.op, ast.Sub):
            return a - b
        if isinstance(e.op, ast.Div):
            return a / b
        if isinstance(e.op, ast.Pow):
            return a ** b
        raise NotFoldable(src(e))
    if isinstance(e, ast.UnaryOp) and isinstance(e.op, ast.USub):
        return -_fold_with_symbols(fd, e.operand, symbols)
    if isinstance(e, ast.Call) and src(e.func).split(".")[-1] in ("cos", "sin", "exp") and e.args:
        arg = _fold_with_symbols(fd, e.args[0], symbols)
        from ..fold import Angle

        if isinstance(arg, Angle):
            return fd._trig(src(e.func).split(".")[-1], arg, e)
    return fd.fold(e)
