"""R-K  Constant tables: gate literals folded from source text and compared with reference matrices."""

from __future__ import annotations

import ast
import cmath
import math

from ..fold import Folder, NotFoldable, angle_ring, is_matrix
from ..index import ClassInfo, walk_no_nested
from ..poly import Poly, mat, meq, meye, mmul, mdag, proportional_unit_modulus
from ..source import AnalysisError, src

SQ = "lightworks/qubit/gates/single_qubit_gates.py"


def reference_gates():
    c, s = angle_ring()
    i = Poly.const(1j)
    r2 = 1 / math.sqrt(2)
    e4 = cmath.exp(1j * math.pi / 4)
    z = (c + i * s)
    zc = (c - i * s)
    return {
        "I": mat([[1, 0], [0, 1]]),
        "H": mat([[r2, r2], [r2, -r2]]),
        "X": mat([[0, 1], [1, 0]]),
        "Y": mat([[0, -1j], [1j, 0]]),
        "Z": mat([[1, 0], [0, -1]]),
        "S": mat([[1, 0], [0, 1j]]),
        "Sadj": mat([[1, 0], [0, -1j]]),
        "T": mat([[1, 0], [0, e4]]),
        "Tadj": mat([[1, 0], [0, e4.conjugate()]]),
        "SX": mat([[0.5 + 0.5j, 0.5 - 0.5j], [0.5 - 0.5j, 0.5 + 0.5j]]),
        "P": [[Poly.const(1), Poly.const(0)], [Poly.const(0), z * z]],
        "Rx": [[c, -i * s], [-i * s, c]],
        "Ry": [[c, -s], [s, c]],
        "Rz": [[zc, Poly.const(0)], [Poly.const(0), z]],
    }


class ParamRebound(NotFoldable):
    """the angle parameter is re-bound before the matrix is built"""


def gate_literal(ctx, ci: ClassInfo, arg_values=None, _depth=0):
    """Fold the matrix a single-qubit gate class hands to Unitary.__init__.  Helpers of the gate module are expanded,
    module-level constant tables are available, and `<Gate>(expr).U` folds the literal of that gate at `expr`."""
    from ..inline import with_helpers
    ini0 = ci.methods.get("__init__")
    if ini0 is None:
        raise AnalysisError(f"{ci.name}.__init__ not found")
    ini = with_helpers(ctx, ini0, only_private=True)
    sup = [c for c in walk_no_nested(ini.node) if isinstance(c, ast.Call) and src(c.func) == "super().__init__"]
    if not sup or not sup[0].args:
        raise AnalysisError(f"{ci.name}: super().__init__(unitary, label) not found")
    arg = sup[0].args[0]
    params = [p for p in ini0.params()[1:]]
    env_nodes = {}
    for a in walk_no_nested(ini.node):
        if isinstance(a, ast.Assign) and len(a.targets) == 1 and isinstance(a.targets[0], ast.Name):
            env_nodes.setdefault(a.targets[0].id, []).append(a.value)
    for p_ in params:
        if p_ in env_nodes:
            v_ = env_nodes[p_][0]
            fname_ = src(v_.func).split(".")[-1] if isinstance(v_, ast.Call) else ""
            if len(env_nodes[p_]) == 1 and fname_ in ("float", "float64", "asarray", "array") and len(v_.args) == 1 and src(v_.args[0]) == p_:
                del env_nodes[p_]  # a type conversion of the same value
            elif fname_ in ("round", "int", "floor", "ceil", "trunc", "rint", "around"):
                raise ParamRebound(f"parameter `{p_}` is re-bound to `{src(v_)[:40]}` before the matrix is built")
            else:
                raise NotFoldable(f"parameter `{p_}` is re-bound to `{src(v_)[:40]}`")
    mod = ci.module

    class GateFolder(Folder):
        def f_Attribute(self, e):
            if e.attr in ("U", "U_full") and isinstance(e.value, ast.Call) and isinstance(e.value.func, ast.Name) and e.value.func.id in mod.classes and _depth < 2:
                inner = mod.classes[e.value.func.id]
                vals = [self.fold(x) for x in e.value.args]
                return gate_literal(ctx, inner, vals, _depth + 1)[0]
            return super().f_Attribute(e)

    fd = GateFolder(angle_names=tuple(params) if arg_values is None else ())
    if arg_values is not None:
        for p_, v_ in zip(params, arg_values):
            fd.env[p_] = v_
    # module-level constant tables (e.g. a dictionary of generator matrices)
    plain = Folder(angle_names=())
    for name, vals in mod.assigns.items():
        if len(vals) == 1:
            try:
                fd.env.setdefault(name, plain.fold(vals[0]))
            except (NotFoldable, ValueError, ZeroDivisionError, AttributeError, TypeError):
                pass
    expr = arg
    for _ in range(4):
        if isinstance(expr, ast.Name) and expr.id in env_nodes:
            if len(env_nodes[expr.id]) != 1:
                raise NotFoldable(f"{expr.id} assigned more than once")
            expr = env_nodes[expr.id][0]
    # fold helper locals first (in source order)
    for a in sorted([x for x in walk_no_nested(ini.node) if isinstance(x, ast.Assign) and len(x.targets) == 1 and isinstance(x.targets[0], ast.Name)], key=lambda x: (x.lineno, x.col_offset)):
        name = a.targets[0].id
        if len(env_nodes[name]) == 1 and a.value is not expr:
            try:
                fd.env[name] = fd.fold(a.value)
            except NotFoldable:
                pass
    return fd.fold(expr), sup[0]


def single_qubit_gates(ctx, res, names=None) -> dict:
    ref = reference_gates()
    mod = ctx.ix.module(SQ)
    out = {}
    for name in (names or sorted(ref)):
        ci = mod.classes.get(name)
        if ci is None:
            res.bad("K-gate-literal", name, SQ, name, f"gate class {name} not found in the gate library", construct=name)
            continue
        from ..fold import SignLost
        try:
            m, node = gate_literal(ctx, ci)
        except ParamRebound as e:
            res.bad("K-gate-literal", name, f"{SQ}:{ci.node.lineno}", f"{name}.__init__", f"{e}: the gate implements {name} of the modified angle, not of the angle it was given (its label may still show the original)", construct=f"{name} parameter")
            continue
        except SignLost as e:
            res.bad("K-gate-literal", name, f"{SQ}:{ci.node.lineno}", f"{name}.__init__",
                    f"the matrix literal of {name} contains {e}: that is |cos| / |sin| of the half angle, so the signs of the entries are lost for angles beyond pi and the matrix is not proportional to {name}(theta) for every angle", construct=f"{name} literal")
            continue
        except (NotFoldable, ValueError, ZeroDivisionError, AnalysisError) as e:
            res.frozen(False, "K-gate-literal", name, f"{SQ}:{ci.node.lineno}", f"{name}.__init__", "", f"gate literal of {name} is not foldable: {e}", construct=f"{name} literal")
            continue
        if not is_matrix(m):
            res.frozen(False, "K-gate-literal", name, f"{SQ}:{ci.node.lineno}", f"{name}.__init__", "", f"gate literal of {name} did not fold to a matrix", construct=f"{name} literal")
            continue
        ok, why = proportional_unit_modulus(m, ref[name])
        out[name] = m
        res.add(ok, "K-gate-literal", name, f"{SQ}:{node.lineno}", f"{name}.__init__",
                f"literal is a unit-modulus multiple of the {name} matrix for every angle (polynomial identity in cos/sin of theta/2)",
                f"the matrix literal of {name} is not a unit-modulus multiple of the textbook {name} gate: {why}", construct=f"{name} literal")
    return out


# ------------------------------------------------------------------ module-level tables (tomography mappings)
class CircVal:
    """A 2-mode gate circuit folded to its matrix (model: Circuit(n) -> I_n, Unitary(M) -> M, c.add(g) -> g @ c)."""

    def __init__(self, m):
        self.m = m


def eval_module_tables(ctx, rel: str) -> dict:
    """Constant-fold the module-level statements of `rel` (assignments of literals, gate constructors,
    `x.add(gate)` sequences, dict tables)."""
    mod = ctx.ix.module(rel)
    sq = ctx.ix.module(SQ)
    lits: dict[str, list] = {}

    def gate(name):
        if name not in lits:
            ci = sq.classes.get(name)
            if ci is None:
                raise NotFoldable(f"gate class {name}")
            if len(ci.methods["__init__"].params()) != 1:
                raise NotFoldable(f"gate {name} takes parameters")
            lits[name] = gate_literal(ctx, ci)[0]
        return lits[name]

    def hook(fd, e):
        f = src(e.func)
        last = f.split(".")[-1]
        if last in sq.classes and not e.args and (f == last or f == "qubit." + last):
            return CircVal(gate(last))
        if last == "Circuit" and len(e.args) == 1:
            n = fd.fold(e.args[0])
            return CircVal(meye(int(n.value().real)))
        if last == "State" and len(e.args) == 1:
            v = fd.fold(e.args[0])
            return ("state", [x for x in v])
        return None

    angle_ring()
    fd = Folder(call_hook=hook, angle_names=())
    env = fd.env
    for st in mod.tree.body:
        try:
            if isinstance(st, (ast.Assign, ast.AnnAssign)):
                tgt = st.targets[0] if isinstance(st, ast.Assign) else st.target
                if isinstance(tgt, ast.Name) and st.value is not None:
                    env[tgt.id] = _fold_val(fd, st.value)
            elif isinstance(st, ast.Expr) and isinstance(st.value, ast.Call) and isinstance(st.value.func, ast.Attribute) and st.value.func.attr == "add" and isinstance(st.value.func.value, ast.Name):
                name = st.value.func.value.id
                if name in env and isinstance(env[name], CircVal):
                    args = st.value.args
                    if len(args) > 1 and src(args[1]) != "0":
                        raise NotFoldable("add at non-zero mode")
                    g = _fold_val(fd, args[0])
                    if not isinstance(g, CircVal):
                        raise NotFoldable("added value is not a gate")
                    env[name] = CircVal(mmul(g.m, env[name].m))
        except NotFoldable as e:
            tname = src(st)[:40]
            env.setdefault("__unfoldable__", []).append(f"{tname}: {e}")
    return env


def _fold_val(fd, e):
    if isinstance(e, ast.Dict):
        out = {}
        for k, v in zip(e.keys, e.values):
            kk = fd.fold(k)
            out[kk] = _fold_val(fd, v)
        return out
    if isinstance(e, ast.Tuple):
        return tuple(_fold_val(fd, x) for x in e.elts)
    if isinstance(e, ast.Name) and e.id in fd.env:
        return fd.env[e.id]
    return fd.fold(e)
