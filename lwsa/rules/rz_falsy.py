"""R-Z  `None` is the only "not given": truth-value tests must not stand in for `is None`.

Throughout this code base an optional argument is declared `T | None` and tested with `is None`; a dictionary
lookup that may miss is tested with `in` / `is None`.  A truth-value test (`x or default`, `if not x`, `if x`) of
such a value conflates "not given" with the legitimate values 0, 0.0, [], {} - mode 0, seed 0, zero photons, an
exactly-zero probability, an empty label list.  The expected count on the tree is zero; the sensitivity battery
keeps a positive example."""

from __future__ import annotations

import ast
import json
from pathlib import Path

from ..index import walk_no_nested
from ..report import Result
from ..source import src

EMULATOR_EXTRA = ["lightworks/sdk/circuit/compiler.py", "lightworks/sdk/utils/heralding_utils.py"]


def anchor_files(prop: str) -> list[str]:
    p = Path(__file__).resolve().parents[2] / "properties.jsonl"
    for line in p.read_text().splitlines():
        if line.strip():
            d = json.loads(line)
            if d["id"] == prop:
                return list(d["anchors"].get("files", []))
    return []


def _split(t):
    if isinstance(t, ast.BoolOp):
        for v in t.values:
            yield from _split(v)
    elif isinstance(t, ast.UnaryOp) and isinstance(t.op, ast.Not):
        yield from _split(t.operand)
    else:
        yield t


def truth_uses(fn):
    """expressions whose truth value is taken"""
    seen = set()
    for n in ast.walk(fn):
        tests = []
        if isinstance(n, (ast.If, ast.While, ast.IfExp)):
            tests = [n.test]
        elif isinstance(n, ast.BoolOp):
            tests = list(n.values)
        elif isinstance(n, ast.UnaryOp) and isinstance(n.op, ast.Not):
            tests = [n.operand]
        elif isinstance(n, ast.comprehension):
            tests = list(n.ifs)
        elif isinstance(n, ast.Assert):
            tests = [n.test]
        for t in tests:
            for e in _split(t):
                if id(e) not in seen:
                    seen.add(id(e))
                    yield e


def none_checks(ctx, res: Result, prop: str, extra_files=()) -> int:
    rels = set(anchor_files(prop)) | set(extra_files)
    n = 0
    for fi in ctx.ix.all_functions():
        if fi.rel not in rels:
            continue
        a = fi.node.args
        opt = {}
        for p_ in a.posonlyargs + a.args + a.kwonlyargs:
            ann = src(p_.annotation) if p_.annotation is not None else ""
            if "None" in ann or "Optional" in ann:
                opt[p_.arg] = ann
        rebound = {t.id for x in walk_no_nested(fi.node) if isinstance(x, ast.Assign) for t in x.targets if isinstance(t, ast.Name)}
        getlocals = {}
        for x in walk_no_nested(fi.node):
            if isinstance(x, ast.Assign) and len(x.targets) == 1 and isinstance(x.targets[0], ast.Name) and isinstance(x.value, ast.Call) and isinstance(x.value.func, ast.Attribute) and x.value.func.attr == "get" and len(x.value.args) == 1 and not x.value.keywords:
                getlocals[x.targets[0].id] = src(x.value)
        # locals bound to the result of a repository function declared to return `T | None`
        for x in walk_no_nested(fi.node):
            if isinstance(x, ast.Assign) and len(x.targets) == 1 and isinstance(x.targets[0], ast.Name) and isinstance(x.value, ast.Call):
                callee = None
                f_ = x.value.func
                if isinstance(f_, ast.Name):
                    r = ctx.ix.resolve(fi.module, f_.id)
                    if r and r[0] == "func":
                        callee = r[1]
                elif isinstance(f_, ast.Attribute) and isinstance(f_.value, ast.Name) and f_.value.id == "self" and fi.cls is not None:
                    callee = fi.cls.methods.get(f_.attr)
                if callee is not None and callee.node.returns is not None:
                    ra = src(callee.node.returns)
                    if ("None" in ra and ra.strip() != "None") or "Optional" in ra:
                        opt[x.targets[0].id] = f"{ra} (result of {callee.qualname})"
        n += 1
        bad = []
        for e in truth_uses(fi.node):
            if isinstance(e, ast.Name) and e.id in opt and not (e.id in rebound and e.id not in opt):
                bad.append((e, f"`{e.id}` is declared `{opt[e.id]}`: its truth value is tested where `is None` is meant, so a legitimate falsy value (0, 0.0, empty list/dict) is treated as 'not given'"))
            elif isinstance(e, ast.Name) and e.id in getlocals:
                bad.append((e, f"`{e.id}` holds `{getlocals[e.id]}`: its truth value is tested, so a stored value that is 0 / 0.0 / empty is treated like a missing key"))
            elif isinstance(e, ast.Call) and isinstance(e.func, ast.Attribute) and e.func.attr == "get" and len(e.args) == 1 and not e.keywords:
                bad.append((e, f"the truth value of `{src(e)}` is tested, so a stored value that is 0 / 0.0 / empty is treated like a missing key"))
        if bad:
            for e, why in bad:
                res.bad("Z-none-is-the-only-absent", f"{fi.qualname}:{src(e)[:40]}", fi.site(e), fi.qualname, why, construct=src(e)[:120])
        else:
            res.ok("Z-none-is-the-only-absent", fi.qualname, fi.site(), fi.qualname, "no truth-value test of an optional argument or a dictionary lookup")
    return n
