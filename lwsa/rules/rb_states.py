"""R-B  State-space qualifiers in the emulator.

Qualifier = (kind, space, side)
  kind : 'state' | 'states' (list of) | 'dist' (dict keyed by state) | 'mcount' | 'pcount' | 'hmap' | None
  space: 'VIS' (user-visible modes) | 'FULL' (heralds inserted, n_modes long) | 'PAD' (loss modes appended)
         | 'LOSS' | None
  side : 'IN' | 'OUT' | None
Unknown (None) never produces a report; the number of *resolved* sink checks has a floor.
"""

from __future__ import annotations

import ast

from ..index import FuncInfo, mangle
from ..report import Result
from ..source import AnalysisError, src

TOP = (None, None, None)


def Q(kind=None, space=None, side=None):
    return (kind, space, side)


def elem(q):
    k, s, d = q
    if k == "pcounts":
        return Q("pcount", s, d)
    return Q("state", s, d) if k in ("states", "dist") else TOP


ITERABLE = ("states", "dist", "pcounts")


SIM = "lightworks/emulator/simulation/simulator.py"
SAM = "lightworks/emulator/simulation/sampler.py"
QS = "lightworks/emulator/simulation/quick_sampler.py"
AN = "lightworks/emulator/simulation/analyzer.py"
BE = "lightworks/emulator/backend/backend.py"
PD = "lightworks/emulator/simulation/probability_distribution.py"

ORDER = [
    (BE, "Backend.probability_amplitude", None), (BE, "Backend.probability", None), (BE, "Backend.full_probability_distribution", None),
    (PD, "pdist_calc", None), (PD, "annotated_state_pdist_calc", None),
    (SIM, "Simulator._process_inputs", None), (SIM, "Simulator._process_outputs", None), (SIM, "Simulator.simulate", None),
    (SAM, "Sampler.probability_distribution", "getter"), (SAM, "Sampler.continuous_distribution", "getter"), (SAM, "Sampler.sample", None),
    (SAM, "Sampler.sample_N_inputs", None), (SAM, "Sampler.sample_N_outputs", None),
    (QS, "QuickSampler._calculate_probabiltiies", None), (QS, "QuickSampler.probability_distribution", "getter"),
    (QS, "QuickSampler.continuous_distribution", "getter"), (QS, "QuickSampler.sample", None), (QS, "QuickSampler.sample_N_outputs", None),
    (AN, "Analyzer.analyze", None), (AN, "Analyzer._process_inputs", None), (AN, "Analyzer._generate_outputs", None), (AN, "Analyzer._get_probs", None),
    (AN, "Analyzer._calculate_error_rate", None),
]
# public API parameter qualifiers (frozen from the documentation of the four objects)
PARAMQ0 = {
    "Simulator.simulate": {"inputs": Q("states", "VIS", "IN"), "outputs": Q("states", "VIS", "OUT")},
    "Analyzer.analyze": {"inputs": Q("states", "VIS", "IN")},
    "Backend.full_probability_distribution": {"input_state": Q("state", "FULL", "IN")},
    "Backend.probability_amplitude": {"input_state": Q("state", "PAD", "IN"), "output_state": Q("state", "PAD", "OUT")},
    "Backend.probability": {"input_state": Q("state", "PAD", "IN"), "output_state": Q("state", "PAD", "OUT")},
    "pdist_calc": {"inputs": Q("dist", "FULL", "IN")},
    "annotated_state_pdist_calc": {"inputs": Q("dist", "FULL", "IN")},
}
PUBLIC_SAMPLING = {"Sampler.sample", "QuickSampler.sample"}


def space_eq(a, b, lossless=False, noheralds=False):
    if a is None or b is None or a == b:
        return True
    if lossless and {a, b} == {"FULL", "PAD"}:
        return True
    if noheralds and {a, b} == {"VIS", "FULL"}:
        return True
    return False


class Analysis:
    def __init__(self, ctx, res: Result, only=None, rules=None):
        self.ctx, self.res = ctx, res
        self.only, self.rules = only, rules
        self.fns: dict[str, FuncInfo] = {}
        for rel, qn, kind in ORDER:
            self.fns[qn] = ctx.func(rel, qn, kind)
        self.paramq = {k: dict(v) for k, v in PARAMQ0.items()}
        self.fieldq: dict = {}
        self.retq: dict = {
            "Simulator._process_inputs": Q("states", "VIS", "IN"),
            "Simulator._process_outputs": (Q("states", "VIS", "IN"), Q("states", "VIS", "OUT")),
        }
        self.reports: list = []
        self.checks: list = []
        self.extra: list[str] = []  # private helpers of the anchored classes, discovered at their call sites

    def run(self):
        for rnd in range(3):
            self.reports, self.checks = [], []
            before = (repr(self.paramq), repr(self.fieldq), repr(self.retq))
            for qn in [q for _r, q, _k in ORDER]:
                fi = self.fns[qn]
                w = Walker(self, fi)
                w.run(fi.node.body)
                if qn in PUBLIC_SAMPLING:
                    for node, q in w.returns:
                        self.checks.append((fi, node, "B4-public-result-visible", f"{qn} returns {q[1] or '?'}"))
                        if q[1] not in ("VIS", None):
                            self.reports.append((fi, node, "B4-public-result-visible", f"sampling API returns a {q[1]}-space state: heralded (ancilla) modes are still included and the heralds were never checked"))
                if qn in ("Sampler.sample_N_inputs", "Sampler.sample_N_outputs", "QuickSampler.sample_N_outputs"):
                    for node, q, what in w.result_args:
                        self.checks.append((fi, node, "B4-public-result-visible", f"{what} {q[1] or '?'}"))
                        if q[1] not in ("VIS", None) and not w.noheralds_at.get(id(node), False):
                            self.reports.append((fi, node, "B4-public-result-visible", f"{what} is a {q[1]}-space state: results must be keyed by user-visible states"))
            after = (repr(self.paramq), repr(self.fieldq), repr(self.retq))
            if before == after and rnd > 0:
                break
        keep = lambda fi, rule: (self.only is None or any(fi.qualname.startswith(p) for p in self.only)) and (self.rules is None or rule in self.rules)
        self.reports = [r for r in self.reports if keep(r[0], r[2])]
        self.checks = [c for c in self.checks if keep(c[0], c[2])]
        seen = set()
        bad_nodes = set()
        for fi, node, rule, msg in self.reports:
            key = (id(node), rule, msg)
            if key in seen:
                continue
            seen.add(key)
            bad_nodes.add((id(node), rule))
            # the construct starts with a description of *what* is wrong (stable under rewrites of the statement), then the source
            self.res.bad(rule, f"{fi.qualname}:{src(node)[:50]}", fi.site(node), fi.qualname, msg, construct=(msg.split(":")[0][:90] + " :: " + src(node))[:300])
        seen = set()
        n = 0
        for fi, node, rule, what in self.checks:
            key = (id(node), rule)
            if key in seen:
                continue
            seen.add(key)
            n += 1
            if key not in bad_nodes:
                self.res.ok(rule, f"{fi.qualname}:{src(node)[:50]}", fi.site(node), fi.qualname, what)
        return n


def _ends(body) -> bool:
    return bool(body) and isinstance(body[-1], (ast.Return, ast.Raise, ast.Continue, ast.Break))


class Walker:
    def __init__(self, A: Analysis, fi: FuncInfo, env=None):
        self.A, self.fi = A, fi
        self.cls = fi.cls.name if fi.cls else None
        self.name = fi.qualname
        self.env = dict(A.paramq.get(self.name, {})) if env is None else env
        if env is None:
            for a_ in fi.node.args.args + fi.node.args.kwonlyargs:
                if a_.arg == "min_detection" and a_.arg not in self.env:
                    self.env[a_.arg] = Q("pcount", "VIS")  # a number of photons on the user-visible modes
        self.lossless = False
        self.noheralds = False
        self.returns: list = []
        self.result_args: list = []
        self.noheralds_at: dict = {}

    def child(self):
        w = Walker(self.A, self.fi, dict(self.env))
        w.lossless, w.noheralds = self.lossless, self.noheralds
        w.returns, w.result_args, w.noheralds_at = self.returns, self.result_args, self.noheralds_at
        return w

    def rep(self, node, rule, msg):
        self.A.reports.append((self.fi, node, rule, msg))

    def chk(self, node, rule, what):
        self.A.checks.append((self.fi, node, rule, what))

    def field(self, name):
        return (self.cls, mangle(self.cls, name))

    # ---- expression qualifier
    def q(self, e):
        if e is None:
            return TOP
        if isinstance(e, ast.Name):
            return self.env.get(e.id, TOP)
        if isinstance(e, ast.Attribute):
            base = src(e.value)
            if e.attr == "input_modes":
                return Q("mcount", "VIS")
            if e.attr == "n_modes" and base != "self":
                bq = self.q(e.value)
                if bq[0] == "state":
                    return Q("mcount", bq[1])
                return Q("mcount", "FULL")
            if e.attr == "total_modes":
                return Q("mcount", "PAD")
            if e.attr == "loss_modes":
                return Q("mcount", "LOSS")
            if e.attr == "n_photons":
                b = self.q(e.value)
                return Q("pcount", "FULL" if b[1] == "PAD" else b[1])
            if e.attr == "s":
                return self.q(e.value)
            if base == "self":
                if e.attr == "input_state":
                    return Q("state", "VIS", "IN")
                if e.attr in ("probability_distribution", "continuous_distribution"):
                    return self.A.retq.get(f"{self.cls}.probability_distribution", TOP)
                return self.A.fieldq.get(self.field(e.attr), TOP)
            return TOP
        if isinstance(e, ast.Subscript):
            s = src(e).replace("'", '"')
            if s.endswith('heralds["input"]'):
                return Q("hmap", "FULL", "IN")
            if s.endswith('heralds["output"]'):
                return Q("hmap", "FULL", "OUT")
            if isinstance(e.value, ast.Attribute) and src(e.value.value) == "self":
                fq = self.A.fieldq.get((self.cls, mangle(self.cls, e.value.attr) + "[]"))
                if fq:
                    return fq
            b = self.q(e.value)
            if isinstance(e.slice, ast.Slice):
                up = e.slice.upper
                if up is not None and e.slice.lower is None and self.q(up) == Q("mcount", "FULL") and b[0] == "state":
                    self.chk(e, "B1-marginalise-loss-modes", f"{b[1]} state sliced to n_modes")
                    if b[1] not in ("PAD", "FULL", None):
                        self.rep(e, "B1-marginalise-loss-modes", f"a {b[1]}-space state is sliced to n_modes")
                    return Q("state", "FULL", b[2])
                return b
            if b[0] == "states":
                return elem(b)
            return TOP
        if isinstance(e, ast.Call):
            return self.call(e)
        if isinstance(e, ast.BinOp) and isinstance(e.op, ast.Add):
            l, r = self.q(e.left), self.q(e.right)
            rs = src(e.right)
            if l[0] == "state" and "loss_modes" in rs and r[1] == "LOSS":
                self.chk(e, "B1-loss-padding", f"{l[1]} state padded")
                if l[1] not in ("FULL", None):
                    self.rep(e, "B1-loss-padding", f"loss padding applied to a {l[1]}-space state (heralds not inserted / already padded)")
                return Q("state", "PAD", l[2])
            if l[0] == "state" and r[0] == "state" and r[1] == "LOSS":
                return Q("state", "PAD", l[2])
            if l[0] == "states" and r[0] == "states":
                return l
            return l if l != TOP else r
        if isinstance(e, ast.BinOp) and isinstance(e.op, ast.Mult) and "loss_modes" in src(e) and isinstance(e.left, ast.List):
            return Q("state", "LOSS", None)
        if isinstance(e, ast.BinOp) and isinstance(e.op, ast.Mult) and isinstance(e.left, ast.List) and src(e.left) == "[0]":
            c = self.q(e.right)
            if c[0] == "mcount":
                return Q("state", c[1], None)
            return TOP
        if isinstance(e, ast.BinOp) and isinstance(e.op, ast.Sub):
            l, r = self.q(e.left), self.q(e.right)
            if l[0] == "pcount" and r[0] == "pcount":
                self.chk(e, "B5-counts-same-space", "photon-count difference")
                if l[1] and r[1] and l[1] != r[1]:
                    self.rep(e, "B5-counts-same-space", f"difference of a {l[1]} photon count and a {r[1]} photon count")
                return Q("pcount", "LOSS")
            return TOP
        if isinstance(e, ast.List):
            qs = [self.q(x) for x in e.elts]
            if qs and all(x[0] == "state" for x in qs):
                return Q("states", qs[0][1], qs[0][2])
            if qs and all(x[0] == "pcount" for x in qs) and len({x[1] for x in qs}) == 1:
                return Q("pcounts", qs[0][1], None)
            return TOP
        if isinstance(e, (ast.ListComp, ast.GeneratorExp)):
            w = self.child()
            itq = TOP
            for g in e.generators:
                itq = w.q(g.iter)
                w.bind(g.target, elem(itq) if itq[0] in ITERABLE else TOP)
                for c in g.ifs:
                    w.q(c)
            qe = w.q(e.elt)
            if qe[0] == "state":
                return Q("states", qe[1], qe[2])
            if isinstance(e.elt, ast.Call) and src(e.elt.func) in ("min", "max") and itq[0] == "state":
                return itq  # per-mode map keeps the space
            if itq[0] == "state":
                return itq if not isinstance(e.elt, ast.Name) else itq
            return TOP
        if isinstance(e, ast.DictComp):
            g = e.generators[0]
            w = self.child()
            itq = self.q(g.iter)
            w.bind(g.target, elem(itq) if itq[0] in ("states", "dist") else TOP)
            kq = w.q(e.key)
            w.q(e.value)
            if kq[0] == "state":
                return Q("dist", kq[1], kq[2])
            return TOP
        if isinstance(e, ast.Tuple):
            return tuple(self.q(x) for x in e.elts)
        if isinstance(e, ast.Compare):
            l = self.q(e.left)
            for c in e.comparators:
                r = self.q(c)
                if isinstance(l, tuple) and isinstance(r, tuple) and len(l) == 3 and len(r) == 3 and l[0] in ("mcount", "pcount") and r[0] == l[0]:
                    self.chk(e, "B5-counts-same-space", f"{l[1]} {l[0]} vs {r[1]} {r[0]}")
                    if l[1] and r[1] and not space_eq(l[1], r[1], self.lossless, self.noheralds):
                        self.rep(e, "B5-counts-same-space", f"compares a {l[1]}-space {'mode' if l[0] == 'mcount' else 'photon'} count with a {r[1]}-space one")
            return TOP
        if isinstance(e, ast.IfExp):
            self.q(e.test)
            a, b = self.q(e.body), self.q(e.orelse)
            return a if a != TOP else b
        for c in ast.iter_child_nodes(e):
            if isinstance(c, ast.expr):
                self.q(c)
        return TOP

    def call(self, e: ast.Call):
        f = e.func
        fname = src(f)
        last = fname.split(".")[-1]
        args = e.args
        if last == "add_heralds_to_state" and len(args) >= 2:
            s, h = self.q(args[0]), self.q(args[1])
            self.chk(e, "B3-herald-side", f"{s[1]}/{s[2]} state completed with {h[2]} heralds")
            if s[1] not in ("VIS", None):
                self.rep(e, "B3-herald-side", f"add_heralds_to_state applied to a {s[1]}-space state (heralds already present or loss modes appended)")
            if s[2] and h[2] and s[2] != h[2]:
                self.rep(e, "B3-herald-side", f"{'input' if s[2] == 'IN' else 'output'} state is completed with the circuit's {'input' if h[2] == 'IN' else 'output'} heralds")
            return Q("state", "FULL", s[2] or h[2])
        if last == "remove_heralds_from_state" and args:
            s = self.q(args[0])
            self.chk(e, "B3-herald-side", f"heralds removed from {s[1]} state")
            if s[1] not in ("FULL", None):
                self.rep(e, "B3-herald-side", f"remove_heralds_from_state applied to a {s[1]}-space state")
            return Q("state", "VIS", s[2])
        if last == "fock_basis" and len(args) >= 2:
            n, p = self.q(args[0]), self.q(args[1])
            self.chk(e, "B2-fock-basis-spaces", f"modes {n[1]}, photons {p[1]}")
            if n[1] and p[1] and n[1] != p[1] and not (n[1] == "PAD" and p[1] == "FULL") and p[0] == "pcount" and n[0] == "mcount":
                self.rep(e, "B2-fock-basis-spaces", f"fock_basis enumerates {n[1]}-space modes with a photon number counted in {p[1]} space (herald photons {'included' if p[1] == 'FULL' else 'missing'})")
            return Q("states", n[1], None)
        if fname == "range" and args:
            b = self.q(args[-1] if len(args) <= 2 else args[1])
            return Q("pcounts", b[1], None) if b[0] == "pcount" else TOP
        if fname == "len" and args:
            b = self.q(args[0])
            return Q("mcount", b[1]) if b[0] == "state" else TOP
        if fname == "sum" and args:
            b = self.q(args[0])
            return Q("pcount", "FULL" if b[1] == "PAD" else b[1]) if b[0] == "state" else TOP
        if fname in ("State", "list", "copy", "tuple") and args:
            return self.q(args[0])
        if last in ("probability_amplitude", "probability") or fname.endswith("Permanent.calculate"):
            if len(args) >= 3:
                i, o = self.q(args[1]), self.q(args[2])
                self.chk(e, "B1-backend-arguments", f"in {i[1]}/{i[2]} out {o[1]}/{o[2]}")
                for nm, v, side in (("input", i, "IN"), ("output", o, "OUT")):
                    if v[1] is not None and not space_eq(v[1], "PAD", self.lossless):
                        self.rep(e, "B1-backend-arguments", f"backend {nm} state is {v[1]}-space, the unitary needs the herald-completed, loss-padded state")
                    if v[2] is not None and v[2] != side:
                        self.rep(e, "B1-backend-arguments", f"backend {nm} argument is an {'input' if v[2] == 'IN' else 'output'}-side state (arguments swapped)")
            return TOP
        if fname.endswith("SLOS.calculate") and len(args) >= 2:
            i = self.q(args[1])
            self.chk(e, "B1-backend-arguments", f"slos input {i[1]}")
            if i[1] is not None and not space_eq(i[1], "PAD", self.lossless):
                self.rep(e, "B1-backend-arguments", f"SLOS input state is {i[1]}-space, needs the loss-padded full state")
            return Q("dist", "PAD", "OUT")
        if last == "validate" and ("post_sel" in fname) and args:
            s = self.q(args[0])
            self.chk(e, "B1-post-selection-visible", f"post-selection sees {s[1]}")
            if not space_eq(s[1], "VIS", noheralds=self.noheralds):
                self.rep(e, "B1-post-selection-visible", f"post-selection is evaluated on a {s[1]}-space state (mode indices of the rules refer to user-visible modes)")
            return TOP
        if last == "_get_output" and args:
            return self.q(args[0])
        if last == "full_probability_distribution":
            if len(args) >= 2:
                i = self.q(args[1])
                self.chk(e, "B1-backend-arguments", f"distribution input {i[1]}")
                if i[1] not in ("FULL", None):
                    self.rep(e, "B1-backend-arguments", f"full_probability_distribution receives a {i[1]}-space input")
            return Q("dist", "FULL", "OUT")
        if last == "pdist_calc":
            return Q("dist", "FULL", "OUT")
        if last == "_build_statistics" and args:
            return Q("dist", self.q(args[0])[1], "IN")
        if last in ("SamplingResult",) and args:
            return TOP
        if isinstance(f, ast.Attribute) and src(f.value) == "self" and self.cls and f"{self.cls}.{f.attr}" not in self.A.fns and self.fi.cls is not None and f.attr in self.fi.cls.methods and f.attr.startswith("_") and not f.attr.startswith("__"):
            # a private helper extracted from an anchored method: analysed like one, parameters typed at the call site
            self.A.fns[f"{self.cls}.{f.attr}"] = self.fi.cls.methods[f.attr]
            self.A.extra.append(f"{self.cls}.{f.attr}")
        if isinstance(f, ast.Attribute) and src(f.value) == "self" and f"{self.cls}.{f.attr}" in self.A.extra and getattr(self, "_depth", 0) < 3:
            # discovered helper: analysed in the context of this call (its parameters carry the qualifiers of *these*
            # arguments, its result is the join of its returns) - one helper may serve inputs at one site and outputs at another
            callee = f"{self.cls}.{f.attr}"
            hfi = self.A.fns[callee]
            params = [a.arg for a in hfi.node.args.args if a.arg != "self"]
            env2 = {}
            for pn, a in list(zip(params, args)) + [(k.arg, k.value) for k in e.keywords if k.arg]:
                qa = self.q(a)
                if qa != TOP:
                    env2[pn] = qa
            w = Walker(self.A, hfi, env2)
            w._depth = getattr(self, "_depth", 0) + 1
            w.lossless, w.noheralds = self.lossless, self.noheralds
            for a_ in hfi.node.args.args + hfi.node.args.kwonlyargs:
                if a_.arg == "min_detection" and a_.arg not in w.env:
                    w.env[a_.arg] = Q("pcount", "VIS")
            saved = self.A.retq.get(callee)
            self.A.retq.pop(callee, None)
            w.run(hfi.node.body)
            out = self.A.retq.get(callee, TOP)
            if saved is not None:
                self.A.retq[callee] = saved
            else:
                self.A.retq.pop(callee, None)
            return out
        if isinstance(f, ast.Attribute) and src(f.value) == "self" and f"{self.cls}.{f.attr}" in self.A.fns:
            callee = f"{self.cls}.{f.attr}"
            params = [a.arg for a in self.A.fns[callee].node.args.args if a.arg != "self"]
            for pn, a in zip(params, args):
                qa = self.q(a)
                if qa != TOP:
                    self.A.paramq.setdefault(callee, {})[pn] = qa
            return self.A.retq.get(callee, TOP)
        if isinstance(f, ast.Attribute) and f.attr in ("items", "keys", "values"):
            return self.q(f.value)
        if isinstance(f, ast.Attribute) and f.attr == "append" and args:
            qa = self.q(args[0])
            if isinstance(f.value, ast.Name) and qa[0] == "state":
                old = self.env.get(f.value.id, TOP)
                self.env[f.value.id] = Q("states", qa[1], qa[2]) if old == TOP or old[0] != "states" else old
                self.result_args.append((e, qa, f"state appended to `{f.value.id}`"))
                self.noheralds_at[id(e)] = self.noheralds
            return TOP
        if last in ("choice", "choices", "permutation", "shuffle") and args:
            return self.q(args[0])  # drawing from a collection of states gives states of the same space
        if fname == "enumerate" and args:
            return self.q(args[0])
        if fname in ("dict", "Counter") and args:
            return self.q(args[0])
        for a in args:
            self.q(a)
        for k in e.keywords:
            self.q(k.value)
        return TOP

    def shortcut_guard(self, s: ast.If):
        """`if X.n_photons == 0: dist = {State([0] * N): 1}`: the photon count must be counted in the
        space of N (a vacuum *visible* input still carries the herald photons)."""
        t = s.test
        if not (isinstance(t, ast.Compare) and len(t.ops) == 1 and isinstance(t.ops[0], ast.Eq) and src(t.comparators[0]) == "0"):
            return
        pq = self.q(t.left)
        if pq[0] != "pcount":
            return
        short = any(isinstance(x, (ast.Continue, ast.Return, ast.Break)) for b in s.body for x in ast.walk(b))
        if short and not any(isinstance(x, ast.Raise) for b in s.body for x in ast.walk(b)):
            self.chk(s, "B6-shortcut-guard-space", f"zero-photon shortcut on a {pq[1]} count")
            if pq[1] == "VIS" and not self.noheralds:
                self.rep(s, "B6-shortcut-guard-space", "a computation is short-cut when the *visible* input holds no photon, but herald photons are inserted afterwards: for a circuit whose heralds carry photons the vacuum input still has non-trivial amplitudes")
        for b in s.body:
            for d in ast.walk(b):
                if isinstance(d, ast.Dict) and len(d.keys) == 1 and isinstance(d.keys[0], ast.Call) and src(d.keys[0].func) == "State":
                    a = d.keys[0].args[0] if d.keys[0].args else None
                    if isinstance(a, ast.BinOp) and isinstance(a.op, ast.Mult) and src(a.left) == "[0]":
                        mq = self.q(a.right)
                        self.chk(s, "B6-shortcut-guard-space", f"vacuum shortcut: photons {pq[1]}, modes {mq[1]}")
                        if pq[1] and mq[1] and not space_eq(pq[1], mq[1], self.lossless, self.noheralds):
                            self.rep(s, "B6-shortcut-guard-space", f"the vacuum-distribution shortcut over {mq[1]}-space modes is taken when a {pq[1]}-space photon count is zero: herald photons are not counted, so a circuit whose heralds carry photons reports the vacuum with certainty")

    def bind(self, target, q):
        if isinstance(target, ast.Subscript) and src(target.value).startswith("self.") and isinstance(target.value, ast.Attribute):
            self.A.fieldq[(self.cls, mangle(self.cls, target.value.attr) + "[]")] = q
            return
        if isinstance(target, ast.Subscript) and isinstance(target.value, ast.Name):
            kq = self.q(target.slice)
            if kq[0] == "state":
                self.env[target.value.id] = Q("dist", kq[1], kq[2])
                self.result_args.append((target, kq, f"key stored in `{target.value.id}`"))
                self.noheralds_at[id(target)] = self.noheralds
            elif isinstance(q, tuple) and len(q) == 3 and q[0] == "state":
                self.env[target.value.id] = Q("states", q[1], q[2])  # array / list of states filled by position
            return
        if isinstance(target, ast.Name):
            self.env[target.id] = q
        elif isinstance(target, ast.Tuple):
            if isinstance(q, tuple) and len(q) == len(target.elts) and all(isinstance(x, tuple) for x in q):
                for t, x in zip(target.elts, q):
                    self.bind(t, x)
            elif len(target.elts) == 2:
                self.bind(target.elts[0], q if q[0] == "state" else TOP)
                self.bind(target.elts[1], q if q[0] == "state" else TOP)
        elif isinstance(target, ast.Attribute) and src(target.value) == "self":
            self.A.fieldq[self.field(target.attr)] = q

    def run(self, stmts):
        for i, s in enumerate(stmts):
            if isinstance(s, ast.If) and not s.orelse and _ends(s.body) and stmts[i + 1:]:
                # `if T: ...; return` followed by the rest == `if T: ... else: rest` (path-aware)
                syn = ast.If(test=s.test, body=s.body, orelse=list(stmts[i + 1:]))
                ast.copy_location(syn, s)
                self.run([syn])
                return
            if isinstance(s, ast.Assign):
                q = self.q(s.value)
                for t in s.targets:
                    self.bind(t, q)
            elif isinstance(s, ast.AnnAssign):
                if s.value is not None:
                    self.bind(s.target, self.q(s.value))
            elif isinstance(s, ast.AugAssign):
                rs = src(s.value)
                if isinstance(s.target, ast.Name):
                    l = self.env.get(s.target.id, TOP)
                    v = self.q(s.value)
                    if l[0] == "state" and "loss_modes" in rs and v[1] == "LOSS":
                        self.chk(s, "B1-loss-padding", f"{l[1]} state padded")
                        if l[1] not in ("FULL", None):
                            self.rep(s, "B1-loss-padding", f"loss padding applied to a {l[1]}-space state")
                        self.env[s.target.id] = Q("state", "PAD", l[2])
                    elif l[0] == "states" or (l == TOP and v[0] == "states"):
                        self.env[s.target.id] = v if l == TOP else l
                else:
                    self.q(s.value)
            elif isinstance(s, ast.For):
                for _pass in range(2):
                    it = self.q(s.iter)
                    its = src(s.iter)
                    if its.startswith("enumerate(") and isinstance(s.target, ast.Tuple):
                        self.bind(s.target.elts[1], elem(it) if it[0] in ("states", "dist") else TOP)
                    elif ".items()" in its and it[0] == "dist" and isinstance(s.target, ast.Tuple):
                        self.bind(s.target.elts[0], elem(it))
                    else:
                        self.bind(s.target, elem(it) if it[0] in ITERABLE else TOP)
                    self.run(s.body)
                self.run(s.orelse)
            elif isinstance(s, ast.If):
                self.q(s.test)
                ts = src(s.test)
                self.shortcut_guard(s)
                w1, w2 = self.child(), self.child()
                if ts.startswith("not ") and ts.endswith("loss_modes"):
                    w1.lossless = True
                if ts.strip() == "heralds" or ts.strip().endswith("heralds"):
                    w2.noheralds = True
                w1.run(s.body)
                w2.run(s.orelse)
                if w2.noheralds:
                    for k, v in list(w2.env.items()):
                        if v != self.env.get(k) and isinstance(v, tuple) and len(v) == 3 and v[0] == "state" and v[1] == "FULL":
                            w2.env[k] = Q("state", "VIS", v[2])
                if _ends(s.body) and s.orelse:
                    w1.env = dict(w2.env)
                elif s.orelse and _ends(s.orelse):
                    w2.env = dict(w1.env)
                for k in set(w1.env) | set(w2.env):
                    a, b = w1.env.get(k, TOP), w2.env.get(k, TOP)
                    self.env[k] = a if a == b or b == TOP or (w2.noheralds and a[0] == b[0]) else (b if a == TOP else a)
            elif isinstance(s, ast.Return):
                q = self.q(s.value)
                if q != TOP:
                    old_q = self.A.retq.get(self.name)
                    # `return x + loss padding` on one path and `return x` on the loss-free path: the padded space stands for both
                    if not (isinstance(old_q, tuple) and len(old_q) == 3 and old_q[1] == "PAD" and isinstance(q, tuple) and len(q) == 3 and q[0] == old_q[0] and q[1] == "FULL"):
                        self.A.retq[self.name] = q
                self.returns.append((s, q if isinstance(q, tuple) and len(q) == 3 and not isinstance(q[0], tuple) else TOP))
            elif isinstance(s, ast.Expr):
                self.q(s.value)
            elif isinstance(s, ast.Try):
                self.run(s.body)
                for h in s.handlers:
                    self.run(h.body)
            elif isinstance(s, ast.While):
                self.q(s.test)
                self.run(s.body)


def run(ctx, res: Result, only=None, rules=None) -> int:
    return Analysis(ctx, res, only, rules).run()
