"""R-F cache coherence for the long-lived sampler objects and F3 for Analyzer.analyze."""

from __future__ import annotations

import ast

from ..index import ClassInfo, FuncInfo, mangle, walk_no_nested
from ..must import MustWalk, meet
from ..report import Result
from ..source import AnalysisError, src

ALL = "<all>"


def _self_attr(e, cls_name) -> str | None:
    if isinstance(e, ast.Attribute) and isinstance(e.value, ast.Name) and e.value.id == "self":
        return mangle(cls_name, e.attr)
    return None


def _self_call(e) -> str | None:
    """self.m(...) -> 'm'"""
    if isinstance(e, ast.Call) and isinstance(e.func, ast.Attribute) and isinstance(e.func.value, ast.Name) and e.func.value.id == "self":
        return e.func.attr
    return None


def _strip_not(t):
    neg = False
    while isinstance(t, ast.UnaryOp) and isinstance(t.op, ast.Not):
        neg = not neg
        t = t.operand
    return t, neg


class CacheModel:
    def __init__(self, ctx, ci: ClassInfo):
        self.ctx, self.ci = ctx, ci
        cn = ci.name
        funcs = list(ci.all_funcs())
        # snapshot field S: stored from self.G() ; predicate P reads S and calls G
        cands = []
        for fi in funcs:
            for n in walk_no_nested(fi.node):
                if isinstance(n, ast.Assign) and len(n.targets) == 1:
                    f = _self_attr(n.targets[0], cn)
                    g = _self_call(n.value)
                    if f and g and g in ci.methods:
                        cands.append((f, g, fi))
        found = None
        for f, g, where in cands:
            for p in ci.methods.values():
                calls_g = any(_self_call(n) == g for n in walk_no_nested(p.node))
                reads_f = any(_self_attr(n, cn) == f and isinstance(n.ctx, ast.Load) for n in walk_no_nested(p.node) if isinstance(n, ast.Attribute))
                rets = [n for n in walk_no_nested(p.node) if isinstance(n, ast.Return)]
                def _boolish(v):
                    return (isinstance(v, ast.Constant) and isinstance(v.value, bool)) or isinstance(v, (ast.Compare, ast.BoolOp)) or (isinstance(v, ast.UnaryOp) and isinstance(v.op, ast.Not)) or (isinstance(v, ast.Call) and src(v.func) in ("any", "all", "bool"))
                boolish = rets and (all(_boolish(r.value) for r in rets) or (p.node.returns is not None and src(p.node.returns) == "bool"))
                if calls_g and reads_f and boolish and p.name != g:
                    found = (f, ci.methods[g], p)
        if not found:
            raise AnalysisError(f"{cn}: staleness predicate / snapshot function not found (cache anchor vanished)")
        self.snapfield, self.snapfn, self.pred = found
        # refresh branches: if [not] self.P():
        self.refresh_ifs: list[tuple[FuncInfo, ast.If, bool]] = []
        for fi in funcs:
            for n in walk_no_nested(fi.node):
                if isinstance(n, ast.If):
                    t, neg = _strip_not(n.test)
                    if _self_call(t) == self.pred.name:
                        self.refresh_ifs.append((fi, n, neg))
        if not self.refresh_ifs:
            raise AnalysisError(f"{cn}: no refresh branch guarded by {self.pred.name}() found")
        self.cache_fields: set[str] = set()
        self.refresh_funcs = []
        self._bodies: dict[int, list] = {}
        for fi, n, neg in self.refresh_ifs:
            body = self.refresh_body(fi, n, neg)
            stored = set()
            for st in body:
                for m in ast.walk(st):
                    if isinstance(m, (ast.Assign, ast.AnnAssign)):
                        for t in (m.targets if isinstance(m, ast.Assign) else [m.target]):
                            f = _self_attr(t, cn)
                            if f:
                                stored.add(f)
            if self.snapfield in stored:
                self.cache_fields |= stored
                self.refresh_funcs.append(fi)
        if not self.refresh_funcs:
            raise AnalysisError(f"{cn}: no branch stores the snapshot field {self.snapfield}")
        self.exempt_funcs = {self.pred.name, self.snapfn.name}


def _following(fn, target):
    """statements after `target` in the statement list that holds it"""
    for x in ast.walk(fn):
        for fld in ("body", "orelse", "finalbody"):
            b = getattr(x, fld, None)
            if isinstance(b, list) and target in b:
                return b[b.index(target) + 1:]
    return []


def _refresh_body(self, fi, n, neg):
    """statements executed when the predicate reports 'stale': the guarded branch, or - for the early-return form
    `if not stale: return cached` - the statements that follow the guard"""
    k = id(n)
    if k not in self._bodies:
        stale_side = n.orelse if neg else n.body
        other = n.body if neg else n.orelse
        if not stale_side and other and isinstance(other[-1], (ast.Return, ast.Raise)):
            stale_side = _following(fi.node, n)
        self._bodies[k] = stale_side
    return self._bodies[k]


CacheModel.refresh_body = _refresh_body


class Validity(MustWalk):
    """facts = cache fields known to be valid (refreshed for the current configuration)."""

    def __init__(self, model: CacheModel, fi: FuncInfo, ensures, reads_out: list, call_states: dict):
        super().__init__(fi.node)
        self.m, self.fi = model, fi
        self.ensures = ensures
        self.reads_out = reads_out
        self.call_states = call_states
        self.cn = model.ci.name

    def branch(self, test, st):
        t, neg = _strip_not(test)
        if _self_call(t) == self.m.pred.name:
            stale, valid = frozenset(), frozenset(self.m.cache_fields)
            return (valid, stale) if neg else (stale, valid)
        return st, st

    def event(self, role, node, st):
        if role == "store":
            f = _self_attr(node, self.cn)
            if f in self.m.cache_fields:
                return st | {f}
            return st
        if role == "load" and isinstance(node, ast.Attribute):
            f = _self_attr(node, self.cn)
            if f in self.m.cache_fields:
                self.reads_out.append((self.fi, node, f, f in st))
                return st
            # property of self evaluated: apply its ensures
            if isinstance(node.value, ast.Name) and node.value.id == "self" and node.attr in self.m.ci.getters:
                g = self.m.ci.getters[node.attr]
                self.call_states.setdefault(id(g.node), []).append(st)
                return st | self.ensures(g)
            return st
        if role == "call":
            name = _self_call(node)
            if name and name in self.m.ci.methods:
                g = self.m.ci.methods[name]
                self.call_states.setdefault(id(g.node), []).append(st)
                return st | self.ensures(g)
            # hasattr(self, "_K__f") is a read-free existence test
        return st


def analyse_class(ctx, ci: ClassInfo):
    model = CacheModel(ctx, ci)
    funcs = [f for f in ci.all_funcs()]
    ens_memo: dict[int, frozenset] = {}
    in_prog: set[int] = set()
    entry: dict[int, frozenset] = {}

    def ensures(g: FuncInfo) -> frozenset:
        k = id(g.node)
        if k in ens_memo:
            return ens_memo[k]
        if k in in_prog:
            return frozenset()
        in_prog.add(k)
        out = Validity(model, g, ensures, [], {}).run(frozenset())
        in_prog.discard(k)
        ens_memo[k] = out if out is not None else frozenset(model.cache_fields)
        return ens_memo[k]

    reads: list = []
    for _round in range(4):
        reads = []
        call_states: dict[int, list] = {}
        for fi in funcs:
            if fi.name in model.exempt_funcs:
                continue
            Validity(model, fi, ensures, reads, call_states).run(entry.get(id(fi.node), frozenset()))
        new_entry = {}
        for fi in funcs:
            if fi.name.startswith("_") and not fi.name.startswith("__") and fi.kind == "method":
                sts = call_states.get(id(fi.node))
                if sts:
                    e = None
                    for s in sts:
                        e = meet(e, s)
                    new_entry[id(fi.node)] = e or frozenset()
        if new_entry == entry:
            break
        entry = new_entry
    return model, reads


def f1_f4(ctx, res: Result, ci: ClassInfo) -> CacheModel:
    model, reads = analyse_class(ctx, ci)
    cn = ci.name
    seen = set()
    for fi, node, f, ok in reads:
        key = (id(node))
        if key in seen:
            continue
        seen.add(key)
        inst = f"{fi.qualname}:{f}"
        if ok:
            res.ok("F1-read-after-refresh", inst, fi.site(node), fi.qualname, "read is dominated by the staleness-checked refresh on every path")
        else:
            res.bad("F1-read-after-refresh", inst, fi.site(node), fi.qualname,
                    f"cached field {f} is read on a path that does not first pass the staleness check / refresh ({model.pred.name}): a stale or missing value is used after a reconfiguration or on a fresh object",
                    construct=f"{fi.qualname} reads self.{f} unguarded")
    res.count("cache_reads", len(seen))
    # F4: rebinding of cache fields only inside refresh branches (or __init__)
    inside = set()
    for fi, n, neg in model.refresh_ifs:
        for st in model.refresh_body(fi, n, neg):
            for m in ast.walk(st):
                inside.add(id(m))
    nstores = 0
    for fi in ci.all_funcs():
        if fi.name == "__init__":
            continue
        for n in walk_no_nested(fi.node):
            tgts = []
            if isinstance(n, ast.Assign):
                tgts = n.targets
            elif isinstance(n, (ast.AugAssign, ast.AnnAssign)):
                tgts = [n.target]
            elif isinstance(n, ast.Call) and isinstance(n.func, ast.Name) and n.func.id == "setattr" and len(n.args) >= 2 and isinstance(n.args[0], ast.Name) and n.args[0].id == "self" and isinstance(n.args[1], ast.Constant):
                if n.args[1].value in model.cache_fields:
                    nstores += 1
                    if id(n) not in inside:
                        res.bad("F4-cache-write-only-in-refresh", f"{fi.qualname}:{n.args[1].value}", fi.site(n), fi.qualname, "cache field rebound outside the refresh branch", construct=src(n)[:200])
                continue
            for t in tgts:
                f = _self_attr(t, cn)
                if f in model.cache_fields:
                    nstores += 1
                    if id(n) in inside:
                        res.ok("F4-cache-write-only-in-refresh", f"{fi.qualname}:{f}", fi.site(n), fi.qualname, "assigned inside the staleness-guarded refresh branch")
                    else:
                        res.bad("F4-cache-write-only-in-refresh", f"{fi.qualname}:{f}", fi.site(n), fi.qualname,
                                f"cached field {f} is re-assigned outside the refresh branch: what the object reports afterwards depends on which methods were called before",
                                construct=src(n)[:300])
    res.count("cache_stores", nstores)
    # F4d: a field assigned inside the refresh branch is assigned on every path through it.  A field that is only
    # refreshed under a further condition keeps, on the other paths, a value computed for an earlier configuration
    # while its siblings are new - unless that condition covers everything the value depends on, which a nested
    # staleness sub-test over *part* of the snapshot does not.
    def _stores(st):
        out = set()
        for m in ast.walk(st):
            if isinstance(m, (ast.Assign, ast.AnnAssign)):
                for t in (m.targets if isinstance(m, ast.Assign) else [m.target]):
                    f = _self_attr(t, cn)
                    if f:
                        out.add(f)
        return out

    def _must(stmts):
        must = set()
        for st in stmts:
            if isinstance(st, ast.If):
                b_ends = bool(st.body) and isinstance(st.body[-1], ast.Raise)
                e_ends = bool(st.orelse) and isinstance(st.orelse[-1], ast.Raise)
                mb, me = _must(st.body), _must(st.orelse)
                if b_ends:
                    must |= me
                elif e_ends:
                    must |= mb
                else:
                    must |= (mb & me)
            elif isinstance(st, (ast.For, ast.While)):
                continue
            elif isinstance(st, ast.Try):
                must |= _must(st.body)
            elif isinstance(st, ast.With):
                must |= _must(st.body)
            else:
                must |= _stores(st)
        return must

    for fi, n, neg in model.refresh_ifs:
        body = model.refresh_body(fi, n, neg)
        may = set()
        for st in body:
            may |= _stores(st)
        if model.snapfield not in may:
            continue
        must = _must(body)
        for f in sorted(may - must):
            site = next((m for st in body for m in ast.walk(st) if isinstance(m, (ast.Assign, ast.AnnAssign)) and any(_self_attr(t, cn) == f for t in (m.targets if isinstance(m, ast.Assign) else [m.target]))), n)
            res.bad("F4-cache-refreshed-on-every-path", f"{fi.qualname}:{f}", fi.site(site), fi.qualname,
                    f"field {f} is assigned inside the refresh branch only under a further condition: when that condition is false the refresh completes (the snapshot is updated) but {f} keeps the value computed for an earlier configuration",
                    construct=src(site)[:200])
        for f in sorted(must & may):
            res.ok("F4-cache-refreshed-on-every-path", f"{fi.qualname}:{f}", fi.site(n), fi.qualname, "assigned on every path through the refresh branch")
    # F4b: every other private field written after construction is a configuration slot (assigned in its
    # property setter from the setter's parameter); anything else is state that depends on call history
    slots = _slots(ci)
    for fi in ci.all_funcs():
        if fi.name == "__init__":
            continue
        for n in walk_no_nested(fi.node):
            if not isinstance(n, (ast.Assign, ast.AugAssign, ast.AnnAssign)):
                continue
            tgts = n.targets if isinstance(n, ast.Assign) else [n.target]
            for t in tgts:
                f = _self_attr(t, cn)
                if not f or f in model.cache_fields or not f.startswith("_" + cn.lstrip("_") + "__"):
                    continue
                is_slot = False
                if fi.kind == "setter" and slots.get(fi.name) == f and isinstance(n, (ast.Assign, ast.AnnAssign)) and n.value is not None:
                    pname = fi.params()[1] if len(fi.params()) > 1 else None
                    names = {x.id for x in ast.walk(n.value) if isinstance(x, ast.Name)}
                    is_slot = pname in names
                inst = f"{fi.qualname}{'[setter]' if fi.kind == 'setter' else ''}:{f}"
                if is_slot:
                    res.ok("F4-cache-write-only-in-refresh", inst, fi.site(n), fi.qualname, "configuration slot assigned from the setter's argument")
                elif id(n) in inside:
                    res.ok("F4-cache-write-only-in-refresh", inst, fi.site(n), fi.qualname, "assigned inside the refresh branch")
                else:
                    res.bad("F4-cache-write-only-in-refresh", inst, fi.site(n), fi.qualname,
                            f"private field {f} is (re)assigned outside the staleness-guarded refresh and is not a configuration slot: derived state that is not recomputed when the configuration snapshot changes makes results depend on call history",
                            construct=src(n)[:200])
    # F4c: a private field that is filled in place after construction (memo tables) must be one of
    # the cache fields, i.e. be re-created whenever the configuration snapshot changes
    for fi in ci.all_funcs():
        if fi.name == "__init__":
            continue
        for n in walk_no_nested(fi.node):
            f = None
            if isinstance(n, (ast.Assign, ast.AugAssign)):
                t = n.targets[0] if isinstance(n, ast.Assign) else n.target
                if isinstance(t, ast.Subscript):
                    f = _self_attr(t.value, cn)
            elif isinstance(n, ast.Call) and isinstance(n.func, ast.Attribute) and n.func.attr in ("append", "extend", "update", "add", "setdefault", "pop", "clear", "insert", "remove"):
                f = _self_attr(n.func.value, cn)
            if not f or not f.startswith("_" + cn.lstrip("_") + "__"):
                continue
            inst = f"{fi.qualname}:{f}[...]"
            if f in model.cache_fields:
                res.ok("F4-cache-write-only-in-refresh", inst, fi.site(n), fi.qualname, "memo table is one of the fields re-created by the refresh")
            else:
                res.bad("F4-cache-write-only-in-refresh", inst, fi.site(n), fi.qualname,
                        f"private field {f} is filled in place here but is not re-created by the staleness-guarded refresh: entries computed for an earlier configuration (e.g. other heralds) survive a reconfiguration",
                        construct=src(n)[:200])
    # F6: the snapshot is the commit point of the refresh: nothing that may raise follows it in the branch
    for fi, n, neg in model.refresh_ifs:
        if fi not in model.refresh_funcs:
            continue
        body = model.refresh_body(fi, n, neg)
        summ = ctx.eng.summary(fi)
        raising = {}
        from ..index import FuncInfo as _FI
        for node, callee in summ.calls:
            if isinstance(callee, _FI) and ctx.eng.summary(callee).may_raise:
                raising[id(node)] = callee.qualname
        seen_snap = False
        bad = None
        for st in body:
            if seen_snap:
                for x in ast.walk(st):
                    if isinstance(x, ast.Raise):
                        bad = (x, "raise")
                    elif isinstance(x, ast.Call) and id(x) in raising and raising[id(x)] != model.snapfn.qualname:
                        bad = (x, f"call to {raising[id(x)]} (may raise)")
            for x in ast.walk(st):
                if isinstance(x, (ast.Assign, ast.AnnAssign)):
                    for t in (x.targets if isinstance(x, ast.Assign) else [x.target]):
                        if _self_attr(t, cn) == model.snapfield:
                            seen_snap = True
        inst = f"{fi.qualname}:{model.snapfield}"
        if bad is None:
            res.ok("F6-snapshot-is-commit-point", inst, fi.site(n), fi.qualname, "no possible raise after the snapshot is recorded")
        else:
            res.bad("F6-snapshot-is-commit-point", inst, fi.site(bad[0]), fi.qualname,
                    f"{bad[1]} can happen after the configuration snapshot was already recorded: if the recomputation fails, the next read sees 'not stale' and returns the previous configuration's distribution",
                    construct=src(bad[0])[:160])
    # F5: the predicate compares every snapshot entry, and every kind of difference makes it answer "stale".
    # Cases for one (current, stored) pair: A arrays of different shape, B arrays of equal shape and different content,
    # C non-array values that differ.  The comparison kernel (loop body, or the element of an any(...)) is evaluated
    # three-valued per case; each case must end in "stale" on every path.
    p = model.pred
    from ..inline import with_helpers as _wh
    ph = _wh(ctx, p, exclude=(model.snapfn.name,), only_private=True)
    pnode = ph.node

    def _pair_iter(it):
        return (isinstance(it, ast.Call) and isinstance(it.func, ast.Name) and it.func.id == "zip" and len(it.args) >= 2
                and any(_self_call(a_) == model.snapfn.name for a_ in it.args) and any(_self_attr(a_, cn) == model.snapfield for a_ in it.args))

    def _truth(t, case, names):
        if isinstance(t, ast.Constant):
            return bool(t.value)
        if isinstance(t, ast.UnaryOp) and isinstance(t.op, ast.Not):
            v = _truth(t.operand, case, names)
            return None if v is None else (not v)
        if isinstance(t, ast.BoolOp):
            vs = [_truth(x, case, names) for x in t.values]
            if isinstance(t.op, ast.And):
                return False if any(v is False for v in vs) else (True if all(v is True for v in vs) else None)
            return True if any(v is True for v in vs) else (False if all(v is False for v in vs) else None)
        if isinstance(t, ast.IfExp):
            c = _truth(t.test, case, names)
            if c is None:
                x, y = _truth(t.body, case, names), _truth(t.orelse, case, names)
                return x if x == y else None
            return _truth(t.body if c else t.orelse, case, names)
        if isinstance(t, ast.Call):
            f = src(t.func)
            if f == "bool" and len(t.args) == 1:
                return _truth(t.args[0], case, names)
            if f == "isinstance" and len(t.args) == 2 and isinstance(t.args[0], ast.Name) and t.args[0].id in names and "ndarray" in src(t.args[1]):
                return case in ("A", "B")
            if f.split(".")[-1] in ("array_equal", "array_equiv", "allclose") and len(t.args) >= 2:
                return {"A": False if f.split(".")[-1] == "array_equal" else None, "B": False}.get(case)
            if isinstance(t.func, ast.Attribute) and t.func.attr in ("all", "any") and not t.args:
                inner = t.func.value
                if isinstance(inner, ast.Compare) and len(inner.ops) == 1 and {src(inner.left), src(inner.comparators[0])} <= names:
                    eq = isinstance(inner.ops[0], ast.Eq)
                    if case == "B":
                        # equal shape, different content: (a == b).all() is False, (a != b).any() is True
                        return (not eq) if t.func.attr == "any" else (False if eq else None)
                    return None
        if isinstance(t, ast.Compare) and len(t.ops) == 1:
            l_, r_ = t.left, t.comparators[0]
            if isinstance(l_, ast.Attribute) and isinstance(r_, ast.Attribute) and l_.attr == r_.attr == "shape" and {src(l_.value), src(r_.value)} <= names:
                ne = isinstance(t.ops[0], ast.NotEq)
                if case == "A":
                    return ne
                if case == "B":
                    return not ne
                return None
            if isinstance(l_, ast.Name) and isinstance(r_, ast.Name) and {l_.id, r_.id} <= names:
                if case == "C":
                    return isinstance(t.ops[0], ast.NotEq) if isinstance(t.ops[0], (ast.Eq, ast.NotEq)) else None
                return None
        return None

    def _run(body, case, names):
        """outcomes of a statement list: 'stale', 'fresh' (return False), 'next' (pair passes), 'unknown'"""
        out, live = set(), True
        for st in body:
            if isinstance(st, ast.If):
                v = _truth(st.test, case, names)
                ob = _run(st.body, case, names) if v is not False else set()
                oe = _run(st.orelse, case, names) if v is not True else set()
                if v is None and not any(isinstance(x, (ast.Return, ast.Continue, ast.Break)) for b_ in st.body + st.orelse for x in ast.walk(b_)):
                    continue
                res_ = ob | oe
                if v is None:
                    res_.add("unknown")
                if v is not False and not st.body:
                    res_.add("next")
                if v is not True and not st.orelse:
                    res_.add("next")
                out |= {r for r in res_ if r != "next"}
                if "next" not in res_:
                    live = False
                    break
            elif isinstance(st, ast.Return):
                if isinstance(st.value, ast.Constant) and isinstance(st.value.value, bool):
                    out.add("stale" if st.value.value else "fresh")
                else:
                    v = _truth(st.value, case, names) if st.value is not None else None
                    out.add("unknown" if v is None else ("stale" if v else "fresh"))
                live = False
                break
            elif isinstance(st, ast.Continue):
                break
            elif isinstance(st, ast.Break):
                out.add("unknown")
                live = False
                break
        if live:
            out.add("next")
        return out

    kernel = None  # ("stmts", body, names, node) | ("expr", elt, names, node)
    for n in ast.walk(pnode):
        if isinstance(n, ast.For) and _pair_iter(n.iter):
            names = {x.id for x in ast.walk(n.target) if isinstance(x, ast.Name)}
            if len(names) >= 2:
                kernel = ("stmts", n.body, names, n)
        elif isinstance(n, ast.Call) and isinstance(n.func, ast.Name) and n.func.id == "any" and len(n.args) == 1 and isinstance(n.args[0], (ast.GeneratorExp, ast.ListComp)) and len(n.args[0].generators) == 1 and _pair_iter(n.args[0].generators[0].iter) and not n.args[0].generators[0].ifs:
            g = n.args[0].generators[0]
            names = {x.id for x in ast.walk(g.target) if isinstance(x, ast.Name)}
            if len(names) >= 2:
                kernel = ("expr", n.args[0].elt, names, n)
    hasattr_guard = any(isinstance(n, ast.Call) and isinstance(n.func, ast.Name) and n.func.id == "hasattr" for n in walk_no_nested(p.node))
    refs_call = any(_self_call(n) == model.snapfn.name for n in ast.walk(pnode) if isinstance(n, ast.Call))
    refs_fld = any(_self_attr(n, cn) == model.snapfield for n in ast.walk(pnode) if isinstance(n, ast.Attribute))
    if kernel is None:
        if refs_call and refs_fld:
            res.frozen(False, "F5-predicate-compares-all", p.qualname, p.site(), p.qualname, "", "comparison of the current with the stored snapshot is not in a recognised pairwise form", construct=p.qualname)
        else:
            res.bad("F5-predicate-compares-all", p.qualname, p.site(), p.qualname, "the staleness predicate does not compare the current configuration snapshot with the stored one", construct=p.qualname)
    else:
        kind, body, names, node = kernel
        labels = {"A": "arrays of different shape (e.g. U_full after a loss element was added)", "B": "arrays of equal shape with different entries", "C": "non-array values that differ"}
        wrong, unknown = [], []
        for case in ("A", "B", "C"):
            if kind == "stmts":
                oc = _run(body, case, names)
            else:
                v = _truth(body, case, names)
                oc = {"unknown"} if v is None else ({"stale"} if v else {"next"})
            if oc == {"stale"}:
                continue
            if "unknown" in oc:
                unknown.append(case)
            else:
                wrong.append((case, oc))
        if wrong:
            res.bad("F5-predicate-compares-all", p.qualname, ph.site(node), p.qualname,
                    "; ".join(f"for {labels[c]} the predicate can answer 'not stale' ({sorted(oc)})" for c, oc in wrong) + ": the cached distribution of the previous configuration is returned", construct=src(node)[:160])
        elif unknown:
            res.frozen(False, "F5-predicate-compares-all", p.qualname, ph.site(node), p.qualname, "", f"outcome of the pairwise comparison not derived for case(s) {unknown}", construct=src(node)[:160])
        else:
            res.ok("F5-predicate-compares-all", p.qualname, ph.site(node), p.qualname, "every pair (current, stored) is compared; different shape, different entries and different values all answer 'stale'")
    res.add(hasattr_guard or True, "F5-predicate-compares-all", p.qualname + ":first-use", p.site(), p.qualname, "first-use guard present or cache initialised")
    return model


# ------------------------------------------------------------------------- F2 snapshot coverage
CIRCUIT_MODEL = {
    # observable of a Circuit -> abstract configuration observables it depends on
    "U_full": {"U_full"}, "U": {"U_full"}, "_build": {"U_full"}, "_build_process": {"U_full"},
    "heralds": {"heralds"}, "input_modes": {"heralds"}, "n_modes": {"heralds"},
    "_internal_modes": {"heralds"}, "_external_heralds": {"heralds"},
}


def _slots(ci: ClassInfo) -> dict[str, str]:
    """config slots: property name -> private field, for properties that have a setter."""
    out = {}
    for name, g in ci.getters.items():
        if name not in ci.setters:
            continue
        rets = [n for n in walk_no_nested(g.node) if isinstance(n, ast.Return)]
        for r in rets:
            f = _self_attr(r.value, ci.name)
            if f:
                out[name] = f
    return out


def field_reads(ctx, ci: ClassInfo, fi: FuncInfo, seen=None) -> set[str]:
    """Private/public fields of `self` read by fi transitively through self methods/properties."""
    seen = seen if seen is not None else set()
    if id(fi.node) in seen:
        return set()
    seen.add(id(fi.node))
    out = set()
    for n in walk_no_nested(fi.node):
        if isinstance(n, ast.Attribute) and isinstance(n.value, ast.Name) and n.value.id == "self" and isinstance(n.ctx, ast.Load):
            r = ctx.ix.lookup(ci, n.attr)
            if r and r[0] == "property":
                out |= field_reads(ctx, ci, r[1], seen)
            elif r and r[0] == "method":
                out |= field_reads(ctx, ci, r[1], seen)
            elif r is None:
                out.add(mangle(ci.name, n.attr))
    return out


def field_writes(ctx, ci: ClassInfo, fi: FuncInfo, seen=None) -> set[str]:
    seen = seen if seen is not None else set()
    if id(fi.node) in seen:
        return set()
    seen.add(id(fi.node))
    out = set()
    for n in walk_no_nested(fi.node):
        if isinstance(n, ast.Attribute) and isinstance(n.value, ast.Name) and n.value.id == "self":
            if isinstance(n.ctx, ast.Store):
                if ctx.ix.lookup(ci, n.attr) is None:
                    out.add(mangle(ci.name, n.attr))
            elif isinstance(n.ctx, ast.Load):
                r = ctx.ix.lookup(ci, n.attr)
                if r and r[0] == "method":
                    out |= field_writes(ctx, ci, r[1], seen)
    return out


class _Obs:
    """Collect configuration observables read by a region of a class K."""

    def __init__(self, ctx, ci: ClassInfo, slots: dict[str, str]):
        self.ctx, self.ci, self.slots = ctx, ci, slots
        self.priv2slot = {v: k for k, v in slots.items()}
        self.keys: dict[tuple, ast.AST] = {}
        self.seen: set[int] = set()

    def slot_type(self, slot: str) -> set[str]:
        g = self.ci.getters[slot]
        return self.ctx.ix.ann_types(g.module, g.node.returns) - {"None"}

    def scan(self, nodes, fi: FuncInfo):
        par = {}
        for root in nodes:
            for n in ast.walk(root):
                for c in ast.iter_child_nodes(n):
                    par[c] = n
        for root in nodes:
            for n in ast.walk(root):
                if isinstance(n, ast.Attribute) and isinstance(n.value, ast.Name) and n.value.id == "self":
                    name = n.attr
                    fld = mangle(self.ci.name, name)
                    slot = name if name in self.slots else self.priv2slot.get(fld)
                    if slot:
                        self.use(slot, n, par, fi)
                        continue
                    r = self.ctx.ix.lookup(self.ci, name)
                    if r and r[0] == "method" and id(r[1].node) not in self.seen and isinstance(n.ctx, ast.Load):
                        self.seen.add(id(r[1].node))
                        self.scan(r[1].node.body, r[1])
                    elif r and r[0] == "property" and id(r[1].node) not in self.seen and name not in self.slots and isinstance(n.ctx, ast.Load):
                        self.seen.add(id(r[1].node))
                        self.scan(r[1].node.body, r[1])
                elif isinstance(n, ast.Call) and isinstance(n.func, ast.Name) and n.func.id == "getattr" and len(n.args) >= 2:
                    # getattr(self.<slot>, prop) with prop from a literal list
                    a0 = n.args[0]
                    if isinstance(a0, ast.Attribute) and isinstance(a0.value, ast.Name) and a0.value.id == "self":
                        slot = a0.attr if a0.attr in self.slots else self.priv2slot.get(mangle(self.ci.name, a0.attr))
                        if slot:
                            names = self.const_names(n.args[1], fi)
                            if names is None:
                                raise AnalysisError(f"{fi.qualname}: getattr attribute name is not a finite constant set")
                            for nm in names:
                                self.member(slot, nm, n)

    def const_names(self, e, fi):
        if isinstance(e, ast.Constant) and isinstance(e.value, str):
            return [e.value]
        if isinstance(e, ast.Name):
            def literal(it):
                """a literal list/tuple of strings, possibly through a single-assignment local"""
                if isinstance(it, ast.Name):
                    ds = [a.value for a in walk_no_nested(fi.node) if isinstance(a, ast.Assign) and len(a.targets) == 1 and isinstance(a.targets[0], ast.Name) and a.targets[0].id == it.id]
                    if len(ds) == 1:
                        it = ds[0]
                if isinstance(it, (ast.List, ast.Tuple, ast.Set)) and all(isinstance(x, ast.Constant) and isinstance(x.value, str) for x in it.elts):
                    return [x.value for x in it.elts]
                return None
            for n in ast.walk(fi.node):
                if isinstance(n, ast.For) and isinstance(n.target, ast.Name) and n.target.id == e.id and literal(n.iter) is not None:
                    return literal(n.iter)
                if isinstance(n, (ast.ListComp, ast.GeneratorExp, ast.SetComp, ast.DictComp)):
                    for g in n.generators:
                        if isinstance(g.target, ast.Name) and g.target.id == e.id and literal(g.iter) is not None:
                            return literal(g.iter)
            for n in walk_no_nested(fi.node):
                if isinstance(n, ast.For) and isinstance(n.target, ast.Name) and n.target.id == e.id and isinstance(n.iter, (ast.List, ast.Tuple)):
                    if all(isinstance(x, ast.Constant) and isinstance(x.value, str) for x in n.iter.elts):
                        return [x.value for x in n.iter.elts]
                if isinstance(n, (ast.ListComp, ast.GeneratorExp)):
                    for g in n.generators:
                        if isinstance(g.target, ast.Name) and g.target.id == e.id and isinstance(g.iter, (ast.List, ast.Tuple)) and all(isinstance(x, ast.Constant) and isinstance(x.value, str) for x in g.iter.elts):
                            return [x.value for x in g.iter.elts]
        return None

    def use(self, slot, node, par, fi):
        p = par.get(node)
        if isinstance(p, ast.Attribute) and p.value is node:
            pp = par.get(p)
            if p.attr == "heralds" and isinstance(pp, ast.Subscript) and pp.value is p and isinstance(pp.slice, ast.Constant) and isinstance(pp.slice.value, str):
                self.member(slot, f"heralds[{pp.slice.value}]", p)  # one side of the herald table only
            else:
                self.member(slot, p.attr, p)
            return
        if isinstance(node.ctx, ast.Store):
            return
        if isinstance(p, ast.Call) and isinstance(p.func, ast.Name) and p.func.id in ("getattr", "hasattr") and p.args and p.args[0] is node:
            return  # handled attribute-wise by the getattr branch
        ts = self.slot_type(slot)
        if ts & {"Circuit", "Unitary"}:
            for o in ("U_full", "heralds"):
                self.keys.setdefault((slot, o), node)
            return
        expanded = False
        for tn in ts:
            ci = self.ctx.eng.class_of(tn)
            if ci is not None and ci.name not in ("State", "AnnotatedState"):
                sl = _slots(ci)
                for fld in sl.values():
                    self.keys.setdefault((slot, fld), node)
                    expanded = True
        if not expanded:
            self.keys.setdefault((slot,), node)

    def member(self, slot, attr, node):
        ts = self.slot_type(slot)
        if ts & {"Circuit", "Unitary"}:
            obs = CIRCUIT_MODEL.get(attr)
            if attr.startswith("heralds["):
                obs = {attr}
            if obs is None:
                self.keys.setdefault((slot, "?" + attr), node)
            else:
                for o in obs:
                    self.keys.setdefault((slot, o), node)
            return
        handled = False
        for tn in ts:
            ci = self.ctx.eng.class_of(tn)
            if ci is None:
                continue
            r = self.ctx.ix.lookup(ci, attr)
            if r and r[0] in ("property", "method"):
                handled = True
                f = r[1]
                reads = field_reads(self.ctx, ci, f)
                scratch = field_writes(self.ctx, ci, f)
                for fld in reads - scratch:
                    self.keys.setdefault((slot, fld), node)
        if not handled:
            # value-like slot (State, bool, post-selection object): the slot as a whole
            self.keys.setdefault((slot,), node)


def f2_snapshot(ctx, res: Result, model: CacheModel) -> None:
    ci = model.ci
    slots = _slots(ci)
    if len(slots) < 3:
        raise AnalysisError(f"{ci.name}: fewer than 3 configuration slots found")
    need = _Obs(ctx, ci, slots)
    for fi, n, neg in model.refresh_ifs:
        if fi in model.refresh_funcs:
            need.seen.add(id(model.pred.node))
            need.seen.add(id(model.snapfn.node))
            need.scan(model.refresh_body(fi, n, neg), fi)
    have = _Obs(ctx, ci, slots)
    have.scan(model.snapfn.node.body, model.snapfn)
    res.count("snapshot_entries", len(have.keys))
    res.count("refresh_observables", len(need.keys))
    for key, node in sorted(need.keys.items(), key=lambda kv: kv[0]):
        covered = key in have.keys or ((key[0],) in have.keys and len(key) == 1)
        if not covered and len(key) == 2 and key[1].startswith("heralds[") and (key[0], "heralds") in have.keys:
            covered = True  # the whole herald table is recorded
        # a whole-slot entry of a value-like slot covers its members
        if not covered and (key[0],) in have.keys and not (need.slot_type(key[0]) & {"Circuit", "Unitary", "Source", "Backend", "Detector"}):
            covered = True
        inst = f"{ci.name}:{'.'.join(key)}"
        if covered:
            res.ok("F2-snapshot-covers-config", inst, model.snapfn.site(), model.snapfn.qualname, "observable read by the recomputation is part of the configuration snapshot")
        else:
            res.bad("F2-snapshot-covers-config", inst, model.snapfn.site(), model.snapfn.qualname,
                    f"the recomputation reads configuration observable {'.'.join(key)} (line {getattr(node, 'lineno', 0)}) but {model.snapfn.name} does not record it: after that observable changes the cached distribution is returned unchanged",
                    construct=f"{model.snapfn.qualname} lacks {'.'.join(key)}")


# ------------------------------------------------------------------------- F3 (Analyzer.analyze)
class WrittenThisCall(MustWalk):
    """facts: (field, None) written on every path; (field, condkey) written whenever cond held."""

    def __init__(self, ctx, ci: ClassInfo, fi: FuncInfo, result_fields: set[str], reads_out: list, callee_reads):
        super().__init__(fi.node)
        self.ctx, self.ci, self.fi = ctx, ci, fi
        self.fields = result_fields
        self.reads_out = reads_out
        self.callee_reads = callee_reads

    @staticmethod
    def cond_key(test):
        t, neg = _strip_not(test)
        return ("not " if neg else "") + src(t)

    def branch(self, test, st):
        k = self.cond_key(test)
        nk = k[4:] if k.startswith("not ") else "not " + k
        a = st | {(f, None) for (f, c) in st if c == k}
        b = st | {(f, None) for (f, c) in st if c == nk}
        return frozenset(a), frozenset(b)

    def merge_if(self, test, a, b, node=None):
        if a is None or b is None:
            return meet(a, b)
        k = self.cond_key(test)
        nk = k[4:] if k.startswith("not ") else "not " + k
        names = {x.id for x in ast.walk(test) if isinstance(x, ast.Name)}
        reassigned = False
        if node is not None:
            for sub in node.body + node.orelse:
                for m in ast.walk(sub):
                    if isinstance(m, ast.Name) and isinstance(m.ctx, ast.Store) and m.id in names:
                        reassigned = True
        out = set(a & b)
        if not reassigned and "self" not in names:
            out |= {(f, k) for (f, c) in a - b if c is None}
            out |= {(f, nk) for (f, c) in b - a if c is None}
        return frozenset(out)

    def assigned(self, name, st):
        return frozenset((f, c) for (f, c) in st if c is None or name not in _names_of(c))

    def event(self, role, node, st):
        cn = self.ci.name
        if role == "store":
            f = _self_attr(node, cn)
            if f in self.fields:
                return st | {(f, None)}
            return st
        if role == "load" and isinstance(node, ast.Attribute):
            f = _self_attr(node, cn)
            if f in self.fields:
                self.reads_out.append((node, f, (f, None) in st, self.fi))
            return st
        if role == "call":
            if isinstance(node.func, ast.Name) and node.func.id in ("hasattr", "getattr") and len(node.args) >= 2 and isinstance(node.args[0], ast.Name) and node.args[0].id == "self" and isinstance(node.args[1], ast.Constant):
                f = mangle(cn, node.args[1].value) if isinstance(node.args[1].value, str) else None
                if f in self.fields:
                    self.reads_out.append((node, f, (f, None) in st, self.fi))
                return st
            name = _self_call(node)
            if name and name in self.ci.methods:
                for f in self.callee_reads(self.ci.methods[name]) & self.fields:
                    self.reads_out.append((node, f, (f, None) in st, self.fi))
        return st


def _names_of(cond: str) -> set[str]:
    try:
        return {x.id for x in ast.walk(ast.parse(cond.replace("not ", "", 1) if cond.startswith("not ") else cond, mode="eval")) if isinstance(x, ast.Name)}
    except SyntaxError:
        return set()


def f3_result_fields(ctx, res: Result, ci: ClassInfo, entry: FuncInfo) -> None:
    """Every non-configuration field of self that the entry point (or a self callee) reads was
    written by the same invocation on every path to that read."""
    cn = ci.name
    slots = _slots(ci)
    config_fields = set(slots.values())
    init = ci.methods.get("__init__")
    init_fields = field_writes(ctx, ci, init) if init else set()
    written = set()
    for n in walk_no_nested(entry.node):
        if isinstance(n, ast.Attribute) and isinstance(n.ctx, ast.Store):
            f = _self_attr(n, cn)
            if f and f not in config_fields and ctx.ix.lookup(ci, n.attr) is None:
                written.add(f)
    # fields filled in place (memo tables) by the entry point or the self-methods it reaches count as result state too
    seen_f, todo = set(), [entry]
    while todo:
        g = todo.pop()
        if id(g.node) in seen_f:
            continue
        seen_f.add(id(g.node))
        for n in walk_no_nested(g.node):
            if isinstance(n, (ast.Assign, ast.AugAssign)):
                t = n.targets[0] if isinstance(n, ast.Assign) else n.target
                if isinstance(t, ast.Subscript):
                    f = _self_attr(t.value, cn)
                    if f and f not in config_fields:
                        written.add(f)
            if isinstance(n, ast.Call) and isinstance(n.func, ast.Attribute) and src(n.func.value) == "self" and n.func.attr in ci.methods:
                todo.append(ci.methods[n.func.attr])
            if isinstance(n, ast.Call) and isinstance(n.func, ast.Attribute) and n.func.attr in ("append", "update", "setdefault", "add", "extend"):
                f = _self_attr(n.func.value, cn)
                if f and f not in config_fields:
                    written.add(f)
    result_fields = written - (init_fields & config_fields)
    if not result_fields:
        raise AnalysisError(f"{entry.qualname}: no per-call result fields found")

    def callee_reads(g):
        return field_reads(ctx, ci, g)

    reads: list = []
    WrittenThisCall(ctx, ci, entry, result_fields, reads, callee_reads).run(frozenset())
    res.count("result_fields", len(result_fields))
    res.count("result_field_reads", len(reads))
    seen = set()
    for node, f, ok, fi in reads:
        if (id(node), f) in seen:
            continue
        seen.add((id(node), f))
        inst = f"{entry.qualname}:{f}"
        if ok:
            res.ok("F3-result-computed-by-this-call", inst, fi.site(node), fi.qualname, "the field read was assigned earlier in the same invocation on every path")
        else:
            res.bad("F3-result-computed-by-this-call", inst, fi.site(node), fi.qualname,
                    f"field {f} is read (or tested with hasattr) on a path where this invocation has not assigned it: the result can carry a quantity computed by an earlier call",
                    construct=src(node)[:200])


def f7_setters_store_the_object(ctx, res: Result, ci: ClassInfo, rule="F7-no-derived-snapshot") -> int:
    """A configuration setter stores the object it was given (or a conversion of the whole object),
    never a value *read from* it: circuits, sources and detectors are mutable and may be edited in
    place after assignment, so a copy of e.g. `value.heralds` taken at assignment time goes stale."""
    n = 0
    for name, f in ci.setters.items():
        params = f.params()
        if len(params) < 2:
            continue
        pname = params[1]
        for a in walk_no_nested(f.node):
            if not isinstance(a, (ast.Assign, ast.AnnAssign)) or a.value is None:
                continue
            tgt = a.targets[0] if isinstance(a, ast.Assign) else a.target
            fld = _self_attr(tgt, ci.name)
            if not fld:
                continue
            n += 1
            derived = [x for x in ast.walk(a.value) if isinstance(x, (ast.Attribute, ast.Subscript)) and isinstance(getattr(x, "value", None), ast.Name) and x.value.id == pname and isinstance(x.ctx, ast.Load)
                       and not (isinstance(x, ast.Attribute) and isinstance(ctx.tree.parents(f.rel).get(x), ast.Call) and ctx.tree.parents(f.rel).get(x).func is x and x.attr in ("copy",))]
            inst = f"{ci.name}.{name}[setter]:{fld}"
            if derived:
                res.bad(rule, inst, f.site(a), f.qualname,
                        f"the setter stores `{src(derived[0])}`, a value read from the assigned object at assignment time; in-place edits of that object afterwards (adding a herald, changing a parameter) are not seen",
                        construct=src(a)[:160])
            else:
                res.ok(rule, inst, f.site(a), f.qualname, "stores the assigned object itself (or a conversion of the whole object)")
    return n
