"""R-D failure atomicity: on every path, no node that may raise follows the first write to
the receiver's state; and must-pass-through guards (a refusal dominates work)."""

from __future__ import annotations

import ast

from ..alias import root
from ..cfg import CFG, node_events
from ..index import FuncInfo, attr_chain
from ..report import Result
from ..source import AnalysisError, src


def _self_rooted_expr(e) -> bool:
    while isinstance(e, (ast.Attribute, ast.Subscript, ast.Call)):
        e = e.value if not isinstance(e, ast.Call) else e.func
    return isinstance(e, ast.Name) and e.id == "self"


def self_write_nodes(ctx, fi: FuncInfo) -> dict[int, list]:
    """id(ast node) -> alias events that write the receiver's state."""
    s = ctx.eng.summary(fi)
    out: dict[int, list] = {}
    for ev in s.events:
        is_self = any(root(l) == ("P", "self") for l in ev.locs)
        if not is_self:
            n = ev.node
            recv = None
            if isinstance(n, ast.Call) and isinstance(n.func, ast.Attribute):
                recv = n.func.value
                if ev.kind == "callee":
                    # a callee that writes *its* receiver/argument: is that object part of self?
                    recv = n.func.value if _self_rooted_expr(n.func.value) and not (isinstance(n.func.value, ast.Name)) else None
            elif isinstance(n, (ast.Assign, ast.AugAssign, ast.AnnAssign)):
                t = n.targets[0] if isinstance(n, ast.Assign) else n.target
                if isinstance(t, (ast.Attribute, ast.Subscript)):
                    recv = t.value
            if recv is not None and _self_rooted_expr(recv):
                is_self = True
        if is_self:
            out.setdefault(id(ev.node), []).append(ev)
    return out


def raising_calls(ctx, fi: FuncInfo) -> dict[int, str]:
    """id(Call node) -> name of a callee that may raise (explicit raise, transitively)."""
    s = ctx.eng.summary(fi)
    out: dict[int, str] = {}
    for node, callee in s.calls:
        if isinstance(callee, FuncInfo):
            cs = ctx.eng.summary(callee)
            if cs.may_raise:
                out[id(node)] = callee.qualname
    return out


def no_raise_after_write(ctx, res: Result, fi: FuncInfo, rule="D-no-raise-after-write", exceptions=None) -> None:
    """exceptions: {callee qualname prefix: (reason, precondition_fn(ctx, fi, callnode) -> str|None)}"""
    exceptions = exceptions or {}
    cfg: CFG = ctx.cfg(fi)
    writes = self_write_nodes(ctx, fi)
    raisers = raising_calls(ctx, fi)
    # per node: ordered list of ('w'|'r', astnode, text)
    seqs: dict[int, list] = {}
    for n in cfg.nodes:
        seq = []
        if n.ast is None:
            continue
        if isinstance(n.ast, ast.Raise) and n.kind == "stmt":
            for role, x in node_events(n):
                if role == "call" and id(x) in raisers:
                    seq.append(("r", x, f"call to {raisers[id(x)]}"))
            seq.append(("r", n.ast, "raise"))
            seqs[n.id] = seq
            continue
        for role, x in node_events(n):
            if role == "call":
                if id(x) in raisers:
                    seq.append(("r", x, f"call to {raisers[id(x)]} (may raise)"))
                if id(x) in writes:
                    seq.append(("w", x, writes[id(x)][0].detail))
            elif role in ("store",):
                if n.kind == "stmt" and id(n.ast) in writes and isinstance(x, (ast.Attribute, ast.Subscript)):
                    seq.append(("w", n.ast, writes[id(n.ast)][0].detail))
            elif role == "aug":
                if id(x) in writes:
                    seq.append(("w", x, writes[id(x)][0].detail))
        seqs[n.id] = seq
    # forward may-analysis: first write site reaching the node entry
    IN: dict[int, tuple | None] = {n.id: None for n in cfg.nodes}  # None = not written; else (site line, text)
    reach = {cfg.entry.id}
    work = [cfg.entry.id]
    OUT: dict[int, tuple | None] = {}
    found = []
    it = 0
    while work:
        it += 1
        if it > 20000:
            raise AnalysisError("R-D dataflow did not converge")
        i = work.pop()
        n = cfg.nodes[i]
        cur = IN[i]
        for kind, x, text in seqs.get(i, []):
            if kind == "w" and cur is None:
                cur = (getattr(x, "lineno", 0), text)
        for t, lab in n.succ:
            if lab in ("exc", "raise"):
                continue
            new = IN[t] if IN[t] is not None else cur
            if t not in reach or new != IN[t]:
                reach.add(t)
                IN[t] = new
                work.append(t)
    n_checked = 0
    for n in cfg.nodes:
        if n.id not in reach:
            continue
        cur = IN[n.id]
        for kind, x, text in seqs.get(n.id, []):
            if kind == "w":
                if cur is None:
                    cur = (getattr(x, "lineno", 0), text)
            else:
                n_checked += 1
                if cur is not None:
                    found.append((x, text, cur))
    res.count("raise_points", n_checked)
    res.count("write_points", sum(1 for s in seqs.values() for k, _, _ in s if k == "w"))
    inst = fi.qualname
    any_bad = False
    for x, text, first in found:
        exc = None
        skip = False
        for pref, (reason, pre) in exceptions.items():
            if pref in text:
                why_not = pre(ctx, fi, x)
                if why_not is None:
                    exc = reason
                elif why_not.startswith("unrecognised:"):
                    res.frozen(False, rule, f"{inst}:exception:{src(x)[:40]}", fi.site(x), fi.qualname, "", f"exception-table precondition could not be re-derived ({why_not})", construct=src(x)[:120])
                    skip = True
                else:
                    text = f"{text}; exception-table precondition no longer holds: {why_not}"
        if skip:
            continue
        if exc:
            res.ok(rule, f"{inst}:exception:{src(x)[:40]}", fi.site(x), fi.qualname, f"accepted by exception table: {exc}")
            continue
        any_bad = True
        res.bad(rule, inst, fi.site(x), fi.qualname,
                f"{text} can happen after the receiver was already changed at line {first[0]} ({first[1][:80]}); a rejected call would leave the object modified",
                construct=src(x)[:300], path=[f"{fi.rel}:{first[0]} first write", f"{fi.site(x)} may raise"])
    if not any_bad:
        res.ok(rule, inst, fi.site(), fi.qualname, f"{n_checked} possible raise points, none reachable after a write to the receiver")


def guard_dominates(ctx, res: Result, fi: FuncInfo, guard_pred, work_pred, rule: str, instance: str, what: str) -> None:
    """Every `work` node is dominated by a raise-guard test matching guard_pred.
    guard_pred(test_expr, if_node) -> bool ; work_pred(cfg node) -> bool."""
    cfg = ctx.cfg(fi)
    dom = cfg.dominators()
    guards = []
    for n in cfg.nodes:
        if n.kind == "test" and isinstance(n.ast, ast.If) and guard_pred(n.ast.test, n.ast):
            if any(isinstance(b, ast.Raise) for b in n.ast.body) or any(isinstance(b, ast.Raise) for b in n.ast.orelse):
                guards.append(n.id)
    works = [n for n in cfg.nodes if n.ast is not None and n.kind in ("stmt", "test", "for") and work_pred(n)]
    if not works:
        raise AnalysisError(f"{fi.qualname}: no work node found for guard rule {rule}")
    if not guards:
        res.bad(rule, instance, fi.site(), fi.qualname, f"{what}: refusing guard not found", construct=fi.qualname)
        return
    for w in works:
        if any(g in dom[w.id] for g in guards):
            res.ok(rule, f"{instance}@{src(w.ast)[:40] if w.kind == 'stmt' else w.kind}", fi.site(w.ast), fi.qualname, f"{what}: guard dominates")
        else:
            res.bad(rule, instance, fi.site(w.ast), fi.qualname, f"{what}: work is reachable without passing the refusing guard", construct=src(w.ast)[:200] if w.kind == "stmt" else src(getattr(w.ast, "test", w.ast))[:200])
