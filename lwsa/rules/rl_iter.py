"""R-L  Order-insensitive iteration: index-shifting / pop-by-index loops iterate a sorted sequence."""

from __future__ import annotations

import ast

from ..index import FuncInfo, walk_no_nested
from ..report import Result
from ..source import src


def _resolve_iter(fn: ast.FunctionDef, it: ast.AST) -> ast.AST:
    """Follow a single-assignment local to its defining expression."""
    seen = 0
    while isinstance(it, ast.Name) and seen < 4:
        defs = [n.value for n in walk_no_nested(fn) if isinstance(n, ast.Assign) and len(n.targets) == 1 and isinstance(n.targets[0], ast.Name) and n.targets[0].id == it.id]
        if len(defs) != 1:
            break
        it = defs[0]
        seen += 1
    return it


def _sorted_call(it) -> tuple[bool, bool]:
    """(is sorted(...) or range(...), descending?)"""
    if isinstance(it, ast.Call) and isinstance(it.func, ast.Name):
        if it.func.id == "sorted":
            desc = any(k.arg == "reverse" and isinstance(k.value, ast.Constant) and k.value.value is True for k in it.keywords)
            return True, desc
        if it.func.id == "range":
            return True, False
        if it.func.id == "reversed" and it.args:
            ok, d = _sorted_call(it.args[0])
            return ok, not d
        if it.func.id in ("enumerate", "list", "tuple") and it.args:
            return _sorted_call(it.args[0])
    return False, False


def _scopes(fn):
    """fn and the functions nested in it (closures are analysed as functions of their own); guard clauses are read
    as else-branches so `if not c: continue; x += 1` is the same loop as `if c: x += 1`"""
    from ..inline import else_normal

    fn = else_normal(fn)
    yield fn
    for n in ast.walk(fn):
        if n is not fn and isinstance(n, (ast.FunctionDef, ast.AsyncFunctionDef)):
            yield n


def shifting_loops(fi: FuncInfo, scope=None):
    """Loops whose body (a) compares the loop element with a variable that the body also
    increments/decrements (rank -> index conversion), or (b) pops / inserts by the loop element."""
    for lp in walk_no_nested(scope or fi.node):
        if not isinstance(lp, ast.For):
            continue
        tnames = {x.id for x in ast.walk(lp.target) if isinstance(x, ast.Name)}
        kind = None
        inner_targets = {x.id for l2 in ast.walk(lp) if isinstance(l2, (ast.For, ast.comprehension)) for x in ast.walk(l2.target) if isinstance(x, ast.Name)}
        assigned_inside = {t.id for a in ast.walk(lp) if isinstance(a, ast.Assign) for t in a.targets if isinstance(t, ast.Name)}
        for n in ast.walk(lp):
            if isinstance(n, ast.If):
                names = {x.id for x in ast.walk(n.test) if isinstance(x, ast.Name)}
                if not (names & tnames):
                    continue
                for b in ast.walk(n):
                    if isinstance(b, ast.AugAssign) and isinstance(b.target, ast.Name) and b.target.id in names and b.target.id not in tnames and b.target.id not in inner_targets and b.target.id not in assigned_inside and isinstance(b.op, (ast.Add, ast.Sub)):
                        # the carried variable must not be (re)initialised inside this same loop body from the element
                        kind = "shift"
            if isinstance(n, ast.Call) and isinstance(n.func, ast.Attribute) and n.func.attr in ("pop", "insert") and n.args and isinstance(n.args[0], ast.Name) and n.args[0].id in tnames:
                if not (isinstance(n.func.value, ast.Name) and n.func.value.id in tnames):
                    kind = "pop" if n.func.attr == "pop" else "insert"
        if kind:
            yield lp, kind


def check_function(ctx, res: Result, fi: FuncInfo) -> int:
    n = 0
    for scope, lp, kind in [(sc, lp, kind) for sc in _scopes(fi.node) for lp, kind in shifting_loops(fi, sc)]:
        n += 1
        it = _resolve_iter(scope, lp.iter)
        ok, desc = _sorted_call(it)
        inst = f"{fi.qualname}:for {src(lp.target)} in {src(lp.iter)[:50]}"
        if kind == "pop":
            good = ok and desc
            need = "sorted(..., reverse=True)"
        else:
            good = ok and not desc if kind == "shift" else ok
            need = "sorted(...)"
        if good:
            res.ok("L-order-insensitive-iteration", inst, fi.site(lp), fi.qualname, f"{kind} loop iterates {src(it)[:60]}")
        else:
            res.bad("L-order-insensitive-iteration", inst, fi.site(lp), fi.qualname,
                    f"{kind}-by-index loop iterates `{src(it)[:80]}`, whose order is the order in which heralds/modes were declared; the result depends on declaration order (needs {need})",
                    construct=src(lp.iter)[:200])
    return n

def herald_insertion_by_position(ctx, res, ah, rule="L-herald-insertion-by-position"):
    """add_heralds_to_state walks mode positions (range), never the herald dictionary (whose order is declaration order)"""
    import ast as _ast
    from ..source import src as _src
    its = []
    for n in _ast.walk(ah.node):
        if isinstance(n, _ast.For):
            its.append(n.iter)
        elif isinstance(n, _ast.comprehension):
            its.append(n.iter)
    pn = ah.params()[1] if len(ah.params()) > 1 else "heralds"
    over_dict = [i for i in its if _src(i) in (pn, f"{pn}.items()", f"{pn}.keys()", f"{pn}.values()", f"list({pn})", f"enumerate({pn})")]
    by_pos = [i for i in its if _src(i).startswith("range(")]
    if over_dict:
        res.bad(rule, "add_heralds_to_state", ah.site(over_dict[0]), ah.qualname, f"herald insertion iterates the herald dictionary (`{_src(over_dict[0])}`): the result depends on the order in which heralds were declared", construct=_src(over_dict[0]))
    elif by_pos:
        res.ok(rule, "add_heralds_to_state", ah.site(by_pos[0]), ah.qualname, "herald insertion walks mode positions (independent of dictionary order)")
    else:
        res.frozen(False, rule, "add_heralds_to_state", ah.site(), ah.qualname, "", "iteration over mode positions not recognised", construct="")
