"""R-C ownership rules: argument immutability (C1), copy-on-write components (C2),
copies share no mutable container (C3), no escape from value types (C4)."""

from __future__ import annotations

import ast

from ..alias import Event, V, depth, loc_str, root
from ..index import walk_no_nested as walk_no_nested_
from ..index import ClassInfo, FuncInfo
from ..report import Result
from ..source import AnalysisError, src

PROTECTED = {"Circuit", "Unitary", "CompiledCircuit", "State", "AnnotatedState"}


def loc_steps(loc):
    steps = []
    while loc[0] in ("f", "e", "k"):
        steps.append(("f", loc[2]) if loc[0] == "f" else (loc[0],))
        loc = loc[1]
    return loc, steps[::-1]


def protected_params(ctx, only_rels=None):
    out = []
    for fi in ctx.ix.all_functions():
        if only_rels and fi.rel not in only_rels:
            continue
        a = fi.node.args
        ps = a.posonlyargs + a.args + a.kwonlyargs
        for i, p in enumerate(ps):
            if i == 0 and fi.cls is not None and fi.kind != "static":
                continue
            ts = ctx.ix.ann_types(fi.module, p.annotation) | ctx.ix.elem_types(fi.module, p.annotation)
            if ts & PROTECTED:
                out.append((fi, p.arg, sorted(ts & PROTECTED)))
    return out


def describe(ev: Event) -> str:
    locs = ", ".join(sorted(loc_str(l) for l in ev.locs)[:4])
    return f"{ev.detail} [may write: {locs}]"


def c1_arguments(ctx, res: Result, rule="C1-arg-immutable", only_rels=None) -> int:
    """No function mutates an object that may alias a Circuit/State-typed parameter."""
    n = 0
    callers = _callers(ctx)
    for fi, p, ts in protected_params(ctx, only_rels):
        s = ctx.eng.summary(fi)
        tr = ("P", p)
        evs = [ev for ev in s.events if any(root(l) == tr for l in ev.locs)]
        n += 1
        inst = f"{fi.qualname}({p}: {'|'.join(ts)})"
        private = fi.name.startswith("_") and not fi.name.startswith("__") and callers.get(id(fi.node), 0) > 0
        if evs and private:
            # a private helper whose job is to fill in an object handed to it: its writes are substituted into the
            # summaries of its callers and judged there (a public operation that passes its own argument on is reported)
            res.ok(rule, inst, fi.site(), fi.qualname, f"private helper writes its parameter; judged at its {callers[id(fi.node)]} call site(s) through the callers' summaries")
            continue
        if not evs:
            res.ok(rule, inst, fi.site(), fi.qualname, "no statement on any path mutates an object that may alias the parameter")
        else:
            seen = set()
            for ev in evs:
                k = id(ev.node)
                if k in seen:
                    continue
                seen.add(k)
                res.bad(rule, inst, ev.site(), fi.qualname,
                        f"may mutate parameter '{p}': {describe(ev)}", construct=src(ev.node)[:300])
    return n


def c1_self_readonly(ctx, res: Result, methods: list[tuple[str, str, str | None]], rule="C1-self-readonly") -> int:
    """Enumerated read-only operations must not mutate their receiver."""
    n = 0
    for rel, qn, kind in methods:
        fi = ctx.func(rel, qn, kind)
        s = ctx.eng.summary(fi)
        evs = [ev for ev in s.events if any(root(l) == ("P", "self") for l in ev.locs)]
        n += 1
        if not evs:
            res.ok(rule, qn, fi.site(), qn, "receiver is not written on any path")
        for ev in _uniq(evs):
            res.bad(rule, qn, ev.site(), qn, f"read-only operation may mutate its receiver: {describe(ev)}", construct=src(ev.node)[:300])
    return n


def _uniq(evs):
    seen = set()
    for ev in evs:
        if id(ev.node) in seen:
            continue
        seen.add(id(ev.node))
        yield ev


def class_field_aliases(ctx, ci: ClassInfo) -> dict[str, set]:
    """For class ci: field -> set of 'origins' its value may alias across all methods:
    ('param', typeset) for a constructor/setter parameter, ('via', otherfield, steps)."""
    out: dict[str, set] = {}
    for fi in ci.all_funcs():
        s = ctx.eng.summary(fi)
        for (loc, sel), (val, _strong) in s.heap.items():
            if loc != ("P", "self") or sel in ("*", "*k"):
                continue
            for l in val.locs:
                r, steps = loc_steps(l)
                if r[0] == "P" and r[1] != "self":
                    ts = ctx.ix.ann_types(fi.module, fi.param_annotation(r[1])) | ctx.ix.elem_types(fi.module, fi.param_annotation(r[1]))
                    out.setdefault(sel, set()).add(("param", frozenset(ts), tuple(steps)))
                elif r == ("P", "self") and steps and steps[0][0] == "f" and steps[0][1] != sel:
                    out.setdefault(sel, set()).add(("via", steps[0][1], tuple(steps[1:])))
    return out


def protected_fields(ctx, ci: ClassInfo) -> dict[str, str]:
    """Fields of ci whose value is (or aliases the inside of) a protected object."""
    al = class_field_aliases(ctx, ci)
    prot: dict[str, str] = {}
    for fld in al:
        for o in al[fld]:
            if o[0] == "param" and o[1] & PROTECTED:
                prot[fld] = f"holds the {'/'.join(sorted(o[1] & PROTECTED))} passed by the caller"
    # typed fields
    changed = True
    while changed:
        changed = False
        for fld in al:
            if fld in prot:
                continue
            for o in al[fld]:
                if o[0] == "via" and o[1] in prot:
                    prot[fld] = f"aliases the inside of field {o[1]} ({prot[o[1]]})"
                    changed = True
    return prot


def c1_fields(ctx, res: Result, classes: list[ClassInfo], rule="C1-held-object") -> int:
    """Objects a long-lived helper holds (self.circuit, self.input_state, aliases of their
    internals) are never mutated by any of its methods."""
    n = 0
    for ci in classes:
        prot = protected_fields(ctx, ci)
        for fld, why in sorted(prot.items()):
            n += 1
            bad = []
            for fi in ci.all_funcs():
                s = ctx.eng.summary(fi)
                for ev in s.events:
                    for l in ev.locs:
                        r, steps = loc_steps(l)
                        if r == ("P", "self") and steps and steps[0] == ("f", fld):
                            bad.append((fi, ev))
                            break
            inst = f"{ci.name}.{fld}"
            if not bad:
                res.ok(rule, inst, f"{ci.module.rel}:{ci.node.lineno}", ci.name, f"{why}; no method writes through it")
            seen = set()
            for fi, ev in bad:
                if id(ev.node) in seen:
                    continue
                seen.add(id(ev.node))
                res.bad(rule, inst, ev.site(), fi.qualname, f"field {fld} {why}, and is written in place: {describe(ev)}", construct=src(ev.node)[:300])
    return n


# ------------------------------------------------------------------------------- C2
def component_info(ctx):
    comp = ctx.ix.cls("Component")
    kinds = [c for c in ctx.ix.subclasses(comp)]
    fields: dict[str, set] = {}
    for k in kinds:
        for name, _ann in ctx.ix.dataclass_fields(k):
            fields.setdefault(name, set()).add(k.name)
    return comp, kinds, fields


def _callers(ctx):
    if getattr(ctx, "_callers", None) is None:
        from ..index import FuncInfo as _FI

        m = {}
        for fi in ctx.ix.all_functions():
            for _node, callee in ctx.eng.summary(fi).calls:
                if isinstance(callee, _FI) and callee is not fi:
                    m[id(callee.node)] = m.get(id(callee.node), 0) + 1
        ctx._callers = m
    return ctx._callers


def c2_copy_on_write(ctx, res: Result, rule="C2-component-copy-on-write") -> int:
    """Every in-place write to a component (attribute store, setattr, mutation of a container held
    in a component field) is on an object created/copied in the same function.  Writes that a
    *private helper* (leading underscore, called from inside the package) makes on its own
    parameter are judged at its call sites instead, where the summary substitutes the actual
    argument - so extracting the body of a branch into a helper changes no verdict."""
    comp, kinds, fields = component_info(ctx)
    kind_names = {k.name for k in kinds} | {"Component"}
    callers = _callers(ctx)
    n = 0
    for fi in ctx.ix.all_functions():
        own = fi.cls is not None and fi.cls.name in kind_names
        private = fi.name.startswith("_") and not fi.name.startswith("__") and callers.get(id(fi.node), 0) > 0
        s = ctx.eng.summary(fi)
        for ev in s.events:
            if ev.kind == "callee":
                # only propagated writes of private helpers are judged here
                callee_name = (ev.via or "").rsplit("::", 1)[-1].split(".")[-1]
                if not (callee_name.startswith("_") and not callee_name.startswith("__")):
                    # a public callee that mutates a plain container it was handed (a dict / list parameter) is judged
                    # here only when what it was handed is a container held in a component field
                    if ev.kind != "callee" or not any(any(st[0] == "f" and st[1] in fields for st in loc_steps(l)[1]) and loc_steps(l)[0][0] != "F" for l in ev.locs) or ev.field in fields:
                        continue
                if own and fi.name in ("__init__", "__post_init__"):
                    continue
            hit = None
            counted = False
            is_store = ev.field is not None and (ev.field in fields) and "[" not in ev.detail.split("=")[0].split("->")[-1] or ev.kind == "setattr"
            if ev.kind in ("attr-store", "setattr", "del") or (ev.kind == "callee" and ev.field in fields):
                if not (ev.field in fields or ev.kind == "setattr"):
                    continue
                counted = True
                for l in ev.locs:
                    if l[0] == "F":
                        continue
                    if l == ("P", "self") and not own:
                        continue
                    if l == ("P", "self") and own and fi.name in ("__init__", "__post_init__"):
                        continue
                    if ev.kind == "setattr" and l == ("P", "self"):
                        continue
                    if private and root(l)[0] == "P" and root(l) != ("P", "self"):
                        continue  # deferred to the call sites of this helper
                    hit = l
                    break
            elif ev.kind in ("mutator", "sub-store", "aug", "callee"):
                for l in ev.locs:
                    r, steps = loc_steps(l)
                    fsteps = [st[1] for st in steps if st[0] == "f"]
                    if r[0] == "F" or not fsteps:
                        continue
                    if r == ("P", "self") and not own:
                        continue
                    if private and r[0] == "P" and r != ("P", "self"):
                        continue
                    if any(f in fields for f in fsteps):
                        hit = l
                        break
                counted = any(st[0] == "f" and st[1] in fields for l in ev.locs for st in loc_steps(l)[1])
            if counted:
                n += 1
            if hit is not None:
                res.bad(rule, f"{fi.qualname}:{ev.field or ev.kind}", ev.site(), fi.qualname,
                        f"in-place write to a component that may be shared with another circuit (not a copy made in this function): {describe(ev)}",
                        construct=src(ev.node)[:300])
            elif counted and any(l[0] == "F" for l in ev.locs):
                res.ok(rule, f"{fi.qualname}:{ev.field or ev.kind}", ev.site(), fi.qualname, "target is a copy created in this function on every reaching definition")
    return n


def _through_component(ctx, fi, r, steps, fields) -> bool:
    """A path root.steps that passes through a component field *after* an element step or
    from a parameter that holds components (spec lists)."""
    if r[0] == "P" and r[1] == "self":
        return True
    return True


# ------------------------------------------------------------------------------- C3
def c3_fresh_fields(ctx, res: Result, fi: FuncInfo, rule="C3-copy-shares-no-container", deep=False) -> int:
    """The object returned by fi is new and none of its container fields is shared."""
    s = ctx.eng.summary(fi)
    n = 0
    if not s.returns.locs:
        raise AnalysisError(f"{fi.qualname}: no returned object found")
    for l in s.returns.locs:
        if l[0] == "D":
            n += 1
            res.ok(rule, f"{fi.qualname}:return", fi.site(), fi.qualname, "deep copy")
            continue
        if l[0] != "F":
            n += 1
            res.bad(rule, f"{fi.qualname}:return", fi.site(), fi.qualname, f"returns a reference to existing state: {loc_str(l)}", construct=loc_str(l))
            continue
        flds = [(sel, val) for (loc, sel), (val, _s) in s.heap.items() if loc == l and sel not in ("*", "*k", "__copy_of__")]
        link = s.heap.get((l, "__copy_of__"))
        if link:
            # a shallow object copy (copy.copy): every field that is not re-assigned afterwards is the original's
            from ..alias import Heap
            h = Heap(s.heap)
            ci_ = fi.cls
            explicit = {sel for sel, _v in flds}
            if ci_ is not None and "__init__" in ci_.methods:
                for a in walk_no_nested_(ci_.methods["__init__"].node):
                    tgt = a.targets[0] if isinstance(a, ast.Assign) else (a.target if isinstance(a, ast.AnnAssign) else None)
                    if isinstance(tgt, ast.Attribute) and isinstance(tgt.value, ast.Name) and tgt.value.id == "self" and isinstance(getattr(a, "value", None), (ast.List, ast.Dict, ast.ListComp, ast.DictComp)):
                        from ..index import mangle
                        fld = mangle(ci_.name, tgt.attr)
                        if fld not in explicit:
                            flds.append((fld, h.read(l, fld)))
        for sel, val in sorted(flds, key=lambda x: x[0]):
            n += 1
            shared = [x for x in val.locs if x[0] not in ("F", "D")]
            if shared:
                res.bad(rule, f"{fi.qualname}:{sel}", fi.site(), fi.qualname,
                        f"field {sel} of the returned copy refers to the original's container {', '.join(loc_str(x) for x in shared)} (no copy made)",
                        construct=f"{sel} -> {', '.join(sorted(loc_str(x) for x in shared))}")
            else:
                res.ok(rule, f"{fi.qualname}:{sel}", fi.site(), fi.qualname, "fresh container or immutable value")
    return n


# ------------------------------------------------------------------------------- C4
def c4_no_escape(ctx, res: Result, ci: ClassInfo, private_field: str, need_depth: int, rule="C4-no-escape") -> int:
    """Value types: no public method returns/yields a reference to the private list (or to an
    inner list when need_depth == 2) and no method but __init__ writes it."""
    n = 0
    self_l = ("P", "self")
    priv = ("f", self_l, private_field)
    for fi in ci.all_funcs():
        s = ctx.eng.summary(fi)
        n += 1
        leaks = []
        for l in (s.returns.locs | s.yields.locs):
            r, steps = loc_steps(l)
            if r == self_l and steps and steps[0] == ("f", private_field):
                if len(steps) == 1 or (need_depth >= 2 and len(steps) == 2):
                    leaks.append(l)
        inst = f"{ci.name}.{fi.name}" + ("[setter]" if fi.kind == "setter" else "")
        if leaks:
            res.bad(rule, inst, fi.site(), fi.qualname,
                    f"hands out a reference to private mutable state {', '.join(sorted(loc_str(x) for x in leaks))}; a caller can change the state in place",
                    construct=f"returns {', '.join(sorted(loc_str(x) for x in leaks))}")
        else:
            res.ok(rule, inst, fi.site(), fi.qualname, "returns immutable values or fresh copies only")
        if fi.name not in ("__init__",):
            for ev in _uniq(s.events):
                for l in ev.locs:
                    r, steps = loc_steps(l)
                    if r == self_l and ((not steps and ev.field == private_field) or (steps and steps[0] == ("f", private_field))):
                        res.bad("C4-no-internal-write", inst, ev.site(), fi.qualname, f"method writes the private state in place: {describe(ev)}", construct=src(ev.node)[:300])
                        break
    return n


def c6_no_shared_module_object(ctx, res: Result, classes, rule="C6-no-shared-default-object") -> int:
    """No field of a long-lived object may hold a module-level *mutable* object (an instance of a repository class,
    a list or a dict): every instance created with the default would share - and, through its public configuration,
    modify - one and the same object."""
    n = 0
    for ci in classes:
        for fi in ci.all_funcs():
            s = ctx.eng.summary(fi)
            for (loc, sel), (val, _strong) in s.heap.items():
                if loc != ("P", "self") or sel in ("*", "*k", "__copy_of__"):
                    continue
                n += 1
                shared = [l for l in val.locs if l[0] == "G"]
                inst = f"{fi.qualname}:{sel}"
                if not shared:
                    continue
                g = shared[0]
                mi = ctx.ix.module(g[1])
                vals = mi.assigns.get(g[2], [])
                mutable = any(isinstance(v, (ast.List, ast.Dict, ast.Set)) or (isinstance(v, ast.Call) and isinstance(v.func, ast.Name) and (ctx.ix.resolve(mi, v.func.id) or (None,))[0] == "class") for v in vals)
                if mutable:
                    res.bad(rule, inst, fi.site(), fi.qualname,
                            f"field {sel} can hold the module-level object `{g[2]}` ({g[1]}): every {ci.name} created that way shares this one mutable object, so configuring one instance (e.g. replacing a distribution of its error model) silently reconfigures all the others", construct=f"{sel} <- {g[2]}")
                else:
                    res.ok(rule, inst, fi.site(), fi.qualname, f"holds the module constant {g[2]}")
    return n


def c7_stateless_operation(ctx, res: Result, fi: FuncInfo, rule="C7-operation-keeps-no-state", allowed_fields=()) -> None:
    """The operation (and the private helpers it calls) assigns no field of its receiver: what it returns depends on its
    arguments and the configuration only, never on what was computed by an earlier call."""
    s = ctx.eng.summary(fi)
    evs = [ev for ev in s.events if ev.kind in ("attr-store", "setattr", "callee") and ev.field and any(l == ("P", "self") for l in ev.locs) and ev.field not in allowed_fields]
    evs = [ev for ev in evs if ev.kind != "callee" or ev.field]
    # in-place changes of an object held in a field of the receiver (`x = self._f; x += ...`)
    for ev in s.events:
        if ev.kind in ("aug", "sub-store", "mutator"):
            for l in ev.locs:
                r, steps = loc_steps(l)
                fs = [st[1] for st in steps if st[0] == "f"]
                if r == ("P", "self") and fs and fs[0] not in allowed_fields:
                    ev2 = ev
                    if not ev2.field:
                        import dataclasses as _dc
                        try:
                            ev2 = _dc.replace(ev, field=fs[0])
                        except Exception:  # noqa: BLE001
                            ev2 = ev
                    evs.append(ev2)
                    break
    seen = set()
    for ev in evs:
        if ev.field in seen:
            continue
        seen.add(ev.field)
        res.bad(rule, f"{fi.qualname}:{ev.field}", ev.site(), fi.qualname,
                f"{fi.qualname} {'changes in place the object held in' if ev.kind in ('aug', 'sub-store', 'mutator') else 'assigns'} the receiver's field {ev.field} ({ev.detail[:80]}): a value derived from this call's arguments is kept on the object, so a later call can reuse it for a configuration it was not computed for", construct=src(ev.node)[:160])
    if not evs:
        res.ok(rule, fi.qualname, fi.site(), fi.qualname, "assigns no field of its receiver")
