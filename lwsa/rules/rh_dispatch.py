"""R-H  Exhaustive dispatch over component kinds; mode-bearing field coverage."""

from __future__ import annotations

import ast

from ..index import FuncInfo, walk_no_nested
from ..report import Result
from ..rules.rc_owner import component_info
from ..source import AnalysisError, src

# classification of component dataclass fields (frozen; an unclassified field is an ANALYSIS-ERROR)
MODE_FIELDS = {"mode", "mode_1", "mode_2", "modes", "swaps", "circuit_spec"}
REL_FIELDS = {"heralds"}  # keys relative to the group's first mode
SHAPE_FIELDS = {"unitary"}  # occupies mode .. mode + shape
PLAIN_FIELDS = {"reflectivity", "convention", "phi", "loss", "name", "label"}


def kind_table(ctx):
    comp, kinds, fields = component_info(ctx)
    table = {}
    for k in kinds:
        fl = [n for n, _a in ctx.ix.dataclass_fields(k)]
        for f in fl:
            if f not in MODE_FIELDS | REL_FIELDS | SHAPE_FIELDS | PLAIN_FIELDS:
                raise AnalysisError(f"component field {k.name}.{f} is not classified (mode-bearing or not?) - extend the table in rh_dispatch.py")
        table[k.name] = fl
    if len(table) < 7:
        raise AnalysisError(f"only {len(table)} component kinds found")
    return table


def isinstance_chain(fn: ast.FunctionDef, var: str):
    """Yield (If node chain) : list of (kinds tuple | None for else, body)."""
    for n in walk_no_nested(fn):
        if isinstance(n, ast.If) and _isinst(n.test, var):
            # only chain heads (not an elif of another)
            branches = []
            cur = n
            while True:
                ks = _isinst(cur.test, var)
                if not ks:
                    break
                branches.append((ks, cur.body, cur))
                if len(cur.orelse) == 1 and isinstance(cur.orelse[0], ast.If) and _isinst(cur.orelse[0].test, var):
                    cur = cur.orelse[0]
                    continue
                branches.append((None, cur.orelse, cur))
                break
            yield n, branches


def _isinst(test, var):
    t = test
    if isinstance(t, ast.BoolOp) and isinstance(t.op, ast.And):
        t = t.values[0]
    if isinstance(t, ast.Call) and isinstance(t.func, ast.Name) and t.func.id == "isinstance" and len(t.args) == 2 and isinstance(t.args[0], ast.Name) and t.args[0].id == var:
        a = t.args[1]
        out = []
        for x in ast.walk(a):
            if isinstance(x, ast.Name):
                out.append(x.id)
        return tuple(out)
    return None


def heads(fn, var):
    """isinstance chains that are not nested as the elif of another chain."""
    elifs = set()
    for n in walk_no_nested(fn):
        if isinstance(n, ast.If) and len(n.orelse) == 1 and isinstance(n.orelse[0], ast.If):
            elifs.add(id(n.orelse[0]))
    for n, br in isinstance_chain(fn, var):
        if id(n) not in elifs:
            yield n, br


def branch_for(kind: str, branches, ctx):
    ci = ctx.ix.cls(kind)
    names = {c.name for c in ctx.ix.mro(ci)}
    for ks, body, node in branches:
        if ks is None or (set(ks) & names):
            return ks, body, node
    return None, [], None


def stored_fields(body, var):
    out = set()
    for s in body:
        for n in ast.walk(s):
            if isinstance(n, ast.Attribute) and isinstance(n.ctx, ast.Store) and isinstance(n.value, ast.Name) and n.value.id == var:
                out.add(n.attr)
    return out


def read_fields(body, var):
    out = set()
    for s in body:
        for n in ast.walk(s):
            if isinstance(n, ast.Attribute) and isinstance(n.value, ast.Name) and n.value.id == var:
                out.add(n.attr)
    return out


def h2_shifter(ctx, res: Result, fi: FuncInfo, shift_param: str, with_rel: bool, var="spec") -> int:
    """Every mode-bearing field of every kind is rewritten in the branch that handles the kind,
    with an expression that involves the shift parameter; fall-through branches only touch fields the
    kinds reaching them have."""
    table = kind_table(ctx)
    _CLOSURES.clear()
    _CLOSURES.update(_closures(fi.node, shift_param))
    chains = list(heads(fi.node, var))
    if len(chains) != 1:
        raise AnalysisError(f"{fi.qualname}: expected one isinstance dispatch over `{var}`, found {len(chains)}")
    _n, branches = chains[0]
    n = 0
    for kind, flds in sorted(table.items()):
        ks, body, node = branch_for(kind, branches, ctx)
        need = {f for f in flds if f in MODE_FIELDS} | ({f for f in flds if f in REL_FIELDS} if with_rel else set())
        got = stored_fields(body, var)
        n += 1
        inst = f"{fi.qualname}:{kind}"
        missing = need - got
        if node is None:
            res.bad("H2-every-mode-field-shifted", inst, fi.site(), fi.qualname, f"no branch handles component kind {kind}", construct=kind)
            continue
        if missing:
            res.bad("H2-every-mode-field-shifted", inst, fi.site(node), fi.qualname,
                    f"branch handling {kind} does not rewrite mode-bearing field(s) {sorted(missing)}: that part of the component stays on its old modes", construct=f"{kind} missing {sorted(missing)}")
        else:
            res.ok("H2-every-mode-field-shifted", inst, fi.site(node), fi.qualname, f"rewrites {sorted(need)}")
        # H1: the branch reads only fields the kind has
        extra = {f for f in read_fields(body, var) if f in MODE_FIELDS | REL_FIELDS | SHAPE_FIELDS | PLAIN_FIELDS} - set(flds)
        if extra and (ks is None):
            res.bad("H1-fallthrough-field-exists", inst, fi.site(node), fi.qualname, f"kind {kind} reaches the fall-through branch, which uses field(s) {sorted(extra)} it does not have", construct=f"{kind} lacks {sorted(extra)}")
        else:
            res.ok("H1-fallthrough-field-exists", inst, fi.site(node), fi.qualname, "branch uses only fields of the kind")
        # every rewritten mode field's new value depends on the shift parameter
        for s in body:
            for a in ast.walk(s):
                tgt = val = None
                if isinstance(a, ast.Assign) and len(a.targets) == 1:
                    tgt, val = a.targets[0], a.value
                elif isinstance(a, ast.AugAssign):
                    tgt, val = a.target, a.value
                if isinstance(tgt, ast.Attribute) and isinstance(tgt.value, ast.Name) and tgt.value.id == var and tgt.attr in need:
                    dep = _depends(val, shift_param, body)
                    res.add(dep, "H2-shift-uses-offset", f"{inst}.{tgt.attr}", fi.site(a), fi.qualname, "new value depends on the shift parameter",
                            f"new value of {kind}.{tgt.attr} does not depend on `{shift_param}`", construct=src(a)[:200])
        # dict-valued fields: keys and values both shifted
        if "swaps" in need:
            ok, why = _both_sides_shifted(body, var, "swaps", shift_param)
            res.add(ok, "H2-swaps-keys-and-values", inst, fi.site(node), fi.qualname, "keys and values of the swap dictionary are both shifted", why, construct=f"{kind}.swaps")
    return n


_CLOSURES: set = set()


def _closures(fn, param) -> set:
    """local functions / lambdas of fn whose body reads `param` (a call of one depends on param)"""
    out = set()
    for n in ast.walk(fn):
        if isinstance(n, (ast.FunctionDef, ast.AsyncFunctionDef)) and n is not fn:
            if any(isinstance(x, ast.Name) and x.id == param for b in n.body for x in ast.walk(b)) and param not in {a.arg for a in n.args.args}:
                out.add(n.name)
        if isinstance(n, ast.Assign) and isinstance(n.value, ast.Lambda) and isinstance(n.targets[0], ast.Name):
            if any(isinstance(x, ast.Name) and x.id == param for x in ast.walk(n.value.body)) and param not in {a.arg for a in n.value.args.args}:
                out.add(n.targets[0].id)
    return out


def _depends(val, param, body) -> bool:
    names = {x.id for x in ast.walk(val) if isinstance(x, ast.Name)}
    if param in names or (names & _CLOSURES):
        return True
    # through locals assigned in the same branch
    for _ in range(3):
        for s in body:
            for a in ast.walk(s):
                if isinstance(a, ast.Assign):
                    for t in a.targets:
                        for x in ast.walk(t):
                            if isinstance(x, ast.Name) and x.id in names:
                                names |= {y.id for y in ast.walk(a.value) if isinstance(y, ast.Name)}
                elif isinstance(a, ast.AugAssign) and isinstance(a.target, ast.Name) and a.target.id in names:
                    names |= {y.id for y in ast.walk(a.value) if isinstance(y, ast.Name)}
                elif isinstance(a, ast.For):
                    tn = {x.id for x in ast.walk(a.target) if isinstance(x, ast.Name)}
                    # values built inside a loop whose body uses the param
                    if any(isinstance(y, ast.Name) and y.id == param for b in a.body for y in ast.walk(b)):
                        for b in a.body:
                            for z in ast.walk(b):
                                if isinstance(z, ast.Subscript) and isinstance(z.ctx, ast.Store) and isinstance(z.value, ast.Name) and z.value.id in names:
                                    names.add(param)
        if param in names or (names & _CLOSURES):
            return True
    return param in names or bool(names & _CLOSURES)


def _both_sides_shifted(body, var, fld, param):
    for s in body:
        for a in ast.walk(s):
            if isinstance(a, ast.DictComp):
                g = a.generators[0]
                if f"{var}.{fld}" in src(g.iter) and isinstance(g.target, ast.Tuple) and len(g.target.elts) == 2:
                    k, v = (x.id for x in g.target.elts)
                    kd = {x.id for x in ast.walk(a.key) if isinstance(x, ast.Name)}
                    vd = {x.id for x in ast.walk(a.value) if isinstance(x, ast.Name)}
                    if k in kd and (param in kd or kd & _CLOSURES) and v in vd and (param in vd or vd & _CLOSURES):
                        return True, ""
                    return False, f"swap dictionary comprehension shifts only one side: key={src(a.key)} value={src(a.value)}"
            if isinstance(a, ast.For) and f"{var}.{fld}" in src(a.iter) and isinstance(a.target, ast.Tuple) and len(a.target.elts) == 2:
                k, v = (x.id for x in a.target.elts)
                shifted = set()
                for b in ast.walk(a):
                    if isinstance(b, ast.AugAssign) and isinstance(b.target, ast.Name) and any(isinstance(x, ast.Name) and x.id == param for x in ast.walk(b.value)):
                        shifted.add(b.target.id)
                    if isinstance(b, ast.Assign) and isinstance(b.targets[0], ast.Name) and any(isinstance(x, ast.Name) and x.id == param for x in ast.walk(b.value)):
                        shifted.add(b.targets[0].id)
                if {k, v} <= shifted:
                    return True, ""
                return False, f"loop over {var}.{fld} shifts only {sorted(shifted & {k, v})} of key/value"
    return False, f"no rewrite of {var}.{fld} found"


def h2_touches(ctx, res: Result, fi: FuncInfo, var: str, collector: str) -> int:
    """compress_mode_swaps: every mode a later component touches feeds the blocked set."""
    table = kind_table(ctx)
    chains = [c for c in heads(fi.node, var)]
    if not chains:
        raise AnalysisError(f"{fi.qualname}: no isinstance dispatch over `{var}`")
    _n, branches = chains[0]
    n = 0
    for kind, flds in sorted(table.items()):
        if kind in ("Barrier",):
            continue  # identity on the modes: does not block
        ks, body, node = branch_for(kind, branches, ctx)
        n += 1
        inst = f"{fi.qualname}:{kind}"
        if node is None or (ks is None and not body):
            res.bad("H2-blocked-modes-complete", inst, fi.site(), fi.qualname, f"kind {kind} is not considered when computing the modes a swap may not cross", construct=kind)
            continue
        need = {f for f in flds if f in MODE_FIELDS - {"circuit_spec"}}
        got = read_fields(body, var)
        missing = need - got
        if kind == "UnitaryMatrix" and "unitary" not in got:
            missing.add("unitary (extent)")
        if missing:
            res.bad("H2-blocked-modes-complete", inst, fi.site(node), fi.qualname,
                    f"modes of {kind} field(s) {sorted(missing)} do not feed `{collector}`: a mode swap can be commuted past a component it overlaps", construct=f"{kind} missing {sorted(missing)}")
        else:
            res.ok("H2-blocked-modes-complete", inst, fi.site(node), fi.qualname, f"reads {sorted(need)}")
    return n
