"""R-H  Exhaustive dispatch over component kinds; mode-bearing field coverage."""

from __future__ import annotations

import ast

from ..index import FuncInfo, walk_no_nested
from ..report import Result
from ..rules.rc_owner import component_info
from ..source import AnalysisError, src

# classification of component dataclass fields (frozen; an unclassified field is an ANALYSIS-ERROR)
MODE_FIELDS = {"mode", "mode_1", "mode_2", "modes", "swaps", "circuit_spec"}
REL_FIELDS = {"heralds"}  # keys relative to the group's first mode
SHAPE_FIELDS = {"unitary"}  # occupies mode .. mode + shape
PLAIN_FIELDS = {"reflectivity", "convention", "phi", "loss", "name", "label"}


def kind_table(ctx):
    comp, kinds, fields = component_info(ctx)
    table = {}
    for k in kinds:
        fl = [n for n, _a in ctx.ix.dataclass_fields(k)]
        for f in fl:
            if f not in MODE_FIELDS | REL_FIELDS | SHAPE_FIELDS | PLAIN_FIELDS:
                raise AnalysisError(f"component field {k.name}.{f} is not classified (mode-bearing or not?) - extend the table in rh_dispatch.py")
        table[k.name] = fl
    if len(table) < 7:
        raise AnalysisError(f"only {len(table)} component kinds found")
    return table


def isinstance_chain(fn: ast.FunctionDef, var: str):
    """Yield (If node chain) : list of (kinds tuple | None for else, body)."""
    for n in walk_no_nested(fn):
        if isinstance(n, ast.If) and _isinst(n.test, var):
            # only chain heads (not an elif of another)
            branches = []
            cur = n
            while True:
                ks = _isinst(cur.test, var)
                if not ks:
                    break
                branches.append((ks, cur.body, cur))
                if len(cur.orelse) == 1 and isinstance(cur.orelse[0], ast.If) and _isinst(cur.orelse[0].test, var):
                    cur = cur.orelse[0]
                    continue
                branches.append((None, cur.orelse, cur))
                break
            yield n, branches


def _isinst(test, var):
    t = test
    if isinstance(t, ast.BoolOp) and isinstance(t.op, ast.And):
        t = t.values[0]
    if isinstance(t, ast.Call) and isinstance(t.func, ast.Name) and t.func.id == "isinstance" and len(t.args) == 2 and isinstance(t.args[0], ast.Name) and t.args[0].id == var:
        a = t.args[1]
        out = []
        for x in ast.walk(a):
            if isinstance(x, ast.Name):
                out.append(x.id)
        return tuple(out)
    return None


def heads(fn, var):
    """isinstance chains that are not nested as the elif of another chain."""
    elifs = set()
    for n in walk_no_nested(fn):
        if isinstance(n, ast.If) and _isinst(n.test, var) and len(n.orelse) == 1 and isinstance(n.orelse[0], ast.If):
            elifs.add(id(n.orelse[0]))
    for n, br in isinstance_chain(fn, var):
        if id(n) not in elifs:
            yield n, br


def branch_for(kind: str, branches, ctx):
    ci = ctx.ix.cls(kind)
    names = {c.name for c in ctx.ix.mro(ci)}
    for ks, body, node in branches:
        if ks is None or (set(ks) & names):
            return ks, body, node
    return None, [], None


def stored_fields(body, var):
    out = set()
    for s in body:
        for n in ast.walk(s):
            if isinstance(n, ast.Attribute) and isinstance(n.ctx, ast.Store) and isinstance(n.value, ast.Name) and n.value.id == var:
                out.add(n.attr)
    return out


def read_fields(body, var):
    out = set()
    for s in body:
        for n in ast.walk(s):
            if isinstance(n, ast.Attribute) and isinstance(n.value, ast.Name) and n.value.id == var:
                out.add(n.attr)
    return out


def find_dispatch(ctx, fi: FuncInfo, var: str, param: str | None = None):
    """The isinstance dispatch over the component: in fi itself (guard clauses read as else-branches) or in a helper
    of the same module / class that fi hands the component to.  -> (FuncInfo, normalised node, var, param) or None"""
    import dataclasses
    from ..inline import else_normal

    fn = else_normal(fi.node)
    if list(heads(fn, var)):
        return fi, fn, var, param
    for c in walk_no_nested(fi.node):
        if not isinstance(c, ast.Call):
            continue
        h = None
        if isinstance(c.func, ast.Name):
            h = fi.module.functions.get(c.func.id)
        elif isinstance(c.func, ast.Attribute) and isinstance(c.func.value, ast.Name) and fi.cls is not None and c.func.value.id in ("self", "cls", fi.cls.name):
            h = fi.cls.methods.get(c.func.attr)
        if h is None or h.node is fi.node:
            continue
        hn = else_normal(h.node)
        hp = [a.arg for a in h.node.args.args if a.arg not in ("self", "cls")]
        for p in hp:
            if list(heads(hn, p)):
                newparam = param
                if param is not None:
                    bound = dict(zip(hp, c.args))
                    bound.update({k.arg: k.value for k in c.keywords if k.arg})
                    newparam = next((q for q, a in bound.items() if any(isinstance(x, ast.Name) and x.id == param for x in ast.walk(a)) and q != p), None)
                    if newparam is None:
                        continue
                return h, hn, p, newparam
    return None


def h2_shifter(ctx, res: Result, fi: FuncInfo, shift_param: str, with_rel: bool, var="spec") -> int:
    """Every mode-bearing field of every kind is rewritten in the branch that handles the kind,
    with an expression that involves the shift parameter; fall-through branches only touch fields the
    kinds reaching them have."""
    table = kind_table(ctx)
    found = find_dispatch(ctx, fi, var, shift_param)
    if found is None:
        res.frozen(False, "H2-every-mode-field-shifted", fi.qualname, fi.site(), fi.qualname, "", f"isinstance dispatch over the component not recognised in {fi.qualname} or a helper it calls", construct=fi.qualname)
        return len(table)
    fi, fnode, var, shift_param = found
    _CLOSURES.clear()
    _CLOSURES.update(_closures(fnode, shift_param))
    chains = list(heads(fnode, var))
    if len(chains) != 1:
        res.frozen(False, "H2-every-mode-field-shifted", fi.qualname, fi.site(), fi.qualname, "", f"expected one isinstance dispatch over `{var}`, found {len(chains)}", construct=fi.qualname)
        return len(table)
    _n, branches = chains[0]
    n = 0
    for kind, flds in sorted(table.items()):
        ks, body, node = branch_for(kind, branches, ctx)
        need = {f for f in flds if f in MODE_FIELDS} | ({f for f in flds if f in REL_FIELDS} if with_rel else set())
        got = stored_fields(body, var)
        n += 1
        inst = f"{fi.qualname}:{kind}"
        missing = need - got
        if node is None:
            res.bad("H2-every-mode-field-shifted", inst, fi.site(), fi.qualname, f"no branch handles component kind {kind}", construct=kind)
            continue
        if missing:
            res.bad("H2-every-mode-field-shifted", inst, fi.site(node), fi.qualname,
                    f"branch handling {kind} does not rewrite mode-bearing field(s) {sorted(missing)}: that part of the component stays on its old modes", construct=f"{kind} missing {sorted(missing)}")
        else:
            res.ok("H2-every-mode-field-shifted", inst, fi.site(node), fi.qualname, f"rewrites {sorted(need)}")
        # H1: the branch reads only fields the kind has
        extra = {f for f in read_fields(body, var) if f in MODE_FIELDS | REL_FIELDS | SHAPE_FIELDS | PLAIN_FIELDS} - set(flds)
        if extra and (ks is None):
            res.bad("H1-fallthrough-field-exists", inst, fi.site(node), fi.qualname, f"kind {kind} reaches the fall-through branch, which uses field(s) {sorted(extra)} it does not have", construct=f"{kind} lacks {sorted(extra)}")
        else:
            res.ok("H1-fallthrough-field-exists", inst, fi.site(node), fi.qualname, "branch uses only fields of the kind")
        # every rewritten mode field's new value depends on the shift parameter
        for s in body:
            for a in ast.walk(s):
                tgt = val = None
                if isinstance(a, ast.Assign) and len(a.targets) == 1:
                    tgt, val = a.targets[0], a.value
                elif isinstance(a, ast.AugAssign):
                    tgt, val = a.target, a.value
                if isinstance(tgt, ast.Attribute) and isinstance(tgt.value, ast.Name) and tgt.value.id == var and tgt.attr in need:
                    dep = _depends(val, shift_param, body)
                    res.add(dep, "H2-shift-uses-offset", f"{inst}.{tgt.attr}", fi.site(a), fi.qualname, "new value depends on the shift parameter",
                            f"new value of {kind}.{tgt.attr} does not depend on `{shift_param}`", construct=src(a)[:200])
        # dict-valued fields: keys and values both shifted
        if "swaps" in need:
            ok, why = _both_sides_shifted(body, var, "swaps", shift_param)
            res.add(ok, "H2-swaps-keys-and-values", inst, fi.site(node), fi.qualname, "keys and values of the swap dictionary are both shifted", why, construct=f"{kind}.swaps")
    return n


_CLOSURES: set = set()


def _closures(fn, param) -> set:
    """local functions / lambdas of fn whose body reads `param` (a call of one depends on param)"""
    out = set()
    for n in ast.walk(fn):
        if isinstance(n, (ast.FunctionDef, ast.AsyncFunctionDef)) and n is not fn:
            if any(isinstance(x, ast.Name) and x.id == param for b in n.body for x in ast.walk(b)) and param not in {a.arg for a in n.args.args}:
                out.add(n.name)
        if isinstance(n, ast.Assign) and isinstance(n.value, ast.Lambda) and isinstance(n.targets[0], ast.Name):
            if any(isinstance(x, ast.Name) and x.id == param for x in ast.walk(n.value.body)) and param not in {a.arg for a in n.value.args.args}:
                out.add(n.targets[0].id)
    return out


def _depends(val, param, body) -> bool:
    names = {x.id for x in ast.walk(val) if isinstance(x, ast.Name)}
    if param in names or (names & _CLOSURES):
        return True
    # through locals assigned in the same branch
    for _ in range(3):
        for s in body:
            for a in ast.walk(s):
                if isinstance(a, ast.Assign):
                    for t in a.targets:
                        for x in ast.walk(t):
                            if isinstance(x, ast.Name) and x.id in names:
                                names |= {y.id for y in ast.walk(a.value) if isinstance(y, ast.Name)}
                elif isinstance(a, ast.AugAssign) and isinstance(a.target, ast.Name) and a.target.id in names:
                    names |= {y.id for y in ast.walk(a.value) if isinstance(y, ast.Name)}
                elif isinstance(a, ast.For):
                    tn = {x.id for x in ast.walk(a.target) if isinstance(x, ast.Name)}
                    # values built inside a loop whose body uses the param
                    if any(isinstance(y, ast.Name) and y.id == param for b in a.body for y in ast.walk(b)):
                        for b in a.body:
                            for z in ast.walk(b):
                                if isinstance(z, ast.Subscript) and isinstance(z.ctx, ast.Store) and isinstance(z.value, ast.Name) and z.value.id in names:
                                    names.add(param)
        if param in names or (names & _CLOSURES):
            return True
    return param in names or bool(names & _CLOSURES)


def _both_sides_shifted(body, var, fld, param):
    for s in body:
        for a in ast.walk(s):
            if isinstance(a, ast.DictComp):
                g = a.generators[0]
                if f"{var}.{fld}" in src(g.iter) and isinstance(g.target, ast.Tuple) and len(g.target.elts) == 2:
                    k, v = (x.id for x in g.target.elts)
                    kd = {x.id for x in ast.walk(a.key) if isinstance(x, ast.Name)}
                    vd = {x.id for x in ast.walk(a.value) if isinstance(x, ast.Name)}
                    if k in kd and (param in kd or kd & _CLOSURES) and v in vd and (param in vd or vd & _CLOSURES):
                        return True, ""
                    return False, f"swap dictionary comprehension shifts only one side: key={src(a.key)} value={src(a.value)}"
            if isinstance(a, ast.For) and f"{var}.{fld}" in src(a.iter) and isinstance(a.target, ast.Tuple) and len(a.target.elts) == 2:
                k, v = (x.id for x in a.target.elts)
                shifted = set()
                for b in ast.walk(a):
                    if isinstance(b, ast.AugAssign) and isinstance(b.target, ast.Name) and any(isinstance(x, ast.Name) and x.id == param for x in ast.walk(b.value)):
                        shifted.add(b.target.id)
                    if isinstance(b, ast.Assign) and isinstance(b.targets[0], ast.Name) and any(isinstance(x, ast.Name) and x.id == param for x in ast.walk(b.value)):
                        shifted.add(b.targets[0].id)
                if {k, v} <= shifted:
                    return True, ""
                return False, f"loop over {var}.{fld} shifts only {sorted(shifted & {k, v})} of key/value"
    return False, f"no rewrite of {var}.{fld} found"


def reads_under_kind(ctx, fi: FuncInfo, stmts, var: str, mro_names: set, depth=0) -> set:
    """fields of `var` read on the paths that are feasible when var is an instance of a class with these MRO names
    (three-valued evaluation of isinstance tests; guard clauses end a path; helpers that receive var are entered)"""
    from .rm_struct import _isinstance_truth

    out: set = set()

    def expr_reads(e):
        for x in ast.walk(e):
            if isinstance(x, ast.Attribute) and isinstance(x.value, ast.Name) and x.value.id == var:
                out.add(x.attr)
            if isinstance(x, ast.Call) and depth < 3:
                h = None
                if isinstance(x.func, ast.Name):
                    h = fi.module.functions.get(x.func.id)
                elif isinstance(x.func, ast.Attribute) and isinstance(x.func.value, ast.Name) and fi.cls is not None and x.func.value.id in ("self", "cls", fi.cls.name):
                    h = fi.cls.methods.get(x.func.attr)
                if h is not None and h.node is not fi.node:
                    hp = [a.arg for a in h.node.args.args if a.arg not in ("self", "cls")]
                    for p_, a_ in list(zip(hp, x.args)) + [(k.arg, k.value) for k in x.keywords if k.arg]:
                        if isinstance(a_, ast.Name) and a_.id == var:
                            out.update(reads_under_kind(ctx, h, h.node.body, p_, mro_names, depth + 1))

    def run(body) -> bool:
        """-> True when the path ends inside body"""
        for s_ in body:
            if isinstance(s_, ast.If):
                v = _isinstance_truth(ctx, s_.test, var, mro_names)
                expr_reads(s_.test)
                if v is True:
                    if run(s_.body):
                        return True
                elif v is False:
                    if run(s_.orelse):
                        return True
                else:
                    e1, e2 = run(s_.body), run(s_.orelse)
                    if e1 and e2:
                        return True
            elif isinstance(s_, (ast.For, ast.While)):
                expr_reads(s_.iter if isinstance(s_, ast.For) else s_.test)
                run(s_.body)
                run(s_.orelse)
            elif isinstance(s_, ast.With):
                run(s_.body)
            elif isinstance(s_, ast.Try):
                run(s_.body)
                for h_ in s_.handlers:
                    run(h_.body)
            elif isinstance(s_, (ast.FunctionDef, ast.AsyncFunctionDef, ast.ClassDef)):
                continue
            else:
                expr_reads(s_)
                if isinstance(s_, (ast.Return, ast.Raise, ast.Continue, ast.Break)):
                    return True
        return False

    run(stmts)
    return out


def h2_touches(ctx, res: Result, fi: FuncInfo, var: str, collector: str) -> int:
    """compress_mode_swaps: every mode a later component touches feeds the blocked set.  Decided per component kind
    over the statements of the look-ahead loop that are feasible for that kind."""
    table = kind_table(ctx)
    # the look-ahead loop: a for loop nested in another for loop; its element variable is the later component
    inner = None
    for lp in walk_no_nested(fi.node):
        if isinstance(lp, ast.For):
            for l2 in ast.walk(lp):
                if l2 is not lp and isinstance(l2, ast.For) and "circuit_spec" in src(l2.iter):
                    inner = l2
    if inner is None:
        res.frozen(False, "H2-blocked-modes-complete", fi.qualname, fi.site(), fi.qualname, "", "look-ahead loop over the later components not recognised", construct=fi.qualname)
        return len(table)
    names = [x.id for x in ast.walk(inner.target) if isinstance(x, ast.Name)]
    var = var if var in names else names[-1]
    n = 0
    for kind, flds in sorted(table.items()):
        if kind in ("Barrier",):
            continue  # identity on the modes: does not block
        n += 1
        inst = f"{fi.qualname}:{kind}"
        mro = {c.name for c in ctx.ix.mro(ctx.ix.cls(kind))}
        got = reads_under_kind(ctx, fi, inner.body, var, mro)
        need = {f for f in flds if f in MODE_FIELDS - {"circuit_spec"}}
        missing = need - got
        if kind == "UnitaryMatrix" and "unitary" not in got:
            missing.add("unitary (extent)")
        if missing:
            res.bad("H2-blocked-modes-complete", inst, fi.site(inner), fi.qualname,
                    f"modes of {kind} field(s) {sorted(missing)} do not feed `{collector}`: a mode swap can be commuted past a component it overlaps", construct=f"{kind} missing {sorted(missing)}")
        else:
            res.ok("H2-blocked-modes-complete", inst, fi.site(inner), fi.qualname, f"reads {sorted(need)}")
    return n
