"""R-G  Probability mass is accumulated, never overwritten.

Every plain subscript store `D[k] = v` into a dict-like value in the anchored functions must be
one of the accepted idioms:
  (a) absent-guarded    store in the branch where `k not in D` (the other branch accumulates, unless
                        the value is a function of the key alone - a memo table)
  (b) injective re-key  k is an injective image of the element(s) of the enclosing iteration(s) and
                        this is the only store into D in that loop
  (c) self-rescale      for k, p in D.items(): D[k] = f(p)
  (d) emptiness-guarded under `if not D`
  (e) get-accumulate    D[k] = D.get(k, 0) + ...
  (i) index store       k is the counter of enumerate()/range() (arrays, lists)
A key that is a many-to-one image of the element (slice, per-mode map, merge, re-labelling)
must use (a) or (e).  Anything else is a report.
"""

from __future__ import annotations

import ast

from ..index import FuncInfo, walk_no_nested
from ..report import Result
from ..source import AnalysisError, src

INJECTIVE_WRAPPERS = {"State", "AnnotatedState", "tuple", "list", "str", "frozenset"}


def _parents(fn):
    par = {}
    for n in ast.walk(fn):
        for c in ast.iter_child_nodes(n):
            par[c] = n
    return par


def _enclosing(par, node, fn):
    """[(kind, node, branch)] from innermost outwards."""
    out = []
    p, child = par.get(node), node
    while p is not None and p is not fn:
        if isinstance(p, ast.If):
            out.append(("if", p, "body" if child in p.body else "orelse"))
        elif isinstance(p, (ast.For,)):
            if child in p.body:
                out.append(("for", p, "body"))
        elif isinstance(p, ast.While):
            out.append(("while", p, "body"))
        child, p = p, par.get(p)
    return out


def _membership(test, D: str, K: str):
    """-> 'absent' if test says K not in D, 'present' if K in D, else None (single comparison)."""
    t = test
    neg = False
    while isinstance(t, ast.UnaryOp) and isinstance(t.op, ast.Not):
        neg = not neg
        t = t.operand
    if isinstance(t, ast.Compare) and len(t.ops) == 1 and isinstance(t.ops[0], (ast.In, ast.NotIn)):
        if src(t.comparators[0]) in (D, D + ".keys()") and src(t.left) == K:
            isin = isinstance(t.ops[0], ast.In) != neg
            return "present" if isin else "absent"
    return None


def _loop_vars(lp: ast.For) -> set[str]:
    return {x.id for x in ast.walk(lp.target) if isinstance(x, ast.Name)}


def _counter_vars(lp: ast.For) -> set[str]:
    """index variables of enumerate()/range() iterations."""
    it = lp.iter
    if isinstance(it, ast.Call) and isinstance(it.func, ast.Name):
        if it.func.id == "range" and isinstance(lp.target, ast.Name):
            return {lp.target.id}
        if it.func.id == "enumerate" and isinstance(lp.target, ast.Tuple) and isinstance(lp.target.elts[0], ast.Name):
            return {lp.target.elts[0].id}
    return set()


def _injective_key(key: ast.AST, lvars: set[str], rebinds: dict[str, list]) -> tuple[bool, str]:
    """Is `key` an injective function of the loop variables it mentions (all of `lvars` that are
    *element* variables need not appear; but what appears must not be projected)?"""
    def inj(e) -> bool:
        if isinstance(e, ast.Name):
            return True
        if not ({x.id for x in ast.walk(e) if isinstance(x, ast.Name)} & lvars):
            return True  # does not depend on the iterated element: a constant factor of the key
        if isinstance(e, ast.Constant):
            return True
        if isinstance(e, ast.Call) and isinstance(e.func, ast.Name) and e.func.id in INJECTIVE_WRAPPERS and len(e.args) == 1 and not e.keywords:
            return inj(e.args[0])
        if isinstance(e, ast.Tuple):
            return all(inj(x) for x in e.elts)
        if isinstance(e, ast.BinOp) and isinstance(e.op, ast.Add):
            # concatenation of two different loop elements (product distribution)
            return inj(e.left) and inj(e.right)
        if isinstance(e, ast.Attribute) and e.attr == "s":
            return inj(e.value)
        return False

    if not inj(key):
        return False, f"key `{src(key)}` is a many-to-one image of the iterated element"
    names = {x.id for x in ast.walk(key) if isinstance(x, ast.Name)} - INJECTIVE_WRAPPERS
    used = names & lvars
    if not used:
        return False, f"key `{src(key)}` does not depend on the iterated element"
    for nm in used:
        for rb in rebinds.get(nm, []):
            if not _injective_rebind(rb, nm):
                return False, f"`{nm}` is re-bound to a many-to-one image of the element (`{src(rb)[:60]}`) before it is used as key"
    return True, ""


def _injective_rebind(stmt, name) -> bool:
    if isinstance(stmt, ast.Assign):
        if isinstance(stmt.targets[0], ast.Subscript):
            return False
        v = stmt.value
        if isinstance(v, ast.Call) and isinstance(v.func, ast.Name) and v.func.id in INJECTIVE_WRAPPERS and len(v.args) == 1 and src(v.args[0]) == name:
            return True
        if isinstance(v, ast.Attribute) and v.attr == "s" and src(v.value) == name:
            return True
        return False
    if isinstance(stmt, ast.AugAssign):
        return isinstance(stmt.target, ast.Subscript)  # x[i] += 1: one-coordinate shift
    return False


def sum_terms(e, sign=1):
    """Flatten a +/- expression into [(sign, node)]."""
    if isinstance(e, ast.BinOp) and isinstance(e.op, ast.Add):
        return sum_terms(e.left, sign) + sum_terms(e.right, sign)
    if isinstance(e, ast.BinOp) and isinstance(e.op, ast.Sub):
        return sum_terms(e.left, sign) + sum_terms(e.right, -sign)
    return [(sign, e)]


def classify_store(fi: FuncInfo, st: ast.Assign, par) -> tuple[str | None, str]:
    tgt = st.targets[0]
    D, K = src(tgt.value), src(tgt.slice)
    enc = _enclosing(par, st, fi.node)
    # (e)
    v = st.value
    if isinstance(v, ast.BinOp):
        for sg, side in sum_terms(v):
            if sg == 1 and isinstance(side, ast.Call) and isinstance(side.func, ast.Attribute) and side.func.attr == "get" and src(side.func.value) == D and side.args and src(side.args[0]) == K:
                return "e:get-accumulate", ""
    loops = [n for k, n, b in enc if k == "for"]
    lvars = set()
    for lp in loops:
        lvars |= _loop_vars(lp)
    # (a) / (d)
    for k, n, b in enc:
        if k != "if":
            continue
        m = _membership(n.test, D, K)
        if m is not None:
            absent_here = (m == "absent" and b == "body") or (m == "present" and b == "orelse")
            if absent_here:
                other = n.orelse if b == "body" else n.body
                acc = any(isinstance(x, ast.AugAssign) and src(x.target) == src(tgt) for s_ in other for x in ast.walk(s_))
                if acc:
                    return "a:absent-guarded+accumulate", ""
                key_names = {x.id for x in ast.walk(tgt.slice) if isinstance(x, ast.Name)}
                val_lv = {x.id for x in ast.walk(v) if isinstance(x, ast.Name)} & lvars
                if val_lv <= key_names:
                    return "a:absent-guarded(memo)", ""
                return None, f"key `{K}` is only stored when absent and nothing is added when it is already present: the weight `{src(v)[:40]}` of a coinciding outcome is dropped"
        t = n.test
        if isinstance(t, ast.UnaryOp) and isinstance(t.op, ast.Not) and src(t.operand) == D and b == "body":
            return "d:emptiness-guarded", ""
    if not loops:
        # straight-line store outside any loop: fine only into a dict created empty just before
        return None, f"store into `{D}` with key `{K}` outside any iteration: an entry that is already present is overwritten, not added to"
    inner = loops[0]
    # (i) index store
    counters = set()
    for lp in loops:
        counters |= _counter_vars(lp)
    knames = {x.id for x in ast.walk(tgt.slice) if isinstance(x, ast.Name)}
    if knames and knames <= counters:
        return "i:index-store", ""
    # (c)
    it = src(inner.iter)
    if it in (D + ".items()", D, D + ".keys()") and isinstance(tgt.slice, ast.Name) and tgt.slice.id in _loop_vars(inner):
        return "c:self-rescale", ""
    # (b)
    # locals that are an injective image of the iterated element (`occupation = list(fock)`) stand for the element
    derived_defs = {}
    for _round in range(3):
        for lp in loops:
            for s_ in lp.body:
                for x in ast.walk(s_):
                    if isinstance(x, ast.Assign) and x is not st and len(x.targets) == 1 and isinstance(x.targets[0], ast.Name) and x.targets[0].id not in lvars:
                        nm = x.targets[0].id
                        vn = {y.id for y in ast.walk(x.value) if isinstance(y, ast.Name)} - INJECTIVE_WRAPPERS
                        if vn & lvars and _injective_key(x.value, lvars, {})[0]:
                            derived_defs.setdefault(nm, set()).add(id(x))
    single = {nm for nm, ids in derived_defs.items() if len(ids) == 1}
    first_defs = {id_ for nm in single for id_ in derived_defs[nm]}
    lvars = lvars | single
    rebinds: dict[str, list] = {}
    for lp in loops:
        for s_ in lp.body:
            for x in ast.walk(s_):
                if isinstance(x, ast.Assign) and x is not st and id(x) not in first_defs:
                    for t2 in x.targets:
                        if isinstance(t2, ast.Name) and t2.id in lvars:
                            rebinds.setdefault(t2.id, []).append(x)
                        elif isinstance(t2, ast.Subscript) and isinstance(t2.value, ast.Name) and t2.value.id in lvars:
                            rebinds.setdefault(t2.value.id, []).append(x)  # element replaced: re-labelling
                elif isinstance(x, ast.AugAssign):
                    t2 = x.target
                    base = t2.value if isinstance(t2, ast.Subscript) else t2
                    if isinstance(base, ast.Name) and base.id in lvars:
                        rebinds.setdefault(base.id, []).append(x)
    ok, why = _injective_key(tgt.slice, lvars, rebinds)
    if ok:
        others = [x for x in ast.walk(inner) if isinstance(x, (ast.Assign, ast.AugAssign)) and x is not st and isinstance(x.targets[0] if isinstance(x, ast.Assign) else x.target, ast.Subscript)
                  and src((x.targets[0] if isinstance(x, ast.Assign) else x.target).value) == D]
        if not others:
            return "b:injective-rekey", ""
        return None, f"more than one store into `{D}` in the same loop"
    return None, why + " and the store neither tests for an existing entry nor adds to it: weights of outcomes that coincide are overwritten instead of summed"


def check_function(ctx, res: Result, fi: FuncInfo, exceptions=None, rule="G-mass-accumulated") -> int:
    exceptions = exceptions or {}
    par = _parents(fi.node)
    n = 0
    for st in walk_no_nested(fi.node):
        if not (isinstance(st, ast.Assign) and len(st.targets) == 1 and isinstance(st.targets[0], ast.Subscript)):
            continue
        tgt = st.targets[0]
        if isinstance(tgt.slice, (ast.Tuple, ast.Slice)):
            continue  # array element / slice stores
        n += 1
        cls, why = classify_store(fi, st, par)
        inst = f"{fi.qualname}:{src(tgt)[:50]}"
        if cls:
            res.ok(rule, inst, fi.site(st), fi.qualname, cls)
            continue
        handled = False
        for key, (reason, pre) in exceptions.items():
            if key in src(st):
                bad = pre(ctx, fi, st, par)
                if bad is None:
                    res.ok(rule, inst + ":exception", fi.site(st), fi.qualname, f"accepted by exception table: {reason}")
                    handled = True
                else:
                    why += f"; exception-table precondition no longer holds: {bad}"
        if not handled:
            res.bad(rule, inst, fi.site(st), fi.qualname, why, construct=src(st)[:200])
    # D.update(other) overwrites every key of `other` that D already holds: inside an iteration that is an assignment,
    # not an accumulation, unless D is known to be empty there
    stored_dicts = {src(st.targets[0].value) for st in walk_no_nested(fi.node) if isinstance(st, ast.Assign) and len(st.targets) == 1 and isinstance(st.targets[0], ast.Subscript)}
    stored_dicts |= {src(st.target.value) for st in walk_no_nested(fi.node) if isinstance(st, ast.AugAssign) and isinstance(st.target, ast.Subscript)}
    for c in walk_no_nested(fi.node):
        if isinstance(c, ast.Call) and isinstance(c.func, ast.Attribute) and c.func.attr == "update" and len(c.args) == 1 and isinstance(c.func.value, ast.Name):
            D = c.func.value.id
            enc = _enclosing(par, c, fi.node)
            in_loop = any(k == "for" for k, _n, _b in enc)
            if not in_loop or D not in stored_dicts:
                continue
            n += 1
            empty_guard = any(k == "if" and b == "body" and isinstance(nd.test, ast.UnaryOp) and isinstance(nd.test.op, ast.Not) and src(nd.test.operand) == D for k, nd, b in enc)
            inst = f"{fi.qualname}:{D}.update(...)"
            if empty_guard:
                res.ok(rule, inst, fi.site(c), fi.qualname, "d:emptiness-guarded update")
            else:
                res.bad(rule, inst, fi.site(c), fi.qualname, f"`{src(c)[:60]}` inside an iteration replaces the weight of every outcome already present in `{D}` instead of adding to it: outcomes reached from more than one term of the mixture lose mass", construct=src(c)[:160])
    # dictionary comprehensions are stores too: two elements with the same key keep only the last value
    for dc in walk_no_nested(fi.node):
        if not isinstance(dc, ast.DictComp):
            continue
        lvars = {x.id for g in dc.generators for x in ast.walk(g.target) if isinstance(x, ast.Name)}
        if not lvars:
            continue
        counters = set()
        for g in dc.generators:
            if isinstance(g.iter, ast.Call) and isinstance(g.iter.func, ast.Name):
                if g.iter.func.id == "range" and isinstance(g.target, ast.Name):
                    counters.add(g.target.id)
                if g.iter.func.id == "enumerate" and isinstance(g.target, ast.Tuple) and isinstance(g.target.elts[0], ast.Name):
                    counters.add(g.target.elts[0].id)
        vnames = {x.id for x in ast.walk(dc.value) if isinstance(x, ast.Name)} & lvars
        if vnames <= counters:
            continue  # value is a position / constant: a lookup table, not a weight map
        n += 1
        holder = par.get(dc)
        dname = src(holder.targets[0]) if isinstance(holder, ast.Assign) and len(holder.targets) == 1 else (src(holder.target) if isinstance(holder, ast.AnnAssign) else "<dict>")
        inst = f"{fi.qualname}:{dname}[{src(dc.key)[:40]}] (comprehension)"
        ok, why = _injective_key(dc.key, lvars, {})
        if ok:
            res.ok(rule, inst, fi.site(dc), fi.qualname, "b:injective-rekey (comprehension)")
            continue
        syn = ast.Assign(targets=[ast.Subscript(value=ast.Name(id=dname, ctx=ast.Load()), slice=dc.key, ctx=ast.Store())], value=dc.value, lineno=dc.lineno)
        handled = False
        for key, (reason, pre) in exceptions.items():
            if key in src(syn):
                bad = pre(ctx, fi, syn, par)
                if bad is None:
                    res.ok(rule, inst + ":exception", fi.site(dc), fi.qualname, f"accepted by exception table: {reason}")
                    handled = True
                else:
                    why += f"; exception-table precondition no longer holds: {bad}"
        if not handled:
            res.bad(rule, inst, fi.site(dc), fi.qualname, why + ": in a dictionary comprehension elements with the same key overwrite each other, their weights are not summed", construct=src(dc)[:200])
    return n


def g2_remainder_guard(ctx, res: Result, fi: FuncInfo, par=None) -> int:
    """`1 - total` is stored only under the guard `total < 1` (no negative mass)."""
    par = par or _parents(fi.node)
    n = 0
    for st in walk_no_nested(fi.node):
        if isinstance(st, (ast.Assign, ast.AugAssign)):
            v = st.value
            terms = sum_terms(v)
            one = any(sg == 1 and isinstance(t, ast.Constant) and t.value == 1 for sg, t in terms)
            negs = [src(t) for sg, t in terms if sg == -1 and (isinstance(t, ast.Name) or (isinstance(t, ast.Call) and src(t.func) == "sum"))]
            tgt = st.targets[0] if isinstance(st, ast.Assign) else st.target
            if not (one and negs) or not isinstance(tgt, ast.Subscript):
                continue
            n += 1
            tot = negs[0]
            guarded = False
            for k, node, b in _enclosing(par, st, fi.node):
                if k == "if" and b == "body":
                    for c in ast.walk(node.test):
                        if isinstance(c, ast.Compare) and len(c.ops) == 1:
                            l, r = src(c.left), src(c.comparators[0])
                            if (l == tot and r == "1" and isinstance(c.ops[0], (ast.Lt,))) or (l == "1" and r == tot and isinstance(c.ops[0], (ast.Gt,))):
                                guarded = True
            res.add(guarded, "G2-remainder-positive", f"{fi.qualname}:{src(tgt)[:40]}", fi.site(st), fi.qualname, f"remainder 1 - {tot} is stored only when {tot} < 1",
                    f"remainder `1 - {tot}` is stored without the guard `{tot} < 1`: a negative probability can enter the distribution", construct=src(st)[:200])
    return n


def renormalise_kept(ctx, res: Result, fi: FuncInfo, rule: str, inst: str, ok_msg: str, bad_prefix: str) -> None:
    """Weights are divided by the sum of exactly the dictionary they are taken from: `p / sum(D.values())` with p a
    value of D (loop or comprehension over D.items()).  Searched in fi and the private helpers of its class it calls."""
    from ..inline import inlined

    todo, seen = [fi], []
    while todo:
        f_ = todo.pop()
        if any(f_ is x for x in seen):
            continue
        seen.append(f_)
        if f_.cls is not None:
            for c in walk_no_nested(f_.node):
                if isinstance(c, ast.Call) and isinstance(c.func, ast.Attribute) and src(c.func.value) in ("self", f_.cls.name) and c.func.attr in f_.cls.methods and c.func.attr.startswith("_"):
                    todo.append(f_.cls.methods[c.func.attr])
    verdict, why, any_div = None, "", False
    for f_ in seen:
        fn = inlined(f_.node)
        par = {c: n_ for n_ in ast.walk(fn) for c in ast.iter_child_nodes(n_)}
        for d in [d for d in ast.walk(fn) if isinstance(d, ast.BinOp) and isinstance(d.op, ast.Div)]:
            r = d.right
            if isinstance(r, ast.Name):
                ds = [a.value for a in ast.walk(fn) if isinstance(a, ast.Assign) and len(a.targets) == 1 and src(a.targets[0]) == r.id]
                if len(ds) == 1:
                    r = ds[0]
            if not (isinstance(r, ast.Call) and src(r.func) == "sum" and len(r.args) == 1 and isinstance(r.args[0], ast.Call) and isinstance(r.args[0].func, ast.Attribute) and r.args[0].func.attr == "values"):
                continue
            any_div = True
            dname = src(r.args[0].func.value)
            x, iters, filtered = d, [], []
            prev = d
            while x is not None and x is not fn:
                prev, x = x, par.get(x)
                if isinstance(x, ast.For):
                    iters.append((x.target, x.iter))
                elif isinstance(x, (ast.DictComp, ast.ListComp, ast.GeneratorExp)):
                    iters += [(g.target, g.iter) for g in x.generators]
                    filtered += [c for g in x.generators for c in g.ifs]
                elif isinstance(x, ast.If) and prev in x.body + x.orelse and iters == []:
                    filtered.append(x.test)  # the division itself is conditional inside the loop
            same = [tg for tg, it in iters if src(it) == f"{dname}.items()" and isinstance(tg, ast.Tuple) and len(tg.elts) == 2 and src(tg.elts[1]) == src(d.left)]
            other = [it for tg, it in iters if src(it).endswith(".items()") and src(it) != f"{dname}.items()"]
            if same and filtered:
                verdict, why = False, f"only the entries of `{dname}` passing `{src(filtered[0])[:50]}` are kept, but they are divided by the sum of all of `{dname}`: the kept weights no longer sum to one"
            elif same:
                verdict = True
            elif other and verdict is None:
                verdict, why = False, f"weights of `{src(other[0])}` are divided by the sum of `{dname}`"
    if verdict is None:
        res.frozen(False, rule, inst, fi.site(), fi.qualname, "", "renormalisation idiom (p / sum(kept.values()) over kept.items()) not recognised", construct="renormalise")
    else:
        res.add(verdict, rule, inst, fi.site(), fi.qualname, ok_msg, f"{bad_prefix}: {why}", construct="renormalise")
