"""R-I pipeline order (def-use facts), detector stage order / polarity, R-J random-source discipline."""

from __future__ import annotations

import ast

from ..guards import Lit, Normaliser, canon, cnf, facts_at
from ..index import ClassInfo, FuncInfo, walk_no_nested
from ..report import Result
from ..rules.rf_cache import field_reads
from ..source import AnalysisError, src


def _names(e):
    return {x.id for x in ast.walk(e) if isinstance(x, ast.Name)}


def _stmt_fields(ctx, ci: ClassInfo, stmt) -> set[str]:
    """config properties of self read by a statement, through self-method calls too."""
    out = set()
    for n in ast.walk(stmt):
        if isinstance(n, ast.Attribute) and isinstance(n.value, ast.Name) and n.value.id == "self":
            r = ctx.ix.lookup(ci, n.attr)
            if r and r[0] == "method":
                sub = r[1]
                for m in ast.walk(sub.node):
                    if isinstance(m, ast.Attribute) and isinstance(m.value, ast.Name) and m.value.id == "self":
                        out.add(m.attr)
            else:
                out.add(n.attr)
    return out


def _enclosing_iters(par, node, stop):
    """(target, iter) of the loops / comprehension generators around node, innermost first"""
    out = []
    x = node
    prev = node
    while x is not None and x is not stop:
        prev, x = x, par.get(x)
        if isinstance(x, ast.For) and prev is not x.iter:
            out.append((x.target, x.iter))
        elif isinstance(x, ast.comprehension):
            # an `if` clause (or nested iter) of generator k is inside generators 0..k
            comp = par.get(x)
            k = comp.generators.index(x)
            gens = comp.generators[: k + 1] if prev is not x.iter else comp.generators[:k]
            out += [(g.target, g.iter) for g in reversed(gens)]
            prev, x = comp, comp
        elif isinstance(x, (ast.ListComp, ast.GeneratorExp, ast.SetComp, ast.DictComp)) and not isinstance(prev, ast.comprehension) and prev is not x:
            out += [(g.target, g.iter) for g in reversed(x.generators)]
    return out


def _random_effect(par, cmp_node):
    """For a comparison with random(): ('Sub'|'Add'|None) applied to the count when the comparison is true."""
    p = par.get(cmp_node)
    if isinstance(p, ast.If) and p.test is cmp_node:
        ops = [type(a.op).__name__ for b in p.body for a in ast.walk(b) if isinstance(a, ast.AugAssign)]
        return ops[0] if len(ops) == 1 else None
    if isinstance(p, ast.IfExp) and p.test is cmp_node:
        for br, sign in ((p.body, 1), (p.orelse, -1)):
            other = p.orelse if br is p.body else p.body
            if isinstance(br, ast.BinOp) and isinstance(br.op, (ast.Add, ast.Sub)) and src(br.left) == src(other) and src(br.right) == "1":
                op = "Add" if isinstance(br.op, ast.Add) else "Sub"
                return op if sign == 1 else ("neg:" + op)
        return None
    if isinstance(p, ast.comprehension) and cmp_node in p.ifs:
        comp = par.get(p)
        call = par.get(comp)
        if isinstance(call, ast.Call) and src(call.func) in ("sum", "len") and (src(comp.elt) == "1" or src(call.func) == "len"):
            outer = par.get(call)
            if isinstance(outer, ast.BinOp) and outer.right is call and isinstance(outer.op, (ast.Add, ast.Sub)):
                return "Add" if isinstance(outer.op, ast.Add) else "Sub"
    return None


def detector_stages(ctx, res: Result, det: ClassInfo) -> None:
    from ..inline import with_helpers

    go0 = det.methods.get("_get_output")
    if go0 is None:
        raise AnalysisError("Detector._get_output not found")
    go = with_helpers(ctx, go0)
    body = go.node.body
    order = {}
    for i, s in enumerate(body):
        if isinstance(s, ast.If) and any(isinstance(b, ast.Return) for b in s.body):
            continue  # perfect-detector shortcut
        fl = _stmt_fields(ctx, det, s)
        for f in ("efficiency", "p_dark", "photon_counting"):
            if f in fl and f not in order:
                order[f] = i
    if set(order) != {"efficiency", "p_dark", "photon_counting"} or len(set(order.values())) != 3:
        res.frozen(False, "I-detector-stage-order", "Detector._get_output", go.site(), go.qualname, "", f"the three detector stages are not identified as separate statements ({order})", construct=str(order))
    else:
        good = order["efficiency"] < order["p_dark"] < order["photon_counting"]
        res.add(good, "I-detector-stage-order", "Detector._get_output", go.site(), go.qualname, "efficiency loss, then dark counts, then threshold",
                f"detector stages run in the order {sorted(order, key=order.get)}: e.g. dark counts would be subject to efficiency loss, or counts above one survive thresholding", construct=str(sorted(order, key=order.get)))
    # shortcut only when the detector is perfect
    sc = [s for s in body if isinstance(s, ast.If) and any(isinstance(b, ast.Return) for b in s.body)]
    if sc:
        t = cnf(sc[0].test, Normaliser(lambda e: repr(e.value) if isinstance(e, ast.Constant) else None))
        want = {frozenset({canon("==", "self.efficiency", "1")}), frozenset({canon("==", "self.p_dark", "0")}), frozenset({Lit("truthy", "self.photon_counting")})}
        res.add(set(t) == want, "I-detector-shortcut", "Detector._get_output", go.site(sc[0]), go.qualname, "input returned unchanged only for efficiency 1, no dark counts and photon counting",
                f"the pass-through shortcut is taken under `{src(sc[0].test)}`", construct=src(sc[0].test))
    # polarities (searched in _get_output and its self-callees)
    fns = [go.node] + [det.methods[n.attr].node for n in ast.walk(go.node) if isinstance(n, ast.Attribute) and isinstance(n.value, ast.Name) and n.value.id == "self" and n.attr in det.methods]
    par = {}
    owner = {}
    for fn in fns:
        for n in ast.walk(fn):
            for c in ast.iter_child_nodes(n):
                par[c] = n
                owner[c] = fn
    eff = dark = thr = None
    for fn in fns:
        for n in ast.walk(fn):
            if isinstance(n, ast.Compare) and len(n.ops) == 1:
                l, r = src(n.left), src(n.comparators[0])
                op = type(n.ops[0]).__name__
                if "random()" in (l, r) or "random.random()" in (l, r):
                    other = r if "random" in l else l
                    if "random" not in l:
                        op = {"Gt": "Lt", "Lt": "Gt", "GtE": "LtE", "LtE": "GtE"}.get(op, op)
                    effect = _random_effect(par, n)
                    if effect and effect.startswith("neg:"):
                        effect = effect[4:]
                        op = {"Gt": "LtE", "Lt": "GtE", "GtE": "Lt", "LtE": "Gt"}.get(op, op)
                    if "efficiency" in other:
                        eff = (op, effect, n, fn)
                    if "p_dark" in other:
                        dark = (op, effect, n, fn)
            if isinstance(n, ast.IfExp) and isinstance(n.test, ast.Compare) and "random" not in src(n.test):
                thr = (n, )
            if isinstance(n, ast.Call) and src(n.func) == "min" and len(n.args) == 2 and "1" in [src(a) for a in n.args]:
                thr = (n, )
    for nm, found, want_ops, want_eff, msg_ok, what in (
        ("efficiency", eff, ("Gt", "GtE"), "Sub", "a photon is removed iff random() > efficiency", "photon removed"),
        ("p_dark", dark, ("Lt", "LtE"), "Add", "a dark count is added iff random() < p_dark", "count added"),
    ):
        if found is None or found[1] is None:
            res.frozen(False, "E-detector-polarity", nm, go.site(found[2]) if found else go.site(), go.qualname, "", f"{nm} stage: comparison of random() with {nm} and its effect on the count not recognised", construct=src(found[2]) if found else "")
        else:
            res.add(found[0] in want_ops and found[1] == want_eff, "E-detector-polarity", nm, go.site(found[2]), go.qualname, msg_ok,
                    f"{nm} stage: {what} ({found[1]}) when random() {found[0]} {nm}: " + ("detection probability is not the efficiency" if nm == "efficiency" else "dark-count probability is not p_dark"), construct=src(found[2]))
    if thr is None:
        res.frozen(False, "E-detector-polarity", "threshold", go.site(), go.qualname, "", "threshold stage (min(n, 1) / 1 if n >= 1 else 0) not recognised", construct="")
    else:
        n = thr[0]
        if isinstance(n, ast.Call):
            okt = True
        else:
            c = n.test
            v = src(c.left) if not isinstance(c.left, ast.Constant) else src(c.comparators[0])
            t = src(c).replace(" ", "").replace(v, "count")
            okt = (t in ("count>=1", "count>0", "1<=count", "0<count", "count!=0") and src(n.body) == "1" and src(n.orelse) == "0") or (t in ("count<1", "count==0", "count<=0", "1>count", "0==count") and src(n.body) == "0" and src(n.orelse) == "1")
            okt = okt or (t in ("count>1", "count>=2", "1<count", "count>=1") and src(n.body) == "1" and src(n.orelse) == v) or (t in ("count<=1", "count<2", "count<1", "1>=count") and src(n.body) == v and src(n.orelse) == "1")
        res.add(okt, "E-detector-polarity", "threshold", go.site(n), go.qualname, "threshold detection caps every count at one", f"threshold stage maps counts with `{src(n)}`", construct=src(n))
    # per-photon independence: the efficiency draw is iterated over range(n) inside the iteration over modes
    if eff is not None:
        chain = _enclosing_iters(par, eff[2], eff[3])
        inner_ok = len(chain) >= 2 and src(chain[0][1]).startswith("range(")
        if inner_ok:
            rng_arg = chain[0][1].args[-1] if isinstance(chain[0][1], ast.Call) and chain[0][1].args else None
            outer_names = {x.id for x in ast.walk(chain[1][0]) if isinstance(x, ast.Name)}
            inner_ok = rng_arg is not None and bool({x.id for x in ast.walk(rng_arg) if isinstance(x, ast.Name)} & outer_names)
        res.add(inner_ok, "I-detector-per-photon", "efficiency", go.site(eff[2]), go.qualname, "one independent draw per photon (iteration over range(n) inside the iteration over modes)",
                "efficiency is not applied with one independent draw per photon", construct=";".join(src(c[1]) for c in chain))
    if dark is not None:
        chain = _enclosing_iters(par, dark[2], dark[3])
        res.add(len(chain) == 1, "I-detector-per-photon", "p_dark", go.site(dark[2]), go.qualname, "at most one dark count per mode (single iteration over modes)", "dark counts are not drawn exactly once per mode", construct=";".join(src(c[1]) for c in chain))
    # output starts from a copy of the input
    ini = [a for a in ast.walk(go.node) if isinstance(a, ast.Assign) and src(a.targets[0]) == "output"]
    if not ini:
        res.frozen(False, "I-detector-copy", "output", go.site(), go.qualname, "", "working list `output` not recognised", construct="")
    else:
        alias = [a for a in ini if isinstance(a.value, ast.Name) and a.value.id in go.params() or src(a.value).endswith("__s")]
        res.add(not alias, "I-detector-copy", "output", go.site(ini[0]), go.qualname, "works on a copy of the sampled state", "detector works on the sampled state object itself", construct=src(alias[0]) if alias else "")


def strip_derivation(ctx, fi: FuncInfo, expr, D: str, depth=0) -> str:
    """How does `expr` derive from the full-space value named D?
    'STRIP' herald modes removed, 'SAME' the value itself, 'MIX' stripped when heralds exist else the value itself,
    'OTHER' derives from something else, 'UNKNOWN' not recognised."""
    if depth > 4:
        return "UNKNOWN"
    cls = fi.cls
    e = expr
    if isinstance(e, ast.Name):
        if e.id == D:
            return "SAME"
        defs = [a.value for a in walk_no_nested(fi.node) if isinstance(a, ast.Assign) and len(a.targets) == 1 and src(a.targets[0]) == e.id]
        if not defs:
            return "OTHER"
        got = {strip_derivation(ctx, fi, d, D, depth + 1) for d in defs}
        return _combine(got)
    if isinstance(e, ast.Call):
        f = src(e.func)
        if f.split(".")[-1] == "remove_heralds_from_state" and e.args:
            return "STRIP" if src(e.args[0]) == D else "OTHER"
        if f in ("State", "list", "tuple", "copy") and len(e.args) == 1:
            return strip_derivation(ctx, fi, e.args[0], D, depth + 1)
        if isinstance(e.func, ast.Attribute) and src(e.func.value) == "self" and cls is not None and e.func.attr in cls.methods and e.args:
            h = cls.methods[e.func.attr]
            params = h.params()[1:]
            if not params or src(e.args[0]) != D:
                return "UNKNOWN"
            rets = [r.value for r in walk_no_nested(h.node) if isinstance(r, ast.Return) and r.value is not None]
            if not rets:
                return "UNKNOWN"
            return _combine({strip_derivation(ctx, h, r, params[0], depth + 1) for r in rets})
        return "UNKNOWN"
    if isinstance(e, ast.Subscript) and isinstance(e.value, ast.Attribute) and src(e.value.value) == "self" and cls is not None:
        if src(e.slice) != D:
            return "OTHER"
        fld = e.value.attr
        stores = []
        for g in cls.all_funcs():
            for a in walk_no_nested(g.node):
                if isinstance(a, ast.Assign) and isinstance(a.targets[0], ast.Subscript) and isinstance(a.targets[0].value, ast.Attribute) and src(a.targets[0].value.value) == "self" and a.targets[0].value.attr == fld and isinstance(a.targets[0].slice, ast.Name):
                    stores.append((g, a))
            for a in walk_no_nested(g.node):
                # table (re)built by a comprehension: {s: State(remove_heralds_from_state(s, ...)) for s in ...}
                if isinstance(a, ast.Assign) and isinstance(a.targets[0], ast.Attribute) and src(a.targets[0].value) == "self" and a.targets[0].attr == fld and isinstance(a.value, ast.DictComp) and isinstance(a.value.key, ast.Name):
                    got = strip_derivation(ctx, g, a.value.value, a.value.key.id, depth + 1)
                    stores.append((g, None, got))
        if not stores:
            return "UNKNOWN"
        got = set()
        for st_ in stores:
            if len(st_) == 3:
                got.add(st_[2])
            else:
                g, a = st_
                got.add(strip_derivation(ctx, g, a.value, a.targets[0].slice.id, depth + 1))
        return _combine(got)
    if isinstance(e, ast.IfExp):
        return _combine({strip_derivation(ctx, fi, e.body, D, depth + 1), strip_derivation(ctx, fi, e.orelse, D, depth + 1)})
    return "UNKNOWN"


def _combine(got: set) -> str:
    if "UNKNOWN" in got:
        return "UNKNOWN"
    if "OTHER" in got:
        return "OTHER"
    if got == {"STRIP"}:
        return "STRIP"
    if got == {"SAME"}:
        return "SAME"
    if got <= {"STRIP", "SAME", "MIX"}:
        return "MIX"
    return "UNKNOWN"


def _strip_verdict(ctx, res, fi, expr, D, rule, inst, site, what):
    d = strip_derivation(ctx, fi, expr, D)
    if d in ("STRIP", "MIX"):
        res.ok(rule, inst, site, fi.qualname, f"{what} is `{D}` with the herald modes removed ({d})")
    elif d == "SAME":
        res.bad(rule, inst, site, fi.qualname, f"{what} is the full-mode value `{D}` itself on every path: heralded (ancilla) modes are never removed", construct=src(expr)[:120])
    elif d == "OTHER":
        res.bad(rule, inst, site, fi.qualname, f"{what} does not derive from `{D}` (the detected / thresholded state that was tested against the heralds)", construct=src(expr)[:120])
    else:
        res.frozen(False, rule, inst, site, fi.qualname, "", f"derivation of {what} from `{D}` not recognised", construct=src(expr)[:120])


def _find_loop_over(fi: FuncInfo, name: str):
    for l in walk_no_nested(fi.node):
        if isinstance(l, ast.For) and src(l.iter) == name:
            return l
    return None


def sample_n_inputs_pipeline(ctx, res: Result, fi: FuncInfo) -> None:
    lp = _find_loop_over(fi, "samples")
    if lp is None:
        raise AnalysisError(f"{fi.qualname}: loop over samples not found")
    elem = lp.target.id
    det = [a for a in lp.body if isinstance(a, ast.Assign) and isinstance(a.value, ast.Call) and src(a.value.func).endswith("_get_output")]
    inst = fi.qualname
    if not det or lp.body.index(det[0]) != 0 or src(det[0].value.args[0]) != elem:
        anywhere = [c for c in ast.walk(lp) if isinstance(c, ast.Call) and src(c.func).endswith("_get_output") and c.args and src(c.args[0]) == elem]
        earlier_use = [n for st_ in lp.body for n in ast.walk(st_) if isinstance(n, ast.Name) and n.id == elem and isinstance(n.ctx, ast.Load)]
        if anywhere:
            first_use = min(earlier_use, key=lambda n: (n.lineno, n.col_offset)) if earlier_use else None
            arg0 = anywhere[0].args[0]
            if first_use is arg0 or first_use is None:
                res.frozen(False, "I-pipeline-order", inst + ":detector-first", fi.site(anywhere[0]), fi.qualname, "", "the detector response is applied to the drawn sample first, but the rest of the per-sample pipeline is not in the recognised straight-line form (state-space rules B1/B3/B4/B5 still apply)", construct=src(lp.body[0])[:120])
            else:
                res.bad("I-pipeline-order", inst + ":detector-first", fi.site(lp), fi.qualname, "the drawn sample is used before the detector response is applied to it", construct=src(lp.body[0])[:120])
        else:
            res.bad("I-pipeline-order", inst + ":detector-first", fi.site(lp), fi.qualname, "the detector response is not applied to each drawn sample", construct=src(lp.body[0])[:120])
        return
    D = src(det[0].targets[0])
    res.ok("I-pipeline-order", inst + ":detector-first", fi.site(det[0]), fi.qualname, f"detector output `{D}` computed first")
    # herald test loop
    hl = [l for l in lp.body if isinstance(l, ast.For) and "herald" in src(l.iter)]
    if not hl:
        mentions = [st_ for st_ in lp.body if "herald" in src(st_)]
        if mentions:
            res.frozen(False, "I-pipeline-order", inst + ":herald-test", fi.site(mentions[0]), fi.qualname, "", "herald test is not in the recognised for/else form (state-space rules B1/B3/B4/B5 still apply)", construct=src(mentions[0])[:120])
        else:
            res.bad("I-pipeline-order", inst + ":herald-test", fi.site(lp), fi.qualname, "no herald test in the per-sample pipeline", construct=src(lp)[:120])
        return
    h = hl[0]
    tests = [n for n in ast.walk(h) if isinstance(n, ast.Compare) and isinstance(n.left, ast.Subscript)]
    hv = _names(h.target)
    good = bool(tests) and all(src(t.left.value) == D and isinstance(t.ops[0], ast.NotEq) and _names(t.left.slice) <= hv and _names(t.comparators[0]) <= hv for t in tests) and any(isinstance(b, ast.Break) for n in h.body for b in ast.walk(n)) and bool(h.orelse)
    res.add(good, "I-pipeline-order", inst + ":herald-test", fi.site(h), fi.qualname, "every herald (mode, photons) pair is tested on the detector output; any mismatch rejects the sample",
            f"herald test is not made on the detector output `{D}` for every herald mode (tested: {[src(t) for t in tests]})", construct=src(h)[:200])
    full_items = [a for a in walk_no_nested(fi.node) if isinstance(a, ast.Assign) and src(a.targets[0]) == src(h.iter)]
    res.add(bool(full_items) and src(full_items[0].value).replace(" ", "") in ("list(heralds.items())", "heralds.items()") , "I-pipeline-order", inst + ":herald-items", fi.site(h), fi.qualname, "all heralds are tested", "not every output herald is tested", construct=src(full_items[0]) if full_items else "")
    # acceptance block
    acc = h.orelse
    apps = [c for s in acc for c in ast.walk(s) if isinstance(c, ast.Call) and isinstance(c.func, ast.Attribute) and c.func.attr == "append" and isinstance(c.func.value, ast.Name)]
    if len(apps) != 1:
        raise AnalysisError(f"{fi.qualname}: accepted-sample append not found")
    hs = src(apps[0].args[0])
    # hs is the herald-removed detector output
    _strip_verdict(ctx, res, fi, apps[0].args[0], D, "I-pipeline-order", inst + ":herald-removal", fi.site(apps[0]), "the accepted value")
    hm = [a for a in walk_no_nested(fi.node) if isinstance(a, ast.Assign) and src(a.targets[0]) == "herald_modes"]
    res.frozen(bool(hm) and src(hm[0].value).replace(" ", "") in ("list(heralds.keys())", "list(heralds)", "heralds.keys()", "sorted(heralds)", "sorted(heralds.keys())"), "I-pipeline-order", inst + ":herald-modes", fi.site(), fi.qualname, "all herald modes are removed", "not all output herald modes are removed", construct=src(hm[0]) if hm else "")
    hd = [a for a in walk_no_nested(fi.node) if isinstance(a, ast.Assign) and src(a.targets[0]) == "heralds"]
    res.add(bool(hd) and src(hd[0].value).replace("'", '"') == 'self.circuit.heralds["output"]', "I-pipeline-order", inst + ":output-heralds", fi.site(), fi.qualname, "samples are tested against the circuit's *output* heralds", "herald test does not use the circuit's output heralds", construct=src(hd[0]) if hd else "")
    # filter on the same value
    stmt = apps[0]
    par = ctx.tree.parents(fi.rel)
    st = stmt
    while not isinstance(st, ast.stmt):
        st = par[st]
    facts = facts_at(fi.node, st, Normaliser()) or []
    f1 = frozenset({Lit("truthy", f"post_select.validate({hs})")})
    f2 = frozenset({canon(">=", f"{hs}.n_photons", "min_detection")})
    res.add(f1 in facts, "I-filter-post-selection", inst, fi.site(st), fi.qualname, "only samples accepted by the post-selection are kept", f"the kept value `{hs}` is not the one validated by the post-selection", construct=src(st))
    res.add(f2 in facts, "E-min-detection", inst, fi.site(st), fi.qualname, "only samples with n_photons >= min_detection are kept", f"minimum-detection filter is not `{hs}.n_photons >= min_detection` on the kept value; established: " + "; ".join(" or ".join(map(str, f)) for f in facts if "min_detection" in str(f)), construct=src(st))
    # result built from the filtered list
    rets = [r for r in walk_no_nested(fi.node) if isinstance(r, ast.Return)]
    lst = src(apps[0].func.value)
    cnt = [a for a in walk_no_nested(fi.node) if isinstance(a, ast.Assign) and "Counter(" in src(a.value)]
    res.add(bool(cnt) and lst in src(cnt[0].value) and src(cnt[0].targets[0]) in src(rets[-1].value), "I-pipeline-order", inst + ":result", fi.site(rets[-1]), fi.qualname, "result counts exactly the accepted samples", "result is not the count of the accepted samples", construct=src(rets[-1]))


def sample_n_outputs_pipeline(ctx, res: Result, fi: FuncInfo) -> None:
    inst = fi.qualname
    lp = None
    for l in walk_no_nested(fi.node):
        if isinstance(l, ast.For) and src(l.iter) == "pdist.items()":
            lp = l
    if lp is None:
        raise AnalysisError(f"{fi.qualname}: loop over the distribution not found")
    s, p = (x.id for x in lp.target.elts)
    first = lp.body[0]
    thr_ok = isinstance(first, ast.If) and src(first.test).replace(" ", "") == "notself.detector.photon_counting" and any(isinstance(a, ast.Assign) and src(a.targets[0]) == s and ("min(i,1)" in src(a.value).replace(" ", "") or "1ifi>=1else0" in src(a.value).replace(" ", "") or "1ifi>0else0" in src(a.value).replace(" ", "")) for a in first.body)
    if thr_ok:
        res.ok("I-pipeline-order", inst + ":threshold-first", fi.site(first), fi.qualname, "threshold detection is applied to the full state before the herald test")
    else:
        pos_thr = next((i_ for i_, st_ in enumerate(lp.body) if "photon_counting" in src(st_)), None)
        pos_her = next((i_ for i_, st_ in enumerate(lp.body) if "herald" in src(st_) and any(isinstance(x, ast.Compare) for x in ast.walk(st_))), None)
        if pos_thr is not None and pos_her is not None and pos_thr > pos_her:
            res.bad("I-pipeline-order", inst + ":threshold-first", fi.site(lp.body[pos_thr]), fi.qualname, "threshold detection is applied after the herald test: a herald mode holding two or more photons clicks once on a threshold detector and must satisfy a one-photon herald", construct=src(lp.body[pos_thr])[:160])
        elif pos_thr is not None and pos_her is not None and pos_thr == pos_her:
            res.frozen(False, "I-pipeline-order", inst + ":threshold-first", fi.site(first), fi.qualname, "", "threshold detection and herald test are in one statement", construct=src(first)[:160])
        else:
            res.frozen(False, "I-pipeline-order", inst + ":threshold-first", fi.site(first), fi.qualname, "", "threshold-detection step not recognised", construct=src(first)[:160])
    hl = [l for l in lp.body if isinstance(l, ast.For) and "herald" in src(l.iter)]
    if not hl:
        if any("herald" in src(st_) for st_ in lp.body):
            res.frozen(False, "I-pipeline-order", inst + ":herald-test", fi.site(lp), fi.qualname, "", "herald test is not in the recognised loop form (state-space rules B1/B3/B4/B5 still apply)", construct=src(lp)[:100])
        else:
            res.bad("I-pipeline-order", inst + ":herald-test", fi.site(lp), fi.qualname, "no herald test when converting the distribution", construct=src(lp)[:100])
        return
    h = hl[0]
    tests = [n for n in ast.walk(h) if isinstance(n, ast.Compare) and isinstance(n.left, ast.Subscript)]
    good = bool(tests) and all(src(t.left.value) == s and isinstance(t.ops[0], ast.NotEq) for t in tests) and bool(h.orelse) and lp.body.index(h) > 0
    res.add(good, "I-pipeline-order", inst + ":herald-test", fi.site(h), fi.qualname, "heralds tested on the (thresholded) full output state", "herald test is not made on the thresholded output state", construct=src(h)[:160])
    acc = h.orelse
    stores = [a for st_ in acc for a in ast.walk(st_) if isinstance(a, (ast.Assign, ast.AugAssign)) and isinstance((a.targets[0] if isinstance(a, ast.Assign) else a.target), ast.Subscript) and src((a.targets[0] if isinstance(a, ast.Assign) else a.target).value) == "new_dist"]
    if not stores:
        raise AnalysisError(f"{fi.qualname}: accumulation into the converted distribution not found")
    key = src((stores[0].targets[0] if isinstance(stores[0], ast.Assign) else stores[0].target).slice)
    _strip_verdict(ctx, res, fi, ast.Name(id=key, ctx=ast.Load()) if key.isidentifier() else (stores[0].targets[0] if isinstance(stores[0], ast.Assign) else stores[0].target).slice, s, "I-pipeline-order", inst + ":herald-removal", fi.site(acc[0]), f"the kept key `{key}`")
    facts = facts_at(fi.node, stores[0], Normaliser()) or []
    f1 = frozenset({Lit("truthy", f"post_select.validate({key})")})
    f2 = frozenset({canon(">=", f"{key}.n_photons", "min_detection")})
    res.add(f1 in facts, "I-filter-post-selection", inst, fi.site(stores[0]), fi.qualname, "only outputs accepted by the post-selection are kept", "post-selection is not evaluated on the kept (visible) state", construct=src(stores[0]))
    res.add(f2 in facts, "E-min-detection", inst, fi.site(stores[0]), fi.qualname, "only outputs with n_photons >= min_detection are kept", "minimum-detection filter is not `n_photons >= min_detection` on the kept state", construct=src(stores[0]))
    def _w(a):
        v = src(a.value).replace(" ", "")
        g = f"new_dist.get({key},0)"
        return p if v in (p, f"{g}+{p}", f"{p}+{g}") else v
    vals = {_w(a) for a in stores}
    res.add(vals == {p}, "I-pipeline-order", inst + ":weights", fi.site(stores[0]), fi.qualname, "kept outputs carry their own probability", f"weights stored are {sorted(vals)}", construct=str(sorted(vals)))
    # renormalise, draw exactly N, nothing filtered afterwards
    ch = [c for c in walk_no_nested(fi.node) if isinstance(c, ast.Call) and src(c.func).endswith(".choice")]
    if len(ch) != 1:
        raise AnalysisError(f"{fi.qualname}: expected one categorical draw")
    kw = {k.arg: src(k.value) for k in ch[0].keywords}
    res.add(kw.get("size") == "N", "I-exactly-N", inst, fi.site(ch[0]), fi.qualname, "draws size=N samples", f"draw uses size={kw.get('size')}", construct=src(ch[0]))
    norm = [a for a in walk_no_nested(fi.node) if isinstance(a, ast.Assign) and isinstance(a.value, ast.BinOp) and isinstance(a.value.op, ast.Div) and "sum(" in src(a.value.right)]
    res.add(bool(norm) and src(norm[0].targets[0]) == kw.get("p"), "I-pipeline-order", inst + ":renormalise", fi.site(ch[0]), fi.qualname, "probabilities are renormalised over the kept outputs", "draw does not use the renormalised probabilities of the kept outputs", construct=src(ch[0]))
    rets = [r for r in walk_no_nested(fi.node) if isinstance(r, ast.Return)]
    tgt = _assign_target_of(ctx, fi, ch[0])
    cnt = [a for a in walk_no_nested(fi.node) if isinstance(a, ast.Assign) and "Counter(" in src(a.value)]
    res.add(bool(cnt) and tgt is not None and f"Counter({tgt})" in src(cnt[0].value) and src(cnt[0].targets[0]) in src(rets[-1].value), "I-exactly-N", inst + ":unfiltered", fi.site(rets[-1]), fi.qualname,
            "all N drawn samples are counted into the result", "drawn samples are filtered or altered before being counted: fewer than N may be returned", construct=src(cnt[0]) if cnt else "")


def _assign_target_of(ctx, fi, call):
    par = ctx.tree.parents(fi.rel)
    p = par.get(call)
    if isinstance(p, ast.Assign) and isinstance(p.targets[0], ast.Name):
        return p.targets[0].id
    return None


def _guard_nodes(ctx, fi: FuncInfo, cfg, pred):
    """CFG nodes of fi that enforce a refusal: a raising `if` whose test satisfies pred, or a call to a
    self-method whose body contains such a raising `if` (validation moved into a helper)."""
    from ..cfg import own_exprs

    out = []
    for n in cfg.nodes:
        if n.kind == "test" and isinstance(n.ast, ast.If) and pred(src(n.ast.test).replace(" ", "")) and any(isinstance(b, ast.Raise) for b in ast.walk(n.ast) if b in n.ast.body or any(b in x.body for x in n.ast.body if isinstance(x, ast.If))):
            out.append(n)
        elif n.ast is not None and n.kind == "stmt" and fi.cls is not None:
            for e in own_exprs(n):
                for c in ast.walk(e):
                    if isinstance(c, ast.Call) and isinstance(c.func, ast.Attribute) and src(c.func.value) == "self" and c.func.attr in fi.cls.methods:
                        h = fi.cls.methods[c.func.attr]
                        body_txt = "".join(src(x) for x in h.node.body if not (isinstance(x, ast.Expr) and isinstance(x.value, ast.Constant))).replace(" ", "")
                        raises = any(isinstance(g, ast.Raise) for g in walk_no_nested(h.node))
                        # a validation helper: its whole body is the guard (locals inlined by looking at the text of the body)
                        if raises and pred(body_txt):
                            out.append(n)
    return out


def refusals(ctx, res: Result, fi: FuncInfo, need_dark: bool) -> None:
    """Guards that must dominate the sampling work."""
    cfg = ctx.cfg(fi)
    dom = cfg.dominators()
    from ..cfg import own_exprs

    gnames_ = {src(a.targets[0]) for a in walk_no_nested(fi.node) if isinstance(a, ast.Assign) and isinstance(a.value, ast.Call) and src(a.value.func).endswith("default_rng")}
    work = [n for n in cfg.nodes if n.ast is not None and any(isinstance(x, ast.Call) and (src(x.func).endswith(".choice") or (not src(x.func).endswith("default_rng") and any(isinstance(a_, ast.Name) and a_.id in gnames_ for a_ in x.args))) for e in own_exprs(n) for x in ast.walk(e))]
    if need_dark:
        g = _guard_nodes(ctx, fi, cfg, lambda t: t in ("self.detector.p_dark!=0", "self.detector.p_dark>0", "self.detector.p_dark", "self.detector.p_dark!=0.0", "notself.detector.p_dark==0"))
        good = bool(g) and bool(work) and all(any(x.id in dom[w.id] for x in g) for w in work)
        res.add(good, "D-dark-counts-refused", fi.qualname, fi.site(), fi.qualname, "a detector with dark counts is refused before any sample is drawn",
                "sample_N_outputs no longer refuses detectors with dark counts (its distribution conversion cannot model them)", construct="p_dark guard")
    loops = [n for n in cfg.nodes if n.kind == "for" and src(n.ast.iter) in ("samples", "pdist.items()")]
    hg = _guard_nodes(ctx, fi, cfg, lambda t: "max(" in t and ".values())>1" in t and "photon_counting" in t)
    good = bool(hg) and bool(loops) and all(any(x.id in dom[l.id] for x in hg) or _guarded_outer(cfg, dom, hg, l) for l in loops)
    res.add(good, "D-multi-photon-herald-refused", fi.qualname, fi.site(), fi.qualname, "a herald above one photon with threshold detectors is refused before sampling",
            "heralds above one photon with threshold detectors are no longer refused before the sampling loop", construct="herald guard")


def _guarded_outer(cfg, dom, guards, loop):
    # guard nested under `if heralds:` : the outer test dominates the loop and the guard is its only raising child
    for g in guards:
        for t in cfg.nodes:
            if t.kind == "test" and t.id in dom[g.id] and t.id in dom[loop.id] and src(t.ast.test) == "heralds":
                return True
    return False


def seeds(ctx, res: Result, fi: FuncInfo, det: ClassInfo | None) -> None:
    """J1: every draw of a seeded API derives from `seed`."""
    if "seed" not in fi.params():
        raise AnalysisError(f"{fi.qualname}: no seed parameter")
    gens = [a for a in walk_no_nested(fi.node) if isinstance(a, ast.Assign) and isinstance(a.value, ast.Call) and src(a.value.func).endswith("default_rng")]
    draws = [c for c in walk_no_nested(fi.node) if isinstance(c, ast.Call) and isinstance(c.func, ast.Attribute) and c.func.attr in ("choice", "random", "uniform", "normal", "integers", "shuffle", "permutation", "multinomial")]
    glob = [c for c in draws if src(c.func.value) in ("np.random", "numpy.random", "random")]
    for c in glob:
        res.bad("J1-draws-from-seeded-generator", f"{fi.qualname}:{src(c.func)}", fi.site(c), fi.qualname, "draw uses the global generator, which the seed parameter does not control: a fixed seed does not reproduce the result", construct=src(c)[:120])
    local = [c for c in draws if c not in glob]
    # a generator built here and handed to a helper that draws with it
    gnames = {src(a.targets[0]) for a in gens}
    handed = [c for c in walk_no_nested(fi.node) if isinstance(c, ast.Call) and c not in draws and not src(c.func).endswith("default_rng") and any(isinstance(a_, ast.Name) and a_.id in gnames for a_ in list(c.args) + [k.value for k in c.keywords])]
    for c in handed:
        g = next(a_.id for a_ in list(c.args) + [k.value for k in c.keywords] if isinstance(a_, ast.Name) and a_.id in gnames)
        gd = [a for a in gens if src(a.targets[0]) == g]
        ok = all(len(a.value.args) == 1 and src(a.value.args[0]) in ("process_random_seed(seed)", "seed") and a.lineno <= c.lineno for a in gd)
        res.add(ok, "J1-draws-from-seeded-generator", f"{fi.qualname}:{src(c.func)}", fi.site(c), fi.qualname, f"the generator built from process_random_seed(seed) is handed to {src(c.func)}",
                f"generator `{g}` handed to {src(c.func)} is not built from the seed argument", construct=src(c)[:120])
    draws = draws + handed
    for c in local:
        g = src(c.func.value)
        gd = [a for a in gens if src(a.targets[0]) == g]
        ok = bool(gd) and all(len(a.value.args) == 1 and src(a.value.args[0]) in ("process_random_seed(seed)", "seed") and a.lineno < c.lineno for a in gd)
        if ok and any(src(a.value.args[0]) == "seed" for a in gd):
            ok = any(isinstance(x, ast.Assign) and src(x.targets[0]) == "seed" and src(x.value) == "process_random_seed(seed)" for x in walk_no_nested(fi.node))
        res.add(ok, "J1-draws-from-seeded-generator", f"{fi.qualname}:{src(c.func)}", fi.site(c), fi.qualname, "generator is built in this call from process_random_seed(seed)",
                f"generator `{g}` is not built from the seed argument before the draw", construct=src(c)[:120])
    if not draws:
        res.frozen(False, "J1-draws-from-seeded-generator", fi.qualname, fi.site(), fi.qualname, "", "no random draw recognised in this function", construct="")
    # detector draws use the global `random` module: seeded by _set_random_seed(seed) before the first call
    dcalls = [c for c in walk_no_nested(fi.node) if isinstance(c, ast.Call) and src(c.func).endswith("_get_output")]
    if dcalls and det is not None:
        cfg = ctx.cfg(fi)
        dom = cfg.dominators()
        from ..cfg import own_exprs

        sn = [n for n in cfg.nodes if n.ast is not None and any(isinstance(x, ast.Call) and src(x.func).endswith("_set_random_seed") and [src(a) for a in x.args] == ["seed"] for e in own_exprs(n) for x in ast.walk(e))]
        dn = [n for n in cfg.nodes if n.ast is not None and any(x in dcalls for e in own_exprs(n) for x in ast.walk(e))]
        good = bool(sn) and all(any(s.id in dom[d.id] for s in sn) for d in dn)
        res.add(good, "J1-detector-seeded-before-draws", fi.qualname, fi.site(), fi.qualname, "detector._set_random_seed(seed) dominates every detector draw", "detector draws are not dominated by seeding the detector with this call's seed", construct="_set_random_seed")
        # the seeding function seeds the generator the detector draws from
        ss = det.methods.get("_set_random_seed")
        go = det.methods.get("_get_output")
        imp = det.module.imports
        ok = ss is not None and any(isinstance(c, ast.Call) and src(c.func) == "seed" and [src(a) for a in c.args] == [ss.params()[1]] for c in walk_no_nested(ss.node)) and imp.get("seed") == ("random", "seed") and imp.get("random") == ("random", "random")
        draws_d = {src(c.func) for c in ast.walk(go.node) if isinstance(c, ast.Call) and "random" in src(c.func)}
        res.add(ok and draws_d <= {"random"}, "J2-seed-rebinds-draw-source", "Detector", ss.site() if ss else go.site(), "Detector._set_random_seed", "seed() and random() belong to the same (module-level) generator",
                f"Detector._set_random_seed does not seed the generator _get_output draws from ({sorted(draws_d)})", construct=str(sorted(draws_d)))
