"""R-A  Mode-space qualifiers in Circuit: user indices vs full (ancilla-inclusive) indices.

Qualifiers: USER, FULL (index into self's full mode space), SUB (full index local to an
added sub-circuit), REL (offsets / counts / constants), '?' (unknown: never a report).
Containers: ('list', q) and ('dict', kq, vq).
"""

from __future__ import annotations

import ast

from ..index import ClassInfo, FuncInfo, mangle, walk_no_nested
from ..must import MustWalk
from ..report import Result
from ..source import AnalysisError, src

USER, FULL, SUB, REL, UNK = "USER", "FULL", "SUB", "REL", "?"

# public mutators and their user-index parameters (sources); frozen from the API documentation
SOURCES = {
    "add": {"mode": USER},
    "bs": {"mode_1": USER, "mode_2": USER},
    "ps": {"mode": USER},
    "loss": {"mode": USER},
    "barrier": {"modes": ("list", USER)},
    "mode_swaps": {"swaps": ("dict", USER, USER)},
    "herald": {"input_mode": USER, "output_mode": USER},
}
COMPONENT_MODE_ARGS = {  # positional indices of mode-bearing constructor arguments
    "BeamSplitter": [0, 1], "PhaseShifter": [0], "Loss": [0], "Barrier": [0], "ModeSwaps": [0], "Group": [2, 3], "UnitaryMatrix": [0],
}


def helper_roles(ci, name: str, mapper="_map_mode", rangecheck="_mode_in_range", _depth=0) -> dict:
    """What a private self-helper does with its parameters: {'maps': bool, 'validates': set of parameter names
    (or all) that reach the range check (directly, through a loop over the parameter, or after mapping)}."""
    h = ci.methods.get(name)
    if h is None:
        return {"maps": False, "validates": set(), "params": []}
    params = h.params()[1:] if h.kind != "static" else h.params()
    txt = src(h.node)
    maps = f"self.{mapper}(" in txt and any(isinstance(r, ast.Return) and r.value is not None for r in walk_no_nested(h.node))
    validated = set()
    for c in walk_no_nested(h.node):
        checked_args = []
        if isinstance(c, ast.Call) and src(c.func) == f"self.{rangecheck}" and c.args:
            checked_args = [c.args[0]]
        elif isinstance(c, ast.Call) and isinstance(c.func, ast.Attribute) and src(c.func.value) == "self" and c.func.attr in ci.methods and c.func.attr not in (name, mapper, rangecheck) and _depth < 3:
            sub = helper_roles(ci, c.func.attr, mapper, rangecheck, _depth + 1)
            checked_args = [a for pn, a in zip(sub["params"], c.args) if pn in sub["validates"]]
        for arg0 in checked_args:
            names = {x.id for x in ast.walk(arg0) if isinstance(x, ast.Name)}
            # follow local derivations back to parameters (x = self._map_mode(p); for m in modes: ...)
            for _ in range(4):
                for n in walk_no_nested(h.node):
                    if isinstance(n, ast.Assign) and len(n.targets) == 1 and isinstance(n.targets[0], ast.Name) and n.targets[0].id in names:
                        names |= {x.id for x in ast.walk(n.value) if isinstance(x, ast.Name)}
                    if isinstance(n, ast.For) and any(isinstance(x, ast.Name) and x.id in names for x in ast.walk(n.target)):
                        names |= {x.id for x in ast.walk(n.iter) if isinstance(x, ast.Name)}
            validated |= names & set(params)
    return {"maps": maps, "validates": validated, "params": params}


def jq(a, b):
    if a == b:
        return a
    if a is None:
        return b
    if b is None:
        return a
    if isinstance(a, tuple) and isinstance(b, tuple) and a[0] == b[0] and len(a) == len(b):
        return (a[0], *[jq(x, y) for x, y in zip(a[1:], b[1:])])
    # two different index spaces meet at a join: keep both (may-set) so that a sink can still see
    # "already mapped on one path" / "not yet mapped on one path"
    sa = a if isinstance(a, frozenset) else (frozenset({a}) if a in (USER, FULL, SUB) else None)
    sb = b if isinstance(b, frozenset) else (frozenset({b}) if b in (USER, FULL, SUB) else None)
    if sa is not None and sb is not None:
        return sa | sb
    return UNK


def elem(q):
    if isinstance(q, tuple):
        return q[1]
    return UNK


class ModeFlow:
    """Forward qualifier propagation over one Circuit method (structured, joins at branches)."""

    def __init__(self, ctx, ci: ClassInfo, fi: FuncInfo, res: Result, mapper: str, rangecheck: str, mutators: set[str]):
        self.ctx, self.ci, self.fi, self.res = ctx, ci, fi, res
        self.mapper, self.rangecheck, self.mutators = mapper, rangecheck, mutators
        self.cn = ci.name
        self.sinks_checked = 0
        self.map_calls = 0
        self.spec_field = mangle(self.cn, "__circuit_spec")
        self.other: set[str] = set()  # names bound to *another* circuit (parameter / its copy)
        self.origin: dict[str, frozenset] = {}  # name -> user parameters its value may derive from

    # -- helpers
    def is_self_field(self, e, name):
        return isinstance(e, ast.Attribute) and isinstance(e.value, ast.Name) and e.value.id == "self" and mangle(self.cn, e.attr) == mangle(self.cn, name)

    def report(self, rule, node, why, inst=None):
        self.res.bad(rule, inst or f"{self.fi.qualname}", self.fi.site(node), self.fi.qualname, why, construct=src(node)[:300])

    def run(self):
        env = {}
        for p, q in SOURCES.get(self.fi.name, {}).items():
            env[p] = q
            self.origin[p] = frozenset({p})
        a = self.fi.node.args
        for p in a.args:
            ts = self.ctx.ix.ann_types(self.fi.module, p.annotation)
            if ts & {"Circuit", "Unitary"}:
                self.other.add(p.arg)
        self.block(self.fi.node.body, env)

    def block(self, stmts, env):
        for s in stmts:
            env = self.stmt(s, env)
            if env is None:
                return None
        return env

    def join_env(self, a, b):
        if a is None:
            return b
        if b is None:
            return a
        out = {}
        for k in set(a) | set(b):
            out[k] = jq(a.get(k), b.get(k)) if (k in a and k in b) else (a.get(k) or b.get(k))
        return out

    _in_branch = False

    def stmt(self, s, env):
        if isinstance(s, ast.Assign):
            q = self.ev(s.value, env)
            self._pending = {}
            for t in s.targets:
                if isinstance(t, (ast.Tuple, ast.List)) and isinstance(s.value, (ast.Tuple, ast.List)) and len(t.elts) == len(s.value.elts):
                    quals = [self.ev(v, env) for v in s.value.elts]
                    for x, qq in zip(t.elts, quals):
                        self.assign(x, qq, env, s)
                else:
                    self.assign(t, q, env, s)
            for name, o in self._pending.items():
                old = self.origin.get(name, frozenset())
                self.origin[name] = (old | o) if self._in_branch else o
            return env
        if isinstance(s, ast.AnnAssign):
            if s.value is not None:
                self.assign(s.target, self.ev(s.value, env), env, s)
            return env
        if isinstance(s, ast.AugAssign):
            q = self.ev(ast.BinOp(left=_load(s.target), op=s.op, right=s.value), env)
            self.assign(s.target, q, env, s)
            return env
        if isinstance(s, ast.Expr):
            self.ev(s.value, env)
            return env
        if isinstance(s, (ast.Return, ast.Raise)):
            if getattr(s, "value", None) is not None:
                self.ev(s.value, env)
            return None
        if isinstance(s, ast.If):
            self.ev(s.test, env)
            was = self._in_branch
            self._in_branch = True
            a = self.block(s.body, dict(env))
            b = self.block(s.orelse, dict(env))
            self._in_branch = was
            return self.join_env(a, b)
        if isinstance(s, ast.For):
            it = self.ev(s.iter, env)
            cur = env
            for _ in range(3):
                e2 = dict(cur)
                self.assign(s.target, elem(it) if not isinstance(it, str) or it == UNK else UNK, e2, s, tuple_of=it)
                out = self.block(s.body, e2)
                new = self.join_env(cur, out)
                if new == cur:
                    break
                cur = new
            if s.orelse:
                cur = self.block(s.orelse, cur)
            return cur
        if isinstance(s, ast.While):
            cur = env
            for _ in range(3):
                e2 = dict(cur)
                self.ev(s.test, e2)
                out = self.block(s.body, e2)
                new = self.join_env(cur, out)
                if new == cur:
                    break
                cur = new
            return cur
        if isinstance(s, ast.Try):
            a = self.block(s.body, dict(env))
            outs = [a]
            for h in s.handlers:
                outs.append(self.block(h.body, dict(env)))
            r = None
            for o in outs:
                r = self.join_env(r, o)
            return r
        return env

    def origins_of(self, e) -> frozenset:
        out = frozenset()
        for x in ast.walk(e):
            if isinstance(x, ast.Name) and x.id in self.origin:
                out |= self.origin[x.id]
        return out

    def assign(self, t, q, env, stmt, tuple_of=None):
        if isinstance(t, ast.Name):
            env[t.id] = q
            val = getattr(stmt, "value", None)
            if isinstance(stmt, ast.Assign) and val is not None:
                if isinstance(stmt.targets[0], (ast.Tuple, ast.List)) and isinstance(val, (ast.Tuple, ast.List)) and len(val.elts) == len(stmt.targets[0].elts):
                    for tt, vv in zip(stmt.targets[0].elts, val.elts):
                        if tt is t:
                            self._pending = getattr(self, "_pending", {})
                            self._pending[t.id] = self.origins_of(vv)
                else:
                    # joins accumulate (flow-insensitive union is enough for an orientation rule)
                    new = self.origins_of(val)
                    old = self.origin.get(t.id, frozenset())
                    self.origin[t.id] = (old | new) if self._in_branch else new
        elif isinstance(t, (ast.Tuple, ast.List)):
            # (k, v) from dict.items() ; (i, x) from enumerate
            if isinstance(q, tuple) and q[0] == "pair":
                for x, qq in zip(t.elts, q[1:]):
                    self.assign(x, qq, env, stmt)
            else:
                for x in t.elts:
                    self.assign(x, UNK, env, stmt)
        elif isinstance(t, ast.Subscript):
            base = t.value
            k = self.ev(t.slice, env)
            # herald dictionaries and internal list of self hold FULL indices
            fld = self.self_field_name(base)
            if fld and ("herald" in fld):
                self.sink_full(k, t.slice, f"key written to self.{fld}", stmt)
        elif isinstance(t, ast.Attribute):
            pass

    def self_field_name(self, e):
        if isinstance(e, ast.Attribute) and isinstance(e.value, ast.Name) and e.value.id == "self":
            return mangle(self.cn, e.attr)
        return None

    def sink_full(self, q, node, what, stmt):
        self.sinks_checked += 1
        if isinstance(q, frozenset) and (USER in q or SUB in q):
            self.report("A1-full-sink-gets-user-index", stmt,
                        f"{what} is, on one of the paths reaching here, a {'user-visible' if USER in q else 'sub-circuit'} mode index that was not mapped to the full mode space ({self.mapper})", inst=f"{self.fi.qualname}:{what}")
        elif q == USER:
            self.report("A1-full-sink-gets-user-index", stmt,
                        f"{what} is a user-visible mode index that was never mapped to the full mode space ({self.mapper}): on a circuit with heralded sub-circuits it lands on an ancilla mode", inst=f"{self.fi.qualname}:{what}")
        elif q == SUB:
            self.report("A1-full-sink-gets-user-index", stmt,
                        f"{what} is an index local to the added sub-circuit (missing the placement offset)", inst=f"{self.fi.qualname}:{what}")
        elif isinstance(q, tuple):
            for sub in q[1:]:
                if sub in (USER,):
                    self.report("A1-full-sink-gets-user-index", stmt, f"{what} holds un-mapped user mode indices", inst=f"{self.fi.qualname}:{what}")
                    return
            self.res.ok("A1-full-sink-gets-user-index", f"{self.fi.qualname}:{what}", self.fi.site(node), self.fi.qualname, f"receives {q}")
        else:
            self.res.ok("A1-full-sink-gets-user-index", f"{self.fi.qualname}:{what}", self.fi.site(node), self.fi.qualname, f"receives {q}")

    def sink_user(self, q, node, what, call):
        self.sinks_checked += 1
        bad = q == FULL or (isinstance(q, tuple) and FULL in q[1:]) or (isinstance(q, frozenset) and FULL in q)
        if bad:
            self.report("A2-no-double-mapping", call,
                        f"{what} receives an index that is already in the full mode space and maps it again: with an ancilla at or below it the component lands on the wrong mode or the call raises", inst=f"{self.fi.qualname}:{what}")
        else:
            self.res.ok("A2-no-double-mapping", f"{self.fi.qualname}:{what}", self.fi.site(node), self.fi.qualname, f"receives {q}")

    # -- expression qualifiers
    def ev(self, e, env):
        if e is None:
            return UNK
        if isinstance(e, ast.Constant):
            return REL if isinstance(e.value, (int, float)) and not isinstance(e.value, bool) else UNK
        if isinstance(e, ast.Name):
            return env.get(e.id, UNK)
        if isinstance(e, ast.IfExp):
            self.ev(e.test, env)
            return jq(self.ev(e.body, env), self.ev(e.orelse, env))
        if isinstance(e, ast.BinOp):
            a, b = self.ev(e.left, env), self.ev(e.right, env)
            if isinstance(e.op, (ast.Add, ast.Sub)):
                if isinstance(a, tuple) or isinstance(b, tuple):
                    return jq(a, b) if isinstance(a, tuple) and isinstance(b, tuple) else UNK
                if b == REL:
                    return a
                if a == REL:
                    return b if isinstance(e.op, ast.Add) else UNK
                if {a, b} == {FULL, SUB} and isinstance(e.op, ast.Add):
                    return FULL
                if a == b and isinstance(e.op, ast.Sub) and a in (FULL, USER, SUB):
                    return REL
                return UNK
            return UNK
        if isinstance(e, ast.Attribute):
            self.ev(e.value, env)
            fld = self.self_field_name(e)
            if fld:
                if fld.endswith("__internal_modes"):
                    return ("list", FULL)
                if "herald" in fld:
                    return ("dict", FULL, REL)
                if fld.endswith("__n_modes") or e.attr == "n_modes":
                    return REL
                if e.attr == "_internal_modes":
                    return ("list", FULL)
            if isinstance(e.value, ast.Name) and e.value.id in self.other:
                if e.attr in ("n_modes", "input_modes"):
                    return REL
            return UNK
        if isinstance(e, ast.Subscript):
            base = self.ev(e.value, env)
            self.ev(e.slice, env)
            # <circuit>.heralds["input"|"output"]
            if isinstance(e.value, ast.Attribute) and e.value.attr in ("heralds", "_external_heralds"):
                owner = e.value.value
                if isinstance(owner, ast.Name) and owner.id == "self":
                    return ("dict", FULL, REL)
                if isinstance(owner, ast.Name) and owner.id in self.other:
                    return ("dict", SUB, REL)
                return ("dict", UNK, REL)
            if isinstance(base, tuple) and base[0] == "dict":
                return base[2]
            if isinstance(base, tuple) and base[0] == "list":
                return base[1]
            return UNK
        if isinstance(e, (ast.List, ast.Tuple, ast.Set)):
            q = None
            for x in e.elts:
                if isinstance(x, ast.Starred):
                    xq = self.ev(x.value, env)
                    q = jq(q, elem(xq))
                else:
                    q = jq(q, self.ev(x, env))
            return ("list", q if q is not None else UNK)
        if isinstance(e, ast.Dict):
            kq = vq = None
            for k, v in zip(e.keys, e.values):
                if k is None:
                    d = self.ev(v, env)
                    if isinstance(d, tuple) and d[0] == "dict":
                        kq, vq = jq(kq, d[1]), jq(vq, d[2])
                else:
                    kq, vq = jq(kq, self.ev(k, env)), jq(vq, self.ev(v, env))
            return ("dict", kq or UNK, vq or UNK)
        if isinstance(e, (ast.ListComp, ast.SetComp, ast.GeneratorExp)):
            e2 = dict(env)
            for g in e.generators:
                it = self.ev(g.iter, e2)
                self.assign(g.target, elem(it), e2, e)
                for c in g.ifs:
                    self.ev(c, e2)
            return ("list", self.ev(e.elt, e2))
        if isinstance(e, ast.DictComp):
            e2 = dict(env)
            for g in e.generators:
                it = self.ev(g.iter, e2)
                self.assign(g.target, elem(it), e2, e)
            return ("dict", self.ev(e.key, e2), self.ev(e.value, e2))
        if isinstance(e, ast.Compare):
            self.ev(e.left, env)
            for c in e.comparators:
                self.ev(c, env)
            return UNK
        if isinstance(e, ast.BoolOp):
            for v in e.values:
                self.ev(v, env)
            return UNK
        if isinstance(e, ast.UnaryOp):
            return self.ev(e.operand, env) if isinstance(e.op, ast.USub) else UNK
        if isinstance(e, ast.Call):
            return self.call(e, env)
        for c in ast.iter_child_nodes(e):
            if isinstance(c, ast.expr):
                self.ev(c, env)
        return UNK

    def call(self, e: ast.Call, env):
        f = e.func
        args = [self.ev(a.value if isinstance(a, ast.Starred) else a, env) for a in e.args]
        for k in e.keywords:
            self.ev(k.value, env)
        if isinstance(f, ast.Attribute) and isinstance(f.value, ast.Name) and f.value.id == "self":
            if f.attr == self.mapper:
                self.map_calls += 1
                if args:
                    self.sink_user(args[0], e.args[0], f"argument of {self.mapper}", e)
                return FULL
            if f.attr == self.rangecheck:
                if args:
                    self.sink_full(args[0], e.args[0], f"argument of {self.rangecheck}", e)
                return UNK
            if f.attr in self.mutators:
                srcs = SOURCES.get(f.attr, {})
                callee = self.ci.methods[f.attr]
                params = callee.params()[1:]
                for i, a in enumerate(args):
                    if i < len(params) and params[i] in srcs:
                        self.sink_user(a, e.args[i], f"parameter '{params[i]}' of public mutator {f.attr}", e)
                for k in e.keywords:
                    if k.arg in srcs:
                        self.sink_user(self.ev(k.value, env), k.value, f"parameter '{k.arg}' of public mutator {f.attr}", e)
                return UNK
            if f.attr == "_add_empty_mode" and len(args) >= 2:
                self.sink_full(args[1], e.args[1], "index of self._add_empty_mode", e)
                return ("list", UNK)
            if f.attr in self.ci.methods and f.attr not in (self.mapper, self.rangecheck):
                roles = helper_roles(self.ci, f.attr, self.mapper, self.rangecheck)
                if roles["maps"] and args:
                    self.map_calls += 1
                    self.sink_user(args[0], e.args[0], f"argument of {f.attr} (maps through {self.mapper})", e)
                    return FULL
        if isinstance(f, ast.Attribute):
            recv = self.ev(f.value, env)
            if f.attr == "items" and isinstance(recv, tuple) and recv[0] == "dict":
                return ("list", ("pair", recv[1], recv[2]))
            if f.attr == "keys" and isinstance(recv, tuple) and recv[0] == "dict":
                return ("list", recv[1])
            if f.attr == "values" and isinstance(recv, tuple) and recv[0] == "dict":
                return ("list", recv[2])
            if f.attr in ("copy",) and isinstance(recv, tuple):
                return recv
            if f.attr == "append":
                fld = self.self_field_name(f.value)
                if fld and fld.endswith("__internal_modes") and args:
                    self.sink_full(args[0], e.args[0], "element appended to the internal-mode list", e)
                if fld == self.spec_field and e.args:
                    self.component_sink(e.args[0], env, e)
                return UNK
        if isinstance(f, ast.Name):
            if f.id in ("sorted", "list", "set", "tuple", "reversed", "copy", "deepcopy") and args:
                return args[0] if isinstance(args[0], tuple) else UNK
            if f.id in ("len", "int", "abs", "max", "min"):
                return REL if f.id == "len" else (args[0] if args and not isinstance(args[0], tuple) else UNK)
            if f.id == "enumerate" and args:
                return ("list", ("pair", REL, elem(args[0])))
            if f.id == "range":
                return ("list", UNK)
            if f.id in COMPONENT_MODE_ARGS:
                return ("component", f.id)
        return UNK

    def component_sink(self, arg, env, call):
        """self.__circuit_spec.append(<Component>(...)): mode arguments must be FULL."""
        if isinstance(arg, ast.Call) and isinstance(arg.func, ast.Name) and arg.func.id in COMPONENT_MODE_ARGS:
            kind = arg.func.id
            for i in COMPONENT_MODE_ARGS[kind]:
                if i < len(arg.args):
                    q = self.ev(arg.args[i], env)
                    self.sink_full(q, arg.args[i], f"mode argument {i} of {kind} recorded in the circuit", call)
            if kind == "BeamSplitter" and len(arg.args) >= 2 and self.fi.name == "bs":
                o0, o1 = self.origins_of(arg.args[0]), self.origins_of(arg.args[1])
                good = "mode_2" not in o0 and o0 == frozenset({"mode_1"}) and "mode_2" in o1
                self.res.add(good, "A6-orientation-preserved", f"{self.fi.qualname}:BeamSplitter(mode_1, mode_2)", self.fi.site(arg), self.fi.qualname,
                             "the first mode of the recorded beam splitter derives from the caller's mode_1 only, the second from mode_2",
                             f"the recorded beam splitter's first mode may derive from {sorted(o0)} and its second from {sorted(o1)}: the 'H' convention is not symmetric in its two modes, so re-ordering them changes the matrix", construct=src(arg)[:120])


def _load(t):
    import copy as _c

    n = _c.copy(t)
    if hasattr(n, "ctx"):
        n.ctx = ast.Load()
    return n


class ValidatedBeforeWrite(MustWalk):
    """A3: names holding user-derived indices are passed to the range check before they are
    recorded (facts = validated names)."""

    def __init__(self, fi: FuncInfo, ci: ClassInfo, rangecheck: str, mapper: str, res: Result, sources: dict):
        super().__init__(fi.node)
        self.fi, self.ci, self.rc, self.mapper, self.res = fi, ci, rangecheck, mapper, res
        self.derived = set(sources)  # names derived from user parameters (flow-insensitive closure)
        changed = True
        while changed:
            changed = False
            for n in walk_no_nested(fi.node):
                tgt = val = None
                if isinstance(n, ast.Assign) and len(n.targets) == 1 and isinstance(n.targets[0], ast.Name):
                    tgt, val = n.targets[0].id, n.value
                elif isinstance(n, ast.For) and isinstance(n.target, ast.Name):
                    tgt, val = n.target.id, n.iter
                if tgt and tgt not in self.derived and _index_expr(val, mapper) and any(isinstance(x, ast.Name) and x.id in self.derived for x in ast.walk(val)):
                    self.derived.add(tgt)
                    changed = True
        self.loop_stack = []
        self.checked = 0

    def assigned(self, name, st):
        return st - {name}

    def _stmt_inner(self, s, st):
        if isinstance(s, ast.For) and isinstance(s.target, ast.Name):
            # `for m in <expr over names>: self._mode_in_range(m)` validates those names
            body_validates = any(isinstance(n, ast.Call) and src(n.func) == f"self.{self.rc}" and n.args and isinstance(n.args[0], ast.Name) and n.args[0].id == s.target.id for b in s.body for n in ast.walk(b))
            out = super().stmt(s, st)
            if body_validates and out is not None:
                names = {x.id for x in ast.walk(s.iter) if isinstance(x, ast.Name)} - {"self"}
                out = out | names
            return out
        if isinstance(s, ast.Assign) and len(s.targets) == 1 and isinstance(s.targets[0], (ast.Tuple, ast.List)) and isinstance(s.value, (ast.Tuple, ast.List)) and len(s.value.elts) == len(s.targets[0].elts) and all(isinstance(x, ast.Name) for x in list(s.value.elts) + list(s.targets[0].elts)):
            was = {t.id for t, v in zip(s.targets[0].elts, s.value.elts) if st is not None and v.id in st}
            out = super().stmt(s, st)
            return (out | was) if out is not None else out
        if isinstance(s, ast.Assign) and len(s.targets) == 1 and isinstance(s.targets[0], ast.Name) and isinstance(s.value, ast.Name):
            was = st is not None and s.value.id in st
            out = super().stmt(s, st)
            if was and out is not None:
                out = out | {s.targets[0].id}
            return out
        return super().stmt(s, st)

    def stmt(self, s, st):  # noqa: F811 - extended below
        out = self._stmt_inner(s, st)
        # x = self.helper(y): the helper maps and range-checks its argument -> x is validated
        if out is not None and isinstance(s, ast.Assign) and len(s.targets) == 1 and isinstance(s.targets[0], ast.Name) and isinstance(s.value, ast.Call):
            c = s.value
            if isinstance(c.func, ast.Attribute) and src(c.func.value) == "self" and c.func.attr in self.ci.methods and c.func.attr not in (self.rc, self.mapper):
                roles = helper_roles(self.ci, c.func.attr, self.mapper, self.rc)
                if roles["maps"] and roles["validates"]:
                    out = out | {s.targets[0].id}
        return out

    def event(self, role, node, st):
        if role == "call":
            f = src(node.func)
            if f == f"self.{self.rc}" and node.args and isinstance(node.args[0], ast.Name):
                return st | {node.args[0].id}
            if isinstance(node.func, ast.Attribute) and src(node.func.value) == "self" and node.func.attr in self.ci.methods and node.func.attr not in (self.rc, self.mapper):
                roles = helper_roles(self.ci, node.func.attr, self.mapper, self.rc)
                add = set()
                for pn, a in zip(roles["params"], node.args):
                    if pn in roles["validates"]:
                        add |= {x.id for x in ast.walk(a) if isinstance(x, ast.Name)}
                if add and not roles["maps"]:
                    return st | add
            is_spec_append = isinstance(node.func, ast.Attribute) and node.func.attr == "append" and isinstance(node.func.value, ast.Attribute) and isinstance(node.func.value.value, ast.Name) and node.func.value.value.id == "self"
            if is_spec_append and node.args:
                self.check_names(node.args[0], st, node)
        if role == "store" and isinstance(node, ast.Subscript) and isinstance(node.value, ast.Attribute) and isinstance(node.value.value, ast.Name) and node.value.value.id == "self":
            self.check_names(node.slice, st, node)
        return st

    def check_names(self, expr, st, node):
        for x in ast.walk(expr):
            if isinstance(x, ast.Name) and x.id in self.derived and isinstance(x.ctx, ast.Load):
                # only index-like uses: positional args of component constructors / subscript keys
                self.checked += 1
                if x.id in st:
                    self.res.ok("A3-validated-before-recorded", f"{self.fi.qualname}:{x.id}", self.fi.site(node), self.fi.qualname, "range/type check precedes the state write on every path")
                else:
                    self.res.bad("A3-validated-before-recorded", f"{self.fi.qualname}:{x.id}", self.fi.site(node), self.fi.qualname,
                                 f"user-supplied mode value '{x.id}' is recorded without having passed {self.rc} on every path: an out-of-range, bool or non-integer mode enters the circuit",
                                 construct=src(node)[:200])


def _index_expr(e, mapper) -> bool:
    """Expressions through which 'is a user-derived mode index' propagates."""
    if isinstance(e, (ast.Name, ast.Constant)):
        return True
    if isinstance(e, ast.BinOp):
        return _index_expr(e.left, mapper) and _index_expr(e.right, mapper)
    if isinstance(e, ast.IfExp):
        return _index_expr(e.body, mapper) and _index_expr(e.orelse, mapper)
    if isinstance(e, ast.Call):
        return src(e.func) == f"self.{mapper}" or src(e.func) in ("int", "list", "sorted", "dict")
    if isinstance(e, (ast.ListComp, ast.DictComp, ast.List, ast.Tuple, ast.Starred)):
        return True
    if isinstance(e, ast.Attribute):
        return True
    return False


MODE_ARG_NAMES = {"bs": ["mode_1", "mode_2"], "ps": ["mode"], "loss": ["mode"], "barrier": ["modes"], "mode_swaps": ["swaps"], "herald": ["input_mode", "output_mode"], "add": ["mode"]}


def check_mutators(ctx, res: Result, ci: ClassInfo, which: list[str]) -> dict:
    mapper, rangecheck = "_map_mode", "_mode_in_range"
    if mapper not in ci.methods or rangecheck not in ci.methods:
        raise AnalysisError("Circuit._map_mode / _mode_in_range not found")
    # role confirmation: mapper loops over sorted(internal modes) and returns its parameter
    mp = ci.methods[mapper]
    if not any(isinstance(n, ast.For) and "internal_modes" in src(n.iter) for n in walk_no_nested(mp.node)):
        raise AnalysisError("_map_mode no longer iterates the internal-mode list (anchor role changed)")
    mutators = set(SOURCES)
    stats = {"sinks": 0, "map_calls": 0, "a3": 0}
    for name in which:
        if name not in ci.methods:
            raise AnalysisError(f"Circuit.{name} not found")
        fi = ci.methods[name]
        mf = ModeFlow(ctx, ci, fi, res, mapper, rangecheck, mutators)
        mf.run()
        stats["sinks"] += mf.sinks_checked
        stats["map_calls"] += mf.map_calls
        v = ValidatedBeforeWrite(fi, ci, rangecheck, mapper, res, {p for p in MODE_ARG_NAMES.get(name, [])})
        v.run(frozenset())
        stats["a3"] += v.checked
    return stats


# ------------------------------------------------------------------------------------ A4
def _lin(e, env, other: set[str], cn: str):
    """Linear form {unit: coef} of an index/count expression, or None if not typable.
    units: IU/IF (user/full index into self), CF:<o>/CA:<o> (full / ancilla count of object o)."""
    if isinstance(e, ast.Constant) and isinstance(e.value, int):
        return {"1": e.value} if e.value else {}
    if isinstance(e, ast.Name):
        return env.get(e.id)
    if isinstance(e, ast.BinOp) and isinstance(e.op, (ast.Add, ast.Sub)):
        a, b = _lin(e.left, env, other, cn), _lin(e.right, env, other, cn)
        if a is None or b is None:
            return None
        out = dict(a)
        sgn = 1 if isinstance(e.op, ast.Add) else -1
        for k, v in b.items():
            out[k] = out.get(k, 0) + sgn * v
            if out[k] == 0:
                del out[k]
        return out
    if isinstance(e, ast.Attribute) and e.attr == "n_modes" and isinstance(e.value, ast.Name):
        return {f"CF:{e.value.id}": 1}
    if isinstance(e, ast.Attribute) and e.attr == "input_modes" and isinstance(e.value, ast.Name):
        return {f"CF:{e.value.id}": 1, f"CA:{e.value.id}": -1}
    if isinstance(e, ast.Call) and isinstance(e.func, ast.Name) and e.func.id == "len" and e.args:
        a = e.args[0]
        s = src(a)
        if isinstance(a, ast.Subscript) and isinstance(a.value, ast.Attribute) and a.value.attr == "heralds" and isinstance(a.value.value, ast.Name):
            return {f"CA:{a.value.value.id}": 1}
        if isinstance(a, ast.Attribute) and isinstance(a.value, ast.Name) and (a.attr.endswith("internal_modes")):
            return {f"CA:{a.value.id}": 1}
        if isinstance(a, ast.Attribute) and isinstance(a.value, ast.Name) and ("in_heralds" in a.attr or "out_heralds" in a.attr) and "external" not in a.attr:
            return {f"CA:{a.value.id}": 1}
        _ = s
    return None


def a4_range_units(ctx, res: Result, fi: FuncInfo) -> int:
    """The size test of `add` is made in one unit (user modes or full modes), not a mixture."""
    cn = fi.cls.name
    env: dict = {}
    params = SOURCES.get(fi.name, {})
    for p, q in params.items():
        if q == USER:
            env[p] = {"IU": 1}
    n = 0

    def scan(stmts):
        nonlocal n
        for s in stmts:
            if isinstance(s, ast.Assign) and len(s.targets) == 1 and isinstance(s.targets[0], ast.Name):
                v = s.value
                if isinstance(v, ast.Call) and src(v.func) == "self._map_mode":
                    env[s.targets[0].id] = {"IF": 1}
                else:
                    lf = _lin(v, env, set(), cn)
                    if lf is not None:
                        env[s.targets[0].id] = lf
                    else:
                        env.pop(s.targets[0].id, None)
            elif isinstance(s, ast.If):
                raises_range = any(isinstance(b, ast.Raise) and b.exc is not None and "ModeRangeError" in src(b.exc) for b in s.body)
                t = s.test
                if raises_range and isinstance(t, ast.Compare) and len(t.ops) == 1 and isinstance(t.ops[0], (ast.Gt, ast.GtE, ast.Lt, ast.LtE)):
                    l, r = _lin(t.left, env, set(), cn), _lin(t.comparators[0], env, set(), cn)
                    if l is not None and r is not None and any(k.startswith("C") for k in list(l) + list(r)):
                        n += 1
                        form = dict(l)
                        for k, v in r.items():
                            form[k] = form.get(k, 0) - v
                        verdict, why = _units_ok(form)
                        res.add(verdict, "A4-size-test-one-unit", f"{fi.qualname}:{src(t)[:60]}", fi.site(s), fi.qualname,
                                "index and counts of the size test are all in one unit", why, construct=src(t))
                # names assigned in branches become unknown
                for b in s.body + s.orelse:
                    for x in ast.walk(b):
                        if isinstance(x, ast.Name) and isinstance(x.ctx, ast.Store):
                            env.pop(x.id, None)
            elif isinstance(s, (ast.For, ast.While, ast.Try)):
                for x in ast.walk(s):
                    if isinstance(x, ast.Name) and isinstance(x.ctx, ast.Store):
                        env.pop(x.id, None)

    scan(fi.node.body)
    return n


def _units_ok(form: dict):
    """form = lhs - rhs.  Fold CF:o - CA:o into CU:o; then the index unit must match the count units."""
    f = dict(form)
    objs = {k.split(":", 1)[1] for k in f if ":" in k}
    kinds = set()
    for o in objs:
        cf, ca = f.get(f"CF:{o}", 0), f.get(f"CA:{o}", 0)
        if cf != 0 and ca == -cf:
            kinds.add("U")
        elif cf != 0 and ca == 0:
            kinds.add("F")
        elif cf == 0 and ca != 0:
            kinds.add("A")
        else:
            kinds.add("?")
    idx = {"IU": "U", "IF": "F"}
    ikinds = {idx[k] for k in f if k in idx}
    if "?" in kinds or "A" in kinds:
        return True, "not typable"  # unknown is not a violation
    allk = kinds | ikinds
    if len(allk) <= 1:
        return True, ""
    return False, ("size test mixes units: a " + ("full-space" if "F" in ikinds else "user-space") + " mode index is combined with "
                   + " and ".join(sorted({"U": "user-visible mode counts", "F": "full mode counts"}[k] for k in kinds))
                   + " - with ancilla modes present the extent of k user modes in the full space is larger than k, so an oversize addition is accepted (or a fitting one refused)")


# ------------------------------------------------------------------------------------ A5
def a5_passthrough(ctx, res: Result, fi: FuncInfo) -> int:
    """Indices at which pass-through modes are inserted into the added circuit are registered as fixed
    points of the output permutation synthesised afterwards."""
    others = {a.arg for a in fi.node.args.args if ctx.ix.ann_types(fi.module, a.annotation) & {"Circuit", "Unitary"}}
    calls = []
    par = ctx.tree.parents(fi.rel)
    for n in walk_no_nested(fi.node):
        if isinstance(n, ast.Call) and isinstance(n.func, ast.Attribute) and n.func.attr == "_add_empty_mode" and isinstance(n.func.value, ast.Name) and n.func.value.id != "self":
            calls.append(n)
    swaps_ctor = [n for n in walk_no_nested(fi.node) if isinstance(n, ast.Call) and isinstance(n.func, ast.Name) and n.func.id == "ModeSwaps"]
    if not calls or not swaps_ctor:
        raise AnalysisError(f"{fi.qualname}: pass-through insertion / swap synthesis not found (anchor role changed)")
    # the provisional table: dict whose items feed the ModeSwaps argument
    tables = [n for n in walk_no_nested(fi.node) if isinstance(n, ast.Assign) and len(n.targets) == 1 and isinstance(n.targets[0], ast.Name) and "provisional" in n.targets[0].id]
    if not tables:
        # role: the dict indexed by the loop variable inside the `for i in range(...)` synthesis loop
        raise AnalysisError(f"{fi.qualname}: provisional swap table not found")
    n = 0
    for c in calls:
        n += 1
        idx = c.args[1] if len(c.args) > 1 else None
        blk = par.get(_stmt(par, c))
        body = blk.body if hasattr(blk, "body") else []
        # a list local appended with the same index in the same block
        regs = []
        for s in body:
            for x in ast.walk(s):
                if isinstance(x, ast.Call) and isinstance(x.func, ast.Attribute) and x.func.attr == "append" and isinstance(x.func.value, ast.Name) and x.args and idx is not None and src(x.args[0]) == src(idx):
                    regs.append(x.func.value.id)
        ok = False
        why = "the inserted index is not recorded anywhere"
        for r in regs:
            for t in tables:
                v = t.value
                if isinstance(v, ast.DictComp) and src(v.generators[0].iter) == r and src(v.key) == src(v.value) == src(v.generators[0].target):
                    ok = True
                elif isinstance(v, ast.Call) and src(v.func) == "dict" and v.args and isinstance(v.args[0], ast.Call) and src(v.args[0].func) == "zip" and all(src(a) == r for a in v.args[0].args):
                    ok = True
                else:
                    why = f"recorded in `{r}` but the swap table starts as `{src(v)[:60]}`"
            for lp in walk_no_nested(fi.node):
                if isinstance(lp, ast.For) and src(lp.iter) == r:
                    for a in ast.walk(lp):
                        if isinstance(a, ast.Assign) and isinstance(a.targets[0], ast.Subscript) and "provisional" in src(a.targets[0].value) and src(a.targets[0].slice) == src(a.value) == src(lp.target):
                            ok = True
        res.add(ok, "A5-pass-through-fixed-by-swaps", f"{fi.qualname}:{src(c)[:50]}", fi.site(c), fi.qualname,
                "every pass-through index is a fixed point of the synthesised output permutation",
                "a pass-through mode inserted for an existing ancilla of the parent is not registered with the output-swap synthesis (" + why + "): a herald whose input and output modes differ lets the permutation move the parent's ancilla",
                construct=src(c))
    return n


def _stmt(par, n):
    while n is not None and not isinstance(n, ast.stmt):
        n = par.get(n)
    return n


def swap_append_guard(ctx, res: Result, fi: FuncInfo) -> None:
    """The compensating ModeSwaps built from the synthesised table is appended unless that table is the identity:
    the only condition that may skip it is a test of the table itself (keys vs values)."""
    par = {c: n for n in ast.walk(fi.node) for c in ast.iter_child_nodes(n)}
    ctors = [n for n in walk_no_nested(fi.node) if isinstance(n, ast.Call) and isinstance(n.func, ast.Name) and n.func.id == "ModeSwaps" and n.args and isinstance(n.args[0], ast.Name)]
    if not ctors:
        res.frozen(False, "P-swap-appended-unless-identity", fi.qualname, fi.site(), fi.qualname, "", "ModeSwaps(<table>) construction not recognised", construct="")
        return
    for c in ctors:
        tbl = c.args[0].id
        guards = []
        x = c
        while x is not None and x is not fi.node:
            p_ = par.get(x)
            if isinstance(p_, ast.If) and x in p_.body + p_.orelse and x is not p_.test:
                guards.append((p_, x in p_.body))
            x = p_
        inst = f"{fi.qualname}:ModeSwaps({tbl})"
        if not guards:
            res.ok("P-swap-appended-unless-identity", inst, fi.site(c), fi.qualname, "appended unconditionally")
            continue
        verdicts = []
        for g, in_body in guards:
            names = {n.id for n in ast.walk(g.test) if isinstance(n, ast.Name)} - {"list", "tuple", "sorted", "any", "all", "len", "set", "dict"}
            t = src(g.test).replace(" ", "")
            comp_vars = {n.id for cg in ast.walk(g.test) if isinstance(cg, ast.comprehension) for n in ast.walk(cg.target) if isinstance(n, ast.Name)}
            names -= comp_vars
            forms = (f"list({tbl}.keys())!=list({tbl}.values())", f"list({tbl})!=list({tbl}.values())", f"any(k!=vfork,vin{tbl}.items())", f"{tbl}.keys()!=list({tbl}.values())", f"tuple({tbl}.keys())!=tuple({tbl}.values())")
            if names == {tbl}:
                verdicts.append("ok" if (t in forms) == in_body and t in forms else "undecided")
            elif tbl not in names and names:
                verdicts.append("bad:" + src(g.test)[:80])
            else:
                verdicts.append("undecided")
        bad = [v for v in verdicts if v.startswith("bad:")]
        if bad:
            res.bad("P-swap-appended-unless-identity", inst, fi.site(c), fi.qualname,
                    f"whether the compensating mode swap is appended is decided by `{bad[0][4:]}`, which does not look at the synthesised table `{tbl}`: heralds that use the same modes at input and output but paired crosswise need the swap although that condition skips it", construct=bad[0][4:])
        elif "undecided" in verdicts:
            res.frozen(False, "P-swap-appended-unless-identity", inst, fi.site(c), fi.qualname, "", "guard of the swap append is a test of the table in an unrecognised form", construct=src(guards[0][0].test)[:100])
        else:
            res.ok("P-swap-appended-unless-identity", inst, fi.site(c), fi.qualname, "skipped only when the synthesised table is the identity")
