"""R-E rules: writes dominated by bound comparisons; range validators accept exactly the documented set."""

from __future__ import annotations

import ast

from ..guards import Lit, Normaliser, canon, clause_implied, cnf, facts_at, facts_at_end
from ..index import ClassInfo, FuncInfo, mangle, walk_no_nested
from ..report import Result
from ..source import AnalysisError, src


def self_normaliser(ctx, ci: ClassInfo) -> Normaliser:
    """self.<prop> with a trivial getter and self.__x both normalise to self.<mangled field>."""
    trivial = {}
    for name, g in ci.getters.items():
        body = [s for s in g.node.body if not (isinstance(s, ast.Expr) and isinstance(s.value, ast.Constant))]
        if len(body) == 1 and isinstance(body[0], ast.Return) and isinstance(body[0].value, ast.Attribute) and isinstance(body[0].value.value, ast.Name) and body[0].value.value.id == "self":
            trivial[name] = mangle(ci.name, body[0].value.attr)

    def term(e):
        if isinstance(e, ast.Attribute) and isinstance(e.value, ast.Name) and e.value.id == "self":
            if e.attr in trivial:
                return "self." + trivial[e.attr]
            return "self." + mangle(ci.name, e.attr)
        if isinstance(e, ast.Constant):
            return repr(e.value)
        return None

    n = Normaliser(term)
    n.base_term = term
    return n


def private_stores(ci: ClassInfo, fld: str):
    for fi in ci.all_funcs():
        for n in walk_no_nested(fi.node):
            if isinstance(n, (ast.Assign, ast.AnnAssign, ast.AugAssign)):
                tgts = n.targets if isinstance(n, ast.Assign) else [n.target]
                for t in tgts:
                    for x in ast.walk(t):
                        if isinstance(x, ast.Attribute) and isinstance(x.ctx, ast.Store) and isinstance(x.value, ast.Name) and x.value.id == "self" and mangle(ci.name, x.attr) == fld:
                            yield fi, n
            if isinstance(n, ast.Call) and isinstance(n.func, ast.Name) and n.func.id == "setattr" and len(n.args) == 3 and isinstance(n.args[0], ast.Name) and n.args[0].id == "self":
                if isinstance(n.args[1], ast.Constant) and n.args[1].value == fld:
                    yield fi, n


def parameter_bounds(ctx, res: Result, ci: ClassInfo) -> None:
    norm = self_normaliser(ctx, ci)
    cn = ci.name
    # roles
    get = ci.methods.get("get")
    if get is None or "min_bound" not in ci.getters or "max_bound" not in ci.getters:
        raise AnalysisError("Parameter.get / min_bound / max_bound not found")
    rets = [n for n in walk_no_nested(get.node) if isinstance(n, ast.Return)]
    if len(rets) != 1:
        raise AnalysisError("Parameter.get has no single return")
    VAL = norm.term(rets[0].value)
    MIN = norm.term(ast.parse("self.min_bound", mode="eval").body)
    MAX = norm.term(ast.parse("self.max_bound", mode="eval").body)
    if not (VAL.startswith("self._") and MIN.startswith("self._") and MAX.startswith("self._")):
        raise AnalysisError("Parameter value/bound fields not resolved to private fields")
    fval, fmin, fmax = VAL[5:], MIN[5:], MAX[5:]
    n = 0
    for fld, reqs in ((fval, "value"), (fmin, "min"), (fmax, "max")):
        stores = list(private_stores(ci, fld))
        if not stores:
            raise AnalysisError(f"no store to Parameter field {fld}")
        for fi, st in stores:
            n += 1
            inst = f"{fi.qualname}{'[setter]' if fi.kind == 'setter' else ''}:{fld}"
            if isinstance(st, ast.AugAssign) or isinstance(st, ast.Call):
                res.bad("E-bounded-write", inst, fi.site(st), fi.qualname, "bounded field changed by an augmented assignment / setattr: new value is not the checked term", construct=src(st))
                continue
            # helpers of the class are expanded (a check moved into a value-returning helper is still the check)
            from ..inline import with_helpers as _wh
            fh = _wh(ctx, fi, inline_locals=False)
            twins = [x for x in ast.walk(fh.node) if isinstance(x, type(st)) and src(x) == src(st)]
            fnode, st_h = (fh.node, twins[0]) if twins else (fi.node, st)
            norm_f = Normaliser(norm.base_term, fn=fnode)
            E = norm_f.term(st_h.value)
            if fi.name == "__init__" and reqs == "value":
                # bounds do not exist yet: they must be installed afterwards through the checked setters
                later = [x for x in walk_no_nested(fi.node) if isinstance(x, ast.Attribute) and isinstance(x.ctx, ast.Store) and isinstance(x.value, ast.Name) and x.value.id == "self" and x.attr in ("min_bound", "max_bound")]
                par_i = {c_: n_ for n_ in ast.walk(fi.node) for c_ in ast.iter_child_nodes(n_)}
                def _none_store(x):
                    a_ = par_i.get(x)
                    return isinstance(a_, (ast.Assign, ast.AnnAssign)) and isinstance(a_.value, ast.Constant) and a_.value.value is None
                raw = [x for x in walk_no_nested(fi.node) if isinstance(x, ast.Attribute) and isinstance(x.ctx, ast.Store) and isinstance(x.value, ast.Name) and x.value.id == "self" and mangle(cn, x.attr) in (fmin, fmax) and not _none_store(x)]
                res.add(bool(later) and not raw, "E-bounded-write", inst, fi.site(st), fi.qualname,
                        "constructor installs bounds only through the checked setters after the value", "constructor writes a bound field directly (unchecked against the value)", construct=src(st))
                continue
            facts = facts_at(fnode, st_h, norm_f) or []
            if reqs == "value":
                required = [frozenset({Lit("is", MIN, "None"), canon(">=", E, MIN)}), frozenset({Lit("is", MAX, "None"), canon("<=", E, MAX)})]
            elif reqs == "min":
                required = [frozenset({Lit("is", E, "None"), canon(">=", VAL, E)})]
            else:
                required = [frozenset({Lit("is", E, "None"), canon("<=", VAL, E)})]
            # a literal that is true by itself (`None is None` when the constant None is written) discharges its clause
            required = [r for r in required if not any(l.op == "is" and l.a == l.b == "None" for l in r)]
            missing = [r for r in required if not clause_implied(r, facts)]
            if not missing:
                res.ok("E-bounded-write", inst, fi.site(st), fi.qualname, "write dominated by: " + " and ".join("(" + " or ".join(sorted(map(str, r))) + ")" for r in required))
            else:
                res.bad("E-bounded-write", inst, fi.site(st), fi.qualname,
                        "write of a bounded field is not dominated by the comparison that keeps min <= value <= max; missing: "
                        + " and ".join("(" + " or ".join(sorted(map(str, r))) + ")" for r in missing)
                        + "; established: " + "; ".join(" or ".join(sorted(map(str, f))) for f in facts[:6]),
                        construct=src(st))
    res.count("bounded_writes", n)


def unit_range(facts: list[frozenset], term: str, lo: str, hi: str, lo_strict=False, hi_strict=False) -> tuple[bool, str]:
    need = [canon(">" if lo_strict else ">=", term, lo), canon("<" if hi_strict else "<=", term, hi)]
    missing = []
    for lit in need:
        if not any(len(f) == 1 and next(iter(f)) == lit for f in facts):
            missing.append(str(lit))
    # the validator must not be *stricter* either: no unit fact on the term other than the two
    extra = []
    for f in facts:
        if len(f) == 1:
            l = next(iter(f))
            if term in (l.a, l.b) and l.op in ("<", "<=", ">", ">=", "!=", "==") and l not in need:
                extra.append(str(l))
    return (not missing and not extra), ("missing: " + ", ".join(missing) if missing else "") + (" stricter than documented: " + ", ".join(extra) if extra else "")


def range_validator(ctx, res: Result, fi: FuncInfo, term_src: str, lo, hi, rule="E-range-validator", lo_strict=False, hi_strict=False, norm=None, label=None) -> None:
    """After all raise-guards of fi, the accepted set for `term` is exactly [lo, hi]."""
    norm = norm or Normaliser(lambda e: repr(e.value) if isinstance(e, ast.Constant) else None)
    facts = facts_at_end(fi.node, norm)
    term = norm.term(ast.parse(term_src, mode="eval").body)
    los, his = (lo if isinstance(lo, str) else repr(lo)), (hi if isinstance(hi, str) else repr(hi))
    # the value that is range-checked may be the term itself or a local derived from it in one assignment
    # (`value = loss.get() if isinstance(loss, Parameter) else loss`)
    cands = [term]
    base_names = {x.id for x in ast.walk(ast.parse(term_src, mode="eval")) if isinstance(x, ast.Name)} - {"self"}
    if base_names:
        defs = {}
        for a_ in walk_no_nested(fi.node):
            if isinstance(a_, ast.Assign) and len(a_.targets) == 1 and isinstance(a_.targets[0], ast.Name):
                defs.setdefault(a_.targets[0].id, []).append(a_.value)
        for nm, vs in defs.items():
            if nm not in base_names and len(vs) == 1 and base_names & {x.id for x in ast.walk(vs[0]) if isinstance(x, ast.Name)}:
                cands.append(nm)
    results = [(c, *unit_range(facts, c, los, his, lo_strict, hi_strict)) for c in cands]
    rng = f"{'(' if lo_strict else '['}{lo}, {hi}{')' if hi_strict else ']'}"
    inst = label or f"{fi.qualname}:{term_src}"
    good = [r for r in results if r[1]]
    def ordered(c):
        return any(len(f) == 1 and c in (next(iter(f)).a, next(iter(f)).b) and next(iter(f)).op in ("<", "<=", ">", ">=") for f in facts)
    if good:
        res.ok(rule, inst, fi.site(), fi.qualname, f"accepted set of {term_src} is exactly {rng}" + (f" (checked on `{good[0][0]}`)" if good[0][0] != term else ""))
        return
    decided = [r for r in results if ordered(r[0])]
    range_lits = [l for f in facts for l in f if l.op in ("<", "<=", ">", ">=") and ({l.a, l.b} & {los, his})]
    if not decided and range_lits:
        # a range comparison exists but it does not bound the term on every path (conditional / on another value)
        decided = [results[0]]
    if not decided:
        res.frozen(False, rule, inst, fi.site(), fi.qualname, "", f"no ordering comparison on {term_src} (or a local derived from it) recognised; established: " + "; ".join(" or ".join(sorted(map(str, f))) for f in facts[:8]), construct=f"{fi.qualname} range {term_src}")
        return
    why = decided[0][2]
    res.bad(rule, inst, fi.site(), fi.qualname, f"validator does not accept exactly {rng} for {term_src}: {why}; established: " + "; ".join(" or ".join(sorted(map(str, f))) for f in facts[:8]),
            construct=f"{fi.qualname} range {term_src}")
