"""R-W  Who-may-call / who-may-read layering rules (ownership of a primitive or a setting)."""

from __future__ import annotations

import ast

from ..index import walk_no_nested
from ..report import Result
from ..source import AnalysisError, src


def call_sites(ctx, names: set[str]):
    """(FuncInfo | None, node) for every call whose callee's last name component is in `names`."""
    for fi in ctx.ix.all_functions():
        for n in walk_no_nested(fi.node):
            if isinstance(n, ast.Call):
                f = src(n.func).split(".")[-1]
                if f in names:
                    yield fi, n


def effective_allowed(ctx, allowed: set[str]) -> set[str]:
    """allowed sites plus private helpers that are called only from allowed sites (a helper extracted from an owner
    is part of the owner)"""
    from ..index import FuncInfo as _FI

    if getattr(ctx, "_caller_names", None) is None:
        m: dict[str, set] = {}
        for fi in ctx.ix.all_functions():
            for _node, callee in ctx.eng.summary(fi).calls:
                if isinstance(callee, _FI) and callee is not fi:
                    m.setdefault(callee.qualname, set()).add(fi.qualname)
        ctx._caller_names = m
    out = set(allowed)
    changed = True
    while changed:
        changed = False
        for callee, callers in ctx._caller_names.items():
            nm = callee.split(".")[-1]
            if callee not in out and nm.startswith("_") and not nm.startswith("__") and callers and callers <= out:
                out.add(callee)
                changed = True
    return out


def who_may_call(ctx, res: Result, names: set[str], allowed: set[str], rule: str, what: str, floor: int) -> None:
    n = 0
    allowed = effective_allowed(ctx, allowed)
    for fi, node in call_sites(ctx, names):
        n += 1
        inst = f"{fi.qualname}:{src(node.func)}"
        if fi.qualname in allowed:
            res.ok(rule, inst, fi.site(node), fi.qualname, f"{what}: allowed site")
        else:
            res.bad(rule, inst, fi.site(node), fi.qualname,
                    f"{what}: `{src(node.func)}` is called outside {sorted(allowed)}; the result bypasses the normalisation / validation that the owner applies", construct=src(node)[:160])
    if n < floor:
        raise AnalysisError(f"{rule}: only {n} call sites of {sorted(names)} found (expected >= {floor})")


def who_may_read_attr(ctx, res: Result, attr: str, allowed: set[str], rule: str, what: str, floor: int) -> None:
    n = 0
    allowed = effective_allowed(ctx, allowed)
    for fi in ctx.ix.all_functions():
        for node in walk_no_nested(fi.node):
            if isinstance(node, ast.Attribute) and node.attr == attr and isinstance(node.ctx, ast.Load):
                n += 1
                inst = f"{fi.qualname}:{attr}"
                if fi.qualname in allowed:
                    res.ok(rule, inst, fi.site(node), fi.qualname, f"{what}: allowed site")
                else:
                    res.bad(rule, inst, fi.site(node), fi.qualname,
                            f"{what}: `{src(node)}` is read in {fi.qualname}, outside the enumerated truncation sites {sorted(allowed)}", construct=f"{fi.qualname} reads {attr}")
    if n < floor:
        raise AnalysisError(f"{rule}: only {n} reads of {attr} found (expected >= {floor})")
