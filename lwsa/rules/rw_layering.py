"""R-W  Who-may-call / who-may-read layering rules (ownership of a primitive or a setting)."""

from __future__ import annotations

import ast

from ..index import walk_no_nested
from ..report import Result
from ..source import AnalysisError, src


def call_sites(ctx, names: set[str]):
    """(FuncInfo | None, node) for every call whose callee's last name component is in `names`."""
    for fi in ctx.ix.all_functions():
        for n in walk_no_nested(fi.node):
            if isinstance(n, ast.Call):
                f = src(n.func).split(".")[-1]
                if f in names:
                    yield fi, n


def who_may_call(ctx, res: Result, names: set[str], allowed: set[str], rule: str, what: str, floor: int) -> None:
    n = 0
    for fi, node in call_sites(ctx, names):
        n += 1
        inst = f"{fi.qualname}:{src(node.func)}"
        if fi.qualname in allowed:
            res.ok(rule, inst, fi.site(node), fi.qualname, f"{what}: allowed site")
        else:
            res.bad(rule, inst, fi.site(node), fi.qualname,
                    f"{what}: `{src(node.func)}` is called outside {sorted(allowed)}; the result bypasses the normalisation / validation that the owner applies", construct=src(node)[:160])
    if n < floor:
        raise AnalysisError(f"{rule}: only {n} call sites of {sorted(names)} found (expected >= {floor})")


def who_may_read_attr(ctx, res: Result, attr: str, allowed: set[str], rule: str, what: str, floor: int) -> None:
    n = 0
    for fi in ctx.ix.all_functions():
        for node in walk_no_nested(fi.node):
            if isinstance(node, ast.Attribute) and node.attr == attr and isinstance(node.ctx, ast.Load):
                n += 1
                inst = f"{fi.qualname}:{attr}"
                if fi.qualname in allowed:
                    res.ok(rule, inst, fi.site(node), fi.qualname, f"{what}: allowed site")
                else:
                    res.bad(rule, inst, fi.site(node), fi.qualname,
                            f"{what}: `{src(node)}` is read in {fi.qualname}, outside the enumerated truncation sites {sorted(allowed)}", construct=f"{fi.qualname} reads {attr}")
    if n < floor:
        raise AnalysisError(f"{rule}: only {n} reads of {attr} found (expected >= {floor})")
