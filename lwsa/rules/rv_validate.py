"""Input validation (must-pass-through) rules for the emulator entry points and circuit-only refusals."""

from __future__ import annotations

import ast

from ..guards import Lit, Normaliser, canon, facts_at
from ..index import FuncInfo, walk_no_nested
from ..report import Result
from ..source import AnalysisError, src


def loop_validation(ctx, res: Result, fi: FuncInfo, iter_name: str, count_term: str, rule="V-states-validated", label=None, need_type=True) -> None:
    """In fi there is a loop over `iter_name` whose body, for the loop element s, rejects
    non-State values, rejects len(s) != count_term and calls s._validate() unconditionally."""
    from ..inline import with_helpers
    orig = fi
    fi = with_helpers(ctx, fi)
    loops = [l for l in walk_no_nested(fi.node) if isinstance(l, ast.For) and src(l.iter) == iter_name and isinstance(l.target, ast.Name)]
    loops.sort(key=lambda l: l.lineno)
    inst = label or f"{fi.qualname}:{iter_name}"
    if not loops:
        passed_on = [c for c in walk_no_nested(fi.node) if isinstance(c, ast.Call) and any(isinstance(a, ast.Name) and a.id == iter_name for a in c.args)]
        if passed_on:
            res.frozen(False, rule, inst, fi.site(), fi.qualname, "", f"no loop over `{iter_name}` recognised; it is passed to `{src(passed_on[0].func)}`", construct=inst)
            return
        res.bad(rule, inst, fi.site(), fi.qualname, f"no loop validates every element of `{iter_name}`", construct=inst)
        return
    lp = loops[0]
    v = lp.target.id
    norm = Normaliser(lambda e: repr(e.value) if isinstance(e, ast.Constant) else None)
    calls = [s for s in lp.body if isinstance(s, ast.Expr) and src(s.value) in (f"{v}._validate()", f"State._validate({v})")]
    if not calls:
        res.bad(rule, inst + ":values", fi.site(lp), fi.qualname, f"occupation values of `{iter_name}` elements are not validated unconditionally ({v}._validate() missing): negative / non-integer occupations reach the backend", construct=src(lp)[:120])
    else:
        res.ok(rule, inst + ":values", fi.site(calls[0]), fi.qualname, "occupation values validated for every element")
    sentinel = calls[0] if calls else lp.body[-1]
    fake = ast.FunctionDef(name="f", args=fi.node.args, body=lp.body, decorator_list=[], returns=None)
    facts = facts_at(fake, sentinel, norm) or []
    if not calls:
        from ..guards import facts_at_end
        facts = facts_at_end(fake, norm)
    want_type = frozenset({Lit("isinstance", v, "State")})
    # the count may be handed in by the callers: a parameter stands for the term when every call site passes that term
    count_terms = {count_term}
    if orig.cls is not None:
        hp = [a.arg for a in orig.node.args.args if a.arg not in ("self", "cls")]
        for pi_, pn_ in enumerate(hp):
            passed = []
            for m_ in orig.cls.all_funcs():
                if m_.node is orig.node:
                    continue
                nm_ = Normaliser(None, fn=m_.node)
                for c_ in walk_no_nested(m_.node):
                    if isinstance(c_, ast.Call) and isinstance(c_.func, ast.Attribute) and src(c_.func.value) == "self" and c_.func.attr == orig.name:
                        a_ = c_.args[pi_] if pi_ < len(c_.args) else next((k.value for k in c_.keywords if k.arg == pn_), None)
                        passed.append(nm_.term(a_) if a_ is not None else None)
            if passed and all(t_ == count_term for t_ in passed):
                count_terms.add(pn_)
    want_lens = [frozenset({canon("==", f"len({v})", ct_)}) for ct_ in count_terms]
    if need_type:
        res.add(any(f == want_type for f in facts), rule, inst + ":type", fi.site(lp), fi.qualname, "non-State elements are rejected", f"elements of `{iter_name}` are not type-checked before use", construct=f"{inst}:type")
    res.add(any(f in want_lens for f in facts), rule, inst + ":length", fi.site(lp), fi.qualname, f"len(state) == {count_term} enforced", f"length of `{iter_name}` elements is not compared with {count_term} (user-visible mode count): wrong-length states are computed instead of rejected; established: " + "; ".join(" or ".join(map(str, f)) for f in facts[:5]), construct=f"{inst}:length")


def photon_number_equal(ctx, res: Result, fi: FuncInfo, must_mention: list[str], rule="V-equal-photon-number", label=None) -> None:
    """A refusing guard establishes that all states of <names> carry one photon number.  Recognised sufficient forms over a
    collection X of photon numbers: `min(X) != max(X)`, `len(set(X)) != 1` / `> 1`, `any(n != X[0] for n in X)`.  A guard
    that compares the *set* of numbers of one collection with that of another (`set(A) != set(B)`) is recognised as
    insufficient: mixed numbers pass when both sides are mixed alike."""
    from ..inline import with_helpers
    fn = with_helpers(ctx, fi).node

    def resolve(e, depth=0):
        """names of the collections the photon numbers are taken from"""
        if depth > 4:
            return set()
        if isinstance(e, ast.Name):
            defs = [a.value for a in ast.walk(fn) if isinstance(a, ast.Assign) and len(a.targets) == 1 and isinstance(a.targets[0], ast.Name) and a.targets[0].id == e.id]
            out = set()
            for d in defs:
                out |= resolve(d, depth + 1)
            return out
        if "n_photons" in src(e):
            out = set()
            for g in [x for x in ast.walk(e) if isinstance(x, ast.comprehension)]:
                out |= {x.id for x in ast.walk(g.iter) if isinstance(x, ast.Name)}
            return out
        return set()

    ok, weak = [], []
    for n in ast.walk(fn):
        if not (isinstance(n, ast.If) and any(isinstance(b, ast.Raise) for b in n.body)):
            continue
        t = n.test
        if not isinstance(t, ast.Compare) or len(t.ops) != 1:
            continue
        l, r, op = t.left, t.comparators[0], t.ops[0]
        def call(e, nm):
            return isinstance(e, ast.Call) and src(e.func) == nm and e.args
        if call(l, "min") and call(r, "max") and isinstance(op, ast.NotEq) and src(l.args[0]) == src(r.args[0]):
            ok.append(resolve(l.args[0]))
        elif call(l, "max") and call(r, "min") and isinstance(op, ast.NotEq) and src(l.args[0]) == src(r.args[0]):
            ok.append(resolve(l.args[0]))
        elif call(l, "len") and isinstance(r, ast.Constant) and r.value == 1 and isinstance(op, (ast.NotEq, ast.Gt)):
            inner = l.args[0]
            if isinstance(inner, ast.Call) and src(inner.func) == "set" and inner.args:
                inner = inner.args[0]
            ok.append(resolve(inner))
        elif isinstance(op, ast.NotEq) and "n_photons" in src(fn) and (resolve(l) or resolve(r)) and (isinstance(l, (ast.Set, ast.SetComp, ast.Name)) or call(l, "set")) and (isinstance(r, (ast.Set, ast.SetComp, ast.Name)) or call(r, "set")) and resolve(l) and resolve(r):
            weak.append((n, resolve(l) | resolve(r)))
    any_guard = any("n_photons" in src(n.test) or any(x for x in ast.walk(n.test) if isinstance(x, ast.Name) and resolve(x)) for n in ast.walk(fn) if isinstance(n, ast.If) and any(isinstance(b, ast.Raise) for b in n.body))
    inst = label or fi.qualname
    for want in must_mention:
        names_w = set(want.split("+"))
        good = any(names_w <= names for names in ok)
        if good:
            res.ok(rule, f"{inst}:{want}", fi.site(), fi.qualname, f"photon numbers of {want} are required to be equal")
            continue
        wk = [w for w in weak if names_w & w[1]]
        if wk:
            res.bad(rule, f"{inst}:{want}", fi.site(wk[0][0]), fi.qualname, f"`{src(wk[0][0].test)[:80]}` compares the set of photon numbers of one collection with that of another: states of different photon number pass as long as both sides are mixed alike, so {want} are not required to carry one photon number", construct=src(wk[0][0].test)[:120])
        elif any_guard:
            res.frozen(False, rule, f"{inst}:{want}", fi.site(), fi.qualname, "", f"a refusal on photon numbers exists but not in a recognised form that makes all of {want} equal", construct=f"{inst}:{want}")
        else:
            res.bad(rule, f"{inst}:{want}", fi.site(), fi.qualname, f"no check that all of {want} carry the same photon number", construct=f"{inst}:{want}")


def _resolve(fi: FuncInfo, e, depth=0):
    """Names resolved through single-assignment locals to attribute chains."""
    out = set()
    for x in ast.walk(e):
        if isinstance(x, ast.Name) and isinstance(x.ctx, ast.Load):
            defs = [a.value for a in walk_no_nested(fi.node) if isinstance(a, ast.Assign) and len(a.targets) == 1 and isinstance(a.targets[0], ast.Name) and a.targets[0].id == x.id]
            params = fi.params()
            if x.id in params and x.id != "self":
                out.add("param:" + x.id)
            elif len(defs) >= 1 and depth < 4:
                for d in defs:
                    out |= _resolve(fi, d, depth + 1)
            elif x.id not in ("self", "len", "max", "min", "sum", "list", "sorted", "set", "any", "all", "isinstance", "int", "abs"):
                loopt = any(isinstance(l, ast.For) and any(isinstance(y, ast.Name) and y.id == x.id for y in ast.walk(l.target)) for l in walk_no_nested(fi.node))
                out.add(("loop:" if loopt else "name:") + x.id)
        elif isinstance(x, ast.Attribute) and isinstance(x.value, ast.Name) and x.value.id == "self":
            out.add("self." + x.attr)
    return out


CIRCUIT_FIELDS = {"self.circuit", "self._Simulator__circuit", "self._Sampler__circuit", "self._QuickSampler__circuit", "self._Analyzer__circuit", "self.__circuit", "self.__circuit_built", "self._Analyzer__circuit_built"}


def circuit_only_refusals(ctx, res: Result, funcs: list[FuncInfo], rule="D-no-circuit-only-refusal") -> int:
    """A raise whose dominating guard reads nothing but observables of the circuit means 'this object
    does not accept this circuit'; every constructible circuit is a legal input."""
    n = 0
    for fi in funcs:
        for node in walk_no_nested(fi.node):
            if isinstance(node, ast.If) and any(isinstance(b, ast.Raise) for b in node.body):
                n += 1
                terms = _resolve(fi, node.test)
                circ = {t for t in terms if t in CIRCUIT_FIELDS or t.startswith("name:circuit") or t.startswith("name:built_circuit")}
                other = terms - circ
                inst = f"{fi.qualname}:{src(node.test)[:60]}"
                if circ and not other:
                    res.bad(rule, inst, fi.site(node), fi.qualname,
                            f"refusal `{src(node.test)[:100]}` depends only on the circuit: this object rejects a circuit that the other simulation objects accept", construct=src(node.test)[:200])
                else:
                    res.ok(rule, inst, fi.site(node), fi.qualname, f"guard also depends on {sorted(other)[:3]}")
    return n
