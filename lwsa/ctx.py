"""Analysis context shared by all rules of one run."""

from __future__ import annotations

from .alias import Engine
from .cfg import CFG
from .index import FuncInfo, Index
from .source import Tree


class Ctx:
    def __init__(self, tree: Tree | None = None, tier: str = "quick"):
        self.tree = tree or Tree.load()
        self.tier = tier
        self.ix = Index(self.tree)
        self.eng = Engine(self.ix)
        self._cfgs: dict[int, CFG] = {}

    def cfg(self, fi: FuncInfo) -> CFG:
        k = id(fi.node)
        if k not in self._cfgs:
            self._cfgs[k] = CFG(fi.node)
        return self._cfgs[k]

    def func(self, rel, qualname, kind=None) -> FuncInfo:
        return self.ix.func(rel, qualname, kind)
