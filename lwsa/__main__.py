"""CLI: python -m lwsa check <ID> [--tier quick|thorough] | explain <json> | selfcheck | all"""

from __future__ import annotations

import argparse
import importlib
import json
import sys
import time
import traceback

from .report import finish
from .source import AnalysisError

PROPS = [f"C{i:02d}" for i in range(1, 20)]


def run_check(prop: str, tier: str) -> int:
    t0 = time.time()
    try:
        from .ctx import Ctx

        mod = importlib.import_module(f"lwsa.props.{prop.lower()}")
        ctx = Ctx(tier=tier)
        res = mod.check(ctx)
        # positive control: the same rules, on the working tree with one known breaking edit, must report
        from . import variants

        vid, verdict, rules = variants.run_control(prop, ctx.tree)
        res.extra["positive_control"] = {"variant": vid, "verdict": verdict, "rules_fired": rules}
        print(f"CONTROL {vid}: {verdict} {','.join(rules)}")
        has_viol = any(o.status == "violation" for o in res.obligations)
        if verdict not in ("violation", "not_applicable") and not has_viol:
            raise AnalysisError(f"positive control {vid} was not reported ({verdict}): the rules of {prop} no longer match what they must match")
        if tier == "thorough":
            results = variants.run_battery(props={prop})
            summ = variants.summarise(results)
            res.extra["sensitivity_battery"] = {"summary": summ, "variants": [{"id": r[0], "kind": r[1], "verdict": r[3], "rules": r[4]} for r in results]}
            print(f"BATTERY {prop}: breaking killed {summ['breaking']['killed']}, survived {summ['breaking']['survived']}, undecided {summ['breaking']['undecided']}; twins silent {summ['twins']['silent']}, false alarms {summ['twins']['false_alarm']}")
        return finish(res, tier, t0)
    except AnalysisError as e:
        print(f"ANALYSIS-ERROR property={prop}: {e}")
        return 2
    except ModuleNotFoundError as e:
        print(f"ANALYSIS-ERROR property={prop}: rule not built ({e})")
        return 2
    except Exception:  # noqa: BLE001 - a traceback must never look like a verdict
        traceback.print_exc()
        print(f"ANALYSIS-ERROR property={prop}: internal exception")
        return 2


def main(argv=None) -> int:
    ap = argparse.ArgumentParser(prog="lwsa")
    sub = ap.add_subparsers(dest="cmd", required=True)
    c = sub.add_parser("check")
    c.add_argument("prop")
    c.add_argument("--tier", default=None)
    e = sub.add_parser("explain")
    e.add_argument("path")
    sub.add_parser("selfcheck")
    sub.add_parser("battery")
    a = sub.add_parser("all")
    a.add_argument("--tier", default="quick")
    args = ap.parse_args(argv)
    if args.cmd == "check":
        import os

        tier = args.tier or os.environ.get("VERIF_TIER") or "quick"
        if tier not in ("quick", "thorough"):
            tier = "quick"
        return run_check(args.prop.upper(), tier)
    if args.cmd == "explain":
        d = json.load(open(args.path))
        print(f"property {d['property']}  rule {d['rule']}  instance {d['instance']}")
        print(f"site     {d['site']}  in {d['qualname']}")
        print(f"why      {d['why']}")
        if d.get("construct"):
            print(f"construct {d['construct']}")
        for p in d.get("path", []):
            print(f"  path: {p}")
        print("re-running the check on the current tree:")
        return run_check(d["property"], "quick")
    if args.cmd in ("selfcheck", "battery"):
        from . import variants

        results = variants.run_battery()
        summ = variants.summarise(results)
        for r in results:
            exp = "violation" if r[1] == "B" else "silent"
            if r[3] not in (exp, "not_applicable"):
                print("UNEXPECTED", r)
        print(json.dumps(summ))
        bad = summ["breaking"]["survived"] or summ["breaking"]["undecided"] or summ["twins"]["false_alarm"] or summ["twins"]["undecided"]
        return 2 if bad else 0
    if args.cmd == "all":
        rc = 0
        for p in PROPS:
            print(f"==== {p}")
            rc = max(rc, run_check(p, args.tier))
        return rc
    return 2


if __name__ == "__main__":
    sys.exit(main())
