"""Per-mode image tables.

The mapping methods of the result classes replace an output state by State([f(s) for s in state]).  This module
reads such a method as syntax and tabulates f over the occupations 0..5 for a fixed value of the boolean option:
a tiny evaluator for the closed arithmetic sub-language (constants, + - * % //, comparisons, conditional
expressions, min/max/int/bool/abs) applied to comprehension elements, with a statement walker that follows
assignments, branches on the option, local closures and `return`.  Nothing of the repository is imported or run;
anything outside the sub-language evaluates to UNKNOWN and the caller reports `undecided`."""

from __future__ import annotations

import ast

from .source import src

DOMAIN = tuple(range(6))
UNKNOWN = ("unknown",)


class Sym:
    """a state-valued symbol (loop variable over the stored outputs) with the per-mode table applied to it"""

    def __init__(self, name: str, table=DOMAIN):
        self.name, self.table = name, tuple(table)

    def __eq__(self, o):
        return isinstance(o, Sym) and (self.name, self.table) == (o.name, o.table)

    def __hash__(self):
        return hash((self.name, self.table))

    def __repr__(self):
        return f"{self.name}:{self.table}"


class Closure:
    def __init__(self, node, env):
        self.node, self.env = node, env


class Ret(Exception):
    def __init__(self, v):
        self.v = v


def scalar(e, env):
    """value of a scalar expression (ints / bools) or UNKNOWN"""
    if isinstance(e, ast.Constant) and isinstance(e.value, (int, bool)):
        return e.value
    if isinstance(e, ast.Name):
        v = env.get(e.id, UNKNOWN)
        return v if isinstance(v, (int, bool)) else UNKNOWN
    if isinstance(e, ast.BinOp):
        a, b = scalar(e.left, env), scalar(e.right, env)
        if a is UNKNOWN or b is UNKNOWN:
            return UNKNOWN
        try:
            if isinstance(e.op, ast.Add):
                return a + b
            if isinstance(e.op, ast.Sub):
                return a - b
            if isinstance(e.op, ast.Mult):
                return a * b
            if isinstance(e.op, ast.Mod):
                return a % b
            if isinstance(e.op, ast.FloorDiv):
                return a // b
            if isinstance(e.op, ast.BitAnd):
                return a & b
            if isinstance(e.op, ast.BitXor):
                return a ^ b
        except ZeroDivisionError:
            return UNKNOWN
        return UNKNOWN
    if isinstance(e, ast.UnaryOp):
        a = scalar(e.operand, env)
        if a is UNKNOWN:
            return UNKNOWN
        if isinstance(e.op, ast.Not):
            return not a
        if isinstance(e.op, ast.USub):
            return -a
        return UNKNOWN
    if isinstance(e, ast.Compare) and len(e.ops) == 1:
        a, b = scalar(e.left, env), scalar(e.comparators[0], env)
        if a is UNKNOWN or b is UNKNOWN:
            return UNKNOWN
        op = e.ops[0]
        table = {ast.Lt: a < b, ast.LtE: a <= b, ast.Gt: a > b, ast.GtE: a >= b, ast.Eq: a == b, ast.NotEq: a != b}
        return table.get(type(op), UNKNOWN)
    if isinstance(e, ast.BoolOp):
        vals = [scalar(v, env) for v in e.values]
        if any(v is UNKNOWN for v in vals):
            return UNKNOWN
        out = vals[0]
        for v in vals[1:]:
            out = (out and v) if isinstance(e.op, ast.And) else (out or v)
        return out
    if isinstance(e, ast.IfExp):
        t = scalar(e.test, env)
        if t is UNKNOWN:
            return UNKNOWN
        return scalar(e.body if t else e.orelse, env)
    if isinstance(e, ast.Call) and isinstance(e.func, ast.Name) and not e.keywords:
        args = [scalar(a, env) for a in e.args]
        if any(a is UNKNOWN for a in args):
            return UNKNOWN
        f = e.func.id
        if f == "min" and len(args) >= 2:
            return min(args)
        if f == "max" and len(args) >= 2:
            return max(args)
        if f in ("int", "bool", "abs") and len(args) == 1:
            return {"int": int, "bool": bool, "abs": abs}[f](args[0])
    return UNKNOWN


class Walker:
    def __init__(self, option: str, value: bool, state_vars: set[str]):
        self.option, self.value = option, value
        self.state_vars = state_vars
        self.keys: list = []  # (dict source text, key value, node)

    # ---- state-valued expressions
    def state(self, e, env):
        if isinstance(e, ast.Name):
            if e.id in env:
                return env[e.id]
            if e.id in self.state_vars:
                return Sym(e.id)
            return UNKNOWN
        if isinstance(e, ast.Call):
            f = src(e.func)
            if f in ("State", "list", "tuple") and len(e.args) == 1:
                return self.state(e.args[0], env)
            if isinstance(e.func, ast.Name) and isinstance(env.get(e.func.id), Closure):
                return self.call(env[e.func.id], e, env)
            return UNKNOWN
        if isinstance(e, ast.Attribute) and e.attr == "s":
            return self.state(e.value, env)
        if isinstance(e, ast.IfExp):
            t = self.truth(e.test, env)
            if t is UNKNOWN:
                a, b = self.state(e.body, env), self.state(e.orelse, env)
                return a if a == b else UNKNOWN
            return self.state(e.body if t else e.orelse, env)
        if isinstance(e, (ast.ListComp, ast.GeneratorExp)) and len(e.generators) == 1 and not e.generators[0].ifs and isinstance(e.generators[0].target, ast.Name):
            g = e.generators[0]
            base = self.state(g.iter, env)
            if not isinstance(base, Sym):
                return UNKNOWN
            out = []
            for v in base.table:
                if v is UNKNOWN:
                    return UNKNOWN
                env2 = {k: x for k, x in env.items() if isinstance(x, (int, bool))}
                env2[g.target.id] = v
                env2[self.option] = self.value
                r = scalar(e.elt, env2)
                if r is UNKNOWN:
                    return UNKNOWN
                out.append(int(r))
            return Sym(base.name, out)
        return UNKNOWN

    def truth(self, t, env):
        env2 = {k: x for k, x in env.items() if isinstance(x, (int, bool))}
        env2[self.option] = self.value
        return scalar(t, env2)

    def call(self, clo: Closure, e: ast.Call, env):
        params = [a.arg for a in clo.node.args.args]
        if len(params) != len(e.args) or e.keywords:
            return UNKNOWN
        env2 = dict(clo.env)
        for p, a in zip(params, e.args):
            sv = self.truth(a, env)  # a scalar / boolean argument (e.g. the option handed on under another name)
            env2[p] = sv if sv is not UNKNOWN else self.state(a, env)
        try:
            self.block(clo.node.body, env2)
        except Ret as r:
            return r.v
        return UNKNOWN

    # ---- statements
    def block(self, stmts, env):
        for s in stmts:
            self.stmt(s, env)

    def stmt(self, s, env):
        if isinstance(s, ast.FunctionDef):
            env[s.name] = Closure(s, env)
        elif isinstance(s, ast.Assign) and len(s.targets) == 1:
            t = s.targets[0]
            if isinstance(t, ast.Name):
                if isinstance(s.value, ast.Lambda):
                    fn = ast.FunctionDef(name=t.id, args=s.value.args, body=[ast.Return(value=s.value.body)], decorator_list=[])
                    env[t.id] = Closure(fn, env)
                else:
                    v = self.state(s.value, env)
                    if v is UNKNOWN:
                        sv = self.truth(s.value, env)
                        v = sv if sv is not UNKNOWN else UNKNOWN
                    env[t.id] = v
            elif isinstance(t, ast.Subscript):
                self.keys.append((src(t.value), self.state(t.slice, env), s))
        elif isinstance(s, ast.AnnAssign) and isinstance(s.target, ast.Name) and s.value is not None:
            env[s.target.id] = self.state(s.value, env)
        elif isinstance(s, ast.AugAssign) and isinstance(s.target, ast.Subscript):
            self.keys.append((src(s.target.value), self.state(s.target.slice, env), s))
        elif isinstance(s, ast.If):
            t = self.truth(s.test, env)
            if t is UNKNOWN:
                e1, e2 = dict(env), dict(env)
                r1 = r2 = None
                try:
                    self.block(s.body, e1)
                except Ret as r:
                    r1 = r
                try:
                    self.block(s.orelse, e2)
                except Ret as r:
                    r2 = r
                if r1 is not None and r2 is not None:
                    raise Ret(r1.v if r1.v == r2.v else UNKNOWN)
                src_env = e2 if r1 is not None else (e1 if r2 is not None else None)
                if src_env is not None:
                    env.clear()
                    env.update(src_env)
                else:
                    for k in set(e1) | set(e2):
                        a, b = e1.get(k, UNKNOWN), e2.get(k, UNKNOWN)
                        env[k] = a if (a == b or (isinstance(a, Closure) and isinstance(b, Closure))) else UNKNOWN
            else:
                self.block(s.body if t else s.orelse, env)
        elif isinstance(s, (ast.For, ast.While)):
            if isinstance(s, ast.For):
                for x in ast.walk(s.target):
                    if isinstance(x, ast.Name):
                        env.pop(x.id, None)
            try:
                self.block(s.body, env)
            except Ret:
                pass
        elif isinstance(s, ast.Return):
            raise Ret(self.state(s.value, env) if s.value is not None else UNKNOWN)
        elif isinstance(s, (ast.With, ast.Try)):
            self.block(s.body, env)


def key_tables(fn: ast.FunctionDef, option: str, value: bool, funcs: dict | None = None):
    """-> list of (dict expression text, Sym | UNKNOWN, node) for every subscript store of fn.
    funcs: module-level functions ({name: FunctionDef}) that the code may call on a state"""
    state_vars = set()
    for n in ast.walk(fn):
        if isinstance(n, ast.For) and isinstance(n.target, ast.Tuple) and n.target.elts and isinstance(n.target.elts[0], ast.Name) and src(n.iter).endswith(".items()"):
            state_vars.add(n.target.elts[0].id)
    w = Walker(option, value, state_vars)
    env0 = {name: Closure(node, {}) for name, node in (funcs or {}).items()}
    for c in env0.values():
        c.env = env0
    try:
        w.block(fn.body, env0)
    except Ret:
        pass
    return w.keys
