"""Conjugation / transposition conventions of matrix expressions, decided on syntax.

A matrix expression over a few named symbols is reduced to a normal form in which only two bits per symbol
survive: whether it is complex-conjugated and whether it is transposed.  For a Hermitian symbol X the two are
the same operation (X* = X^T), so one parity bit remains; for a real symmetric symbol (identity) none.
conj and .T distribute over np.kron, sums and real scalar factors; `_vec`/flatten keeps the matrix inside.

This is what decides "a transpose or a complex conjugate anywhere in the pipeline" for the tomography code:
the estimators, the reference Choi matrix and the gradient of the likelihood must pair the Choi matrix with the
*same* operator  rho^a (x) P^b ; the bits (a, b) are read off the source of each.  Nothing is evaluated numerically
and nothing of the repository is imported."""

from __future__ import annotations

import ast
from dataclasses import dataclass

from .source import src


class Unknown(Exception):
    pass


@dataclass(frozen=True)
class Atom:
    name: str
    kind: str  # 'herm' | 'realsym' | 'general'
    c: int = 0
    t: int = 0

    def norm(self):
        if self.kind == "realsym":
            return Atom(self.name, self.kind, 0, 0)
        if self.kind == "herm":
            return Atom(self.name, self.kind, 0, (self.c ^ self.t))  # parity kept in t: X^T == X*
        return self

    def __str__(self):
        n = self.norm()
        if n.kind == "herm":
            return n.name + ("^T" if n.t else "")
        return n.name + ("*" if n.c else "") + ("^T" if n.t else "")


@dataclass(frozen=True)
class Kron:
    a: object
    b: object

    def __str__(self):
        return f"({self.a} (x) {self.b})"


@dataclass(frozen=True)
class Sum:
    terms: tuple

    def __str__(self):
        return "(" + " + ".join(map(str, self.terms)) + ")"


@dataclass(frozen=True)
class Vec:
    m: object

    def __str__(self):
        return f"vec{self.m}"


@dataclass(frozen=True)
class Prod:
    """matrix product, kept in order"""
    factors: tuple

    def __str__(self):
        return "(" + " . ".join(map(str, self.factors)) + ")"


def conj(v):
    if isinstance(v, Atom):
        return Atom(v.name, v.kind, v.c ^ 1, v.t).norm()
    if isinstance(v, Kron):
        return Kron(conj(v.a), conj(v.b))
    if isinstance(v, Sum):
        return Sum(tuple(conj(x) for x in v.terms))
    if isinstance(v, Vec):
        return Vec(conj(v.m))
    if isinstance(v, Prod):
        return Prod(tuple(conj(x) for x in v.factors))
    raise Unknown(f"conj of {v}")


def transpose(v):
    if isinstance(v, Atom):
        return Atom(v.name, v.kind, v.c, v.t ^ 1).norm()
    if isinstance(v, Kron):
        return Kron(transpose(v.a), transpose(v.b))
    if isinstance(v, Sum):
        return Sum(tuple(transpose(x) for x in v.terms))
    if isinstance(v, Prod):
        return Prod(tuple(transpose(x) for x in reversed(v.factors)))
    raise Unknown(f"transpose of {v}")


def norm(v):
    if isinstance(v, Atom):
        return v.norm()
    if isinstance(v, Kron):
        return Kron(norm(v.a), norm(v.b))
    if isinstance(v, Sum):
        ts = []
        for x in v.terms:
            n = norm(x)
            if isinstance(n, Sum):
                ts += list(n.terms)
            else:
                ts.append(n)
        uniq = []
        for x in ts:
            if x not in uniq:
                uniq.append(x)
        return uniq[0] if len(uniq) == 1 else Sum(tuple(sorted(uniq, key=str)))
    if isinstance(v, Vec):
        return Vec(norm(v.m))
    if isinstance(v, Prod):
        return Prod(tuple(norm(x) for x in v.factors))
    return v


def parities(v, names):
    """parity bit of each named Hermitian symbol inside v (all its occurrences must agree) -> dict or raises Unknown"""
    out: dict[str, set] = {n: set() for n in names}

    def walk(x):
        if isinstance(x, Atom):
            n = x.norm()
            if n.name in out and n.kind == "herm":
                out[n.name].add(n.t)
        elif isinstance(x, Kron):
            walk(x.a)
            walk(x.b)
        elif isinstance(x, Sum):
            for y in x.terms:
                walk(y)
        elif isinstance(x, Vec):
            walk(x.m)
        elif isinstance(x, Prod):
            for y in x.factors:
                walk(y)

    walk(v)
    res = {}
    for n, s in out.items():
        if len(s) != 1:
            raise Unknown(f"symbol {n} occurs with parities {sorted(s)} in {v}")
        res[n] = next(iter(s))
    return res


class Evaluator:
    """AST -> normal form.  `classify(expr)` names the leaves: returns an Atom or None."""

    def __init__(self, classify):
        self.classify = classify

    def ev(self, e):
        a = self.classify(e)
        if a is not None:
            return a
        if isinstance(e, ast.Attribute):
            if e.attr == "T":
                return transpose(self.ev(e.value))
            if e.attr == "real":
                raise Unknown("real part")
        if isinstance(e, ast.Call):
            f = src(e.func)
            last = f.split(".")[-1]
            if last in ("conj", "conjugate"):
                if isinstance(e.func, ast.Attribute) and not e.args and not (isinstance(e.func.value, ast.Name) and e.func.value.id in ("np", "numpy")):
                    return conj(self.ev(e.func.value))
                if e.args:
                    return conj(self.ev(e.args[0]))
            if last == "transpose":
                if e.args and isinstance(e.func, ast.Attribute) and isinstance(e.func.value, ast.Name) and e.func.value.id in ("np", "numpy"):
                    return transpose(self.ev(e.args[0]))
                if isinstance(e.func, ast.Attribute) and not e.args:
                    return transpose(self.ev(e.func.value))
            if last == "kron" and len(e.args) == 2:
                return Kron(self.ev(e.args[0]), self.ev(e.args[1]))
            if last in ("array", "asarray", "copy", "matrix") and e.args:
                return self.ev(e.args[0])
            if last in ("_vec",) and len(e.args) == 1:
                return Vec(self.ev(e.args[0]))
            if last in ("flatten", "ravel") and isinstance(e.func, ast.Attribute) and not e.args:
                return Vec(self.ev(e.func.value))
            if last in ("matmul", "dot") and len(e.args) == 2:
                return Prod((self.ev(e.args[0]), self.ev(e.args[1])))
            if last in ("clip",) and isinstance(e.func, ast.Attribute):
                return self.ev(e.func.value)
        if isinstance(e, ast.Subscript):
            sl = e.slice
            full = isinstance(sl, ast.Slice) and sl.lower is None and sl.upper is None
            if isinstance(sl, ast.Tuple):
                full = all(isinstance(x, ast.Slice) and x.lower is None and x.upper is None for x in sl.elts)
            if full:
                return self.ev(e.value)
        if isinstance(e, ast.BinOp):
            if isinstance(e.op, (ast.Add, ast.Sub)):
                return Sum((self.ev(e.left), self.ev(e.right)))
            if isinstance(e.op, (ast.Div,)):
                if self._real_scalar(e.right):
                    return self.ev(e.left)
            if isinstance(e.op, ast.Mult):
                if self._real_scalar(e.left):
                    return self.ev(e.right)
                if self._real_scalar(e.right):
                    return self.ev(e.left)
            if isinstance(e.op, ast.MatMult):
                return Prod((self.ev(e.left), self.ev(e.right)))
        if isinstance(e, ast.UnaryOp) and isinstance(e.op, (ast.USub, ast.UAdd)):
            return self.ev(e.operand)
        raise Unknown(src(e)[:80])

    @staticmethod
    def _real_scalar(e) -> bool:
        """built from real numeric constants, dimension-like names and len()/int() only"""
        for x in ast.walk(e):
            if isinstance(x, ast.Constant):
                if isinstance(x.value, complex) or not isinstance(x.value, (int, float)):
                    return False
            elif isinstance(x, ast.Name):
                if x.id not in ("dim", "dim1", "dim2", "n", "n_qubits", "self", "len", "int", "float", "d"):
                    return False
            elif isinstance(x, ast.Attribute):
                if src(x) not in ("self.n_qubits",):
                    return False
            elif isinstance(x, ast.Call):
                if src(x.func) not in ("len", "int", "float"):
                    return False
            elif not isinstance(x, (ast.BinOp, ast.UnaryOp, ast.operator, ast.unaryop, ast.expr_context)):
                return False
        return True
