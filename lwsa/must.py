"""Structured forward *must* analysis over a function body (facts that hold on every path).

State: frozenset of hashable facts, or None for "unreachable".  Subclasses override
`event(role, node, st)` (called for loads / calls / stores in CPython evaluation order),
`branch(test, st)` and optionally `merge_if`.
Facts gained inside conditionally evaluated sub-expressions (operands 2.. of and/or,
both arms of a conditional expression, comprehension bodies) are checked but not kept.
"""

from __future__ import annotations

import ast

from .source import AnalysisError


def meet(a, b):
    if a is None:
        return b
    if b is None:
        return a
    return a & b


class MustWalk:
    def __init__(self, fn: ast.FunctionDef):
        self.fn = fn
        self.returns: list = []
        self._breaks: list[list] = []
        self._conts: list[list] = []

    # ---- hooks -------------------------------------------------------------
    def event(self, role: str, node: ast.AST, st: frozenset) -> frozenset:
        return st

    def branch(self, test: ast.AST, st: frozenset):
        return st, st

    def merge_if(self, test, a, b, node=None):
        return meet(a, b)

    def assigned(self, name: str, st: frozenset) -> frozenset:
        return st

    # ---- driver ------------------------------------------------------------
    def run(self, entry: frozenset = frozenset()):
        end = self.block(self.fn.body, entry)
        out = end
        for r in self.returns:
            out = meet(out, r)
        return out

    def block(self, stmts, st):
        for s in stmts:
            if st is None:
                return None
            st = self.stmt(s, st)
        return st

    def expr(self, e, st):
        if e is None or st is None:
            return st
        if isinstance(e, ast.BoolOp):
            st = self.expr(e.values[0], st)
            for v in e.values[1:]:
                self.expr(v, st)  # checked, gains discarded
            return st
        if isinstance(e, ast.IfExp):
            st = self.expr(e.test, st)
            a, b = self.branch(e.test, st)
            ra = self.expr(e.body, a)
            rb = self.expr(e.orelse, b)
            return self.merge_if(e.test, ra, rb)
        if isinstance(e, (ast.ListComp, ast.SetComp, ast.GeneratorExp, ast.DictComp)):
            st = self.expr(e.generators[0].iter, st)
            inner = st
            for i, g in enumerate(e.generators):
                if i > 0:
                    inner = self.expr(g.iter, inner)
                for c in g.ifs:
                    inner = self.expr(c, inner)
            if isinstance(e, ast.DictComp):
                inner = self.expr(e.key, inner)
                inner = self.expr(e.value, inner)
            else:
                inner = self.expr(e.elt, inner)
            return st
        if isinstance(e, ast.Lambda):
            return st
        if isinstance(e, ast.Call):
            st = self.expr(e.func, st)
            for a in e.args:
                st = self.expr(a.value if isinstance(a, ast.Starred) else a, st)
            for k in e.keywords:
                st = self.expr(k.value, st)
            return self.event("call", e, st)
        if isinstance(e, ast.Attribute):
            st = self.expr(e.value, st)
            return self.event("load", e, st) if isinstance(e.ctx, ast.Load) else st
        if isinstance(e, ast.Subscript):
            st = self.expr(e.value, st)
            st = self.expr(e.slice, st)
            return self.event("load", e, st) if isinstance(e.ctx, ast.Load) else st
        if isinstance(e, ast.Name):
            return self.event("load", e, st) if isinstance(e.ctx, ast.Load) else st
        for c in ast.iter_child_nodes(e):
            if isinstance(c, ast.expr):
                st = self.expr(c, st)
        return st

    def store(self, t, st, stmt):
        if st is None:
            return st
        if isinstance(t, ast.Name):
            st = self.assigned(t.id, st)
            return self.event("store", t, st)
        if isinstance(t, ast.Attribute):
            st = self.expr(t.value, st)
            return self.event("store", t, st)
        if isinstance(t, ast.Subscript):
            st = self.expr(t.value, st)
            st = self.expr(t.slice, st)
            return self.event("store", t, st)
        if isinstance(t, (ast.Tuple, ast.List)):
            for x in t.elts:
                st = self.store(x.value if isinstance(x, ast.Starred) else x, st, stmt)
            return st
        return st

    def stmt(self, s, st):
        if isinstance(s, ast.Assign):
            st = self.expr(s.value, st)
            for t in s.targets:
                st = self.store(t, st, s)
            return st
        if isinstance(s, ast.AnnAssign):
            if s.value is not None:
                st = self.expr(s.value, st)
                st = self.store(s.target, st, s)
            return st
        if isinstance(s, ast.AugAssign):
            t = s.target
            if isinstance(t, ast.Attribute):
                st = self.expr(t.value, st)
            elif isinstance(t, ast.Subscript):
                st = self.expr(t.value, st)
                st = self.expr(t.slice, st)
            st = self.event("load", t, st)
            st = self.expr(s.value, st)
            if isinstance(t, ast.Name):
                st = self.assigned(t.id, st)
            return self.event("store", t, st)
        if isinstance(s, ast.Expr):
            return self.expr(s.value, st)
        if isinstance(s, ast.Return):
            st = self.expr(s.value, st)
            self.returns.append(st)
            return None
        if isinstance(s, ast.Raise):
            self.expr(s.exc, st)
            return None
        if isinstance(s, ast.If):
            st = self.expr(s.test, st)
            a, b = self.branch(s.test, st)
            ra = self.block(s.body, a)
            rb = self.block(s.orelse, b)
            return self.merge_if(s.test, ra, rb, s)
        if isinstance(s, (ast.For, ast.While)):
            self._breaks.append([])
            self._conts.append([])
            if isinstance(s, ast.For):
                st = self.expr(s.iter, st)
            head = st
            for _ in range(10):
                cur = head
                if isinstance(s, ast.While):
                    cur = self.expr(s.test, cur)
                    cur, exit_b = self.branch(s.test, cur)
                else:
                    cur = self.store(s.target, cur, s)
                end = self.block(s.body, cur)
                for c in self._conts[-1]:
                    end = meet(end, c)
                self._conts[-1].clear()
                new = meet(head, end) if end is not None else head
                if new == head:
                    break
                head = new
            else:
                raise AnalysisError("must-analysis loop did not converge")
            out = head
            if isinstance(s, ast.While):
                out = self.expr(s.test, out)
                _t, out = self.branch(s.test, out)
                if isinstance(s.test, ast.Constant) and s.test.value is True:
                    out = None
            if s.orelse and out is not None:
                out = self.block(s.orelse, out)
            for b in self._breaks.pop():
                out = meet(out, b)
            self._conts.pop()
            return out
        if isinstance(s, ast.Break):
            if self._breaks:
                self._breaks[-1].append(st)
            return None
        if isinstance(s, ast.Continue):
            if self._conts:
                self._conts[-1].append(st)
            return None
        if isinstance(s, ast.Try):
            after = self.block(s.body, st)
            hstart = meet(st, after)
            outs = []
            if after is not None:
                outs.append(self.block(s.orelse, after) if s.orelse else after)
            for h in s.handlers:
                outs.append(self.block(h.body, hstart))
            res = None
            for o in outs:
                res = meet(res, o)
            if s.finalbody and res is not None:
                res = self.block(s.finalbody, res)
            return res
        if isinstance(s, (ast.With, ast.AsyncWith)):
            for it in s.items:
                st = self.expr(it.context_expr, st)
                if it.optional_vars is not None:
                    st = self.store(it.optional_vars, st, s)
            return self.block(s.body, st)
        if isinstance(s, ast.Assert):
            return self.expr(s.test, st)
        if isinstance(s, ast.Delete):
            for t in s.targets:
                st = self.expr(t.value, st) if isinstance(t, (ast.Attribute, ast.Subscript)) else st
            return st
        if isinstance(s, (ast.Pass, ast.Import, ast.ImportFrom, ast.Global, ast.Nonlocal, ast.FunctionDef, ast.AsyncFunctionDef, ast.ClassDef)):
            return st
        raise AnalysisError(f"unsupported statement {type(s).__name__}")
