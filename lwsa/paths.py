"""Path-sensitive copy propagation over a (loop) body.

For rules of the form "on every path for a component of kind K the code appends exactly these components, built from
these values", the structured body is walked path by path:

* an environment maps local names to the expression (as text, over parameters / the loop element) they currently
  hold - plain copy propagation, flow-sensitive, so `m1, m2 = m2, m1` and `lower = spec.mode_2` are seen through;
* branch tests are rewritten through the environment; a test that is an `isinstance` of the element is decided by
  the component kind under analysis, every other test forks the path and is remembered, so that the same predicate
  cannot be taken both ways on one path (branch correlation by identical text - no solver);
* dictionaries under construction carry an identity tag; `{v: k for k, v in D.items()}` is inv(tag of D);
* `L.append(E)` / `L += [E]` are the events of a path.

Inner loops are not unrolled: names assigned inside them become opaque ("?name"), stores into a tagged dictionary
keep the tag.  Paths end at `continue`, `break`, `return`, `raise` or at the end of the body."""

from __future__ import annotations

import ast
import copy
from dataclasses import dataclass, field

from .source import src

MAX_PATHS = 512


@dataclass
class Path:
    env: dict = field(default_factory=dict)
    cond: dict = field(default_factory=dict)  # normalised test text -> truth
    events: list = field(default_factory=list)  # ("append", list name, ctor | None, [arg texts], node)
    end: str | None = None  # None (still running) | continue | break | return | raise | fall

    def fork(self):
        return Path(dict(self.env), dict(self.cond), list(self.events), self.end)


class _Sub(ast.NodeTransformer):
    def __init__(self, env):
        self.env = env

    def visit_Name(self, n):
        if isinstance(n.ctx, ast.Load) and n.id in self.env and isinstance(self.env[n.id], ast.AST):
            return copy.deepcopy(self.env[n.id])
        return n


def norm_text(e) -> str:
    return src(e).replace(" ", "")


class Walker:
    def __init__(self, elem: str, kind_truth=None):
        """kind_truth(test_ast) -> True/False/None decides tests on the kind of the element"""
        self.elem = elem
        self.kind_truth = kind_truth or (lambda t: None)
        self._tag = 0
        self.overflow = False

    # ---- expressions through the environment
    def subst(self, e, p: Path):
        return _Sub(p.env).visit(copy.deepcopy(e))

    def text(self, e, p: Path) -> str:
        return norm_text(self.subst(e, p))

    # ---- tests
    def truth(self, t, p: Path):
        k = self.kind_truth(t)
        if k is not None:
            return k
        if isinstance(t, ast.UnaryOp) and isinstance(t.op, ast.Not):
            v = self.truth(t.operand, p)
            return None if v is None else (not v)
        if isinstance(t, ast.BoolOp):
            vs = [self.truth(x, p) for x in t.values]
            if isinstance(t.op, ast.And):
                if any(v is False for v in vs):
                    return False
                return True if all(v is True for v in vs) else None
            if any(v is True for v in vs):
                return True
            return False if all(v is False for v in vs) else None
        key = self.text(t, p)
        if key in p.cond:
            return p.cond[key]
        # the negated comparison counts as the same predicate
        if isinstance(t, ast.Compare) and len(t.ops) == 1:
            neg = {ast.Eq: ast.NotEq, ast.NotEq: ast.Eq, ast.Lt: ast.GtE, ast.GtE: ast.Lt, ast.Gt: ast.LtE, ast.LtE: ast.Gt, ast.In: ast.NotIn, ast.NotIn: ast.In, ast.Is: ast.IsNot, ast.IsNot: ast.Is}.get(type(t.ops[0]))
            if neg is not None:
                t2 = self.subst(t, p)
                t2.ops = [neg()]
                k2 = norm_text(t2)
                if k2 in p.cond:
                    return not p.cond[k2]
        return None

    def assume(self, t, value: bool, p: Path):
        """record the atoms that the outcome of test t fixes"""
        if isinstance(t, ast.UnaryOp) and isinstance(t.op, ast.Not):
            self.assume(t.operand, not value, p)
            return
        if isinstance(t, ast.BoolOp):
            if (isinstance(t.op, ast.And) and value) or (isinstance(t.op, ast.Or) and not value):
                for x in t.values:
                    self.assume(x, value, p)
                return
            undecided = [x for x in t.values if self.truth(x, p) is None]
            if len(undecided) == 1:
                self.assume(undecided[0], value, p)
            return
        if self.kind_truth(t) is not None:
            return
        p.cond[self.text(t, p)] = value

    # ---- statements
    def run(self, body, paths=None):
        paths = paths if paths is not None else [Path()]
        for st in body:
            live = [p for p in paths if p.end is None]
            done = [p for p in paths if p.end is not None]
            if not live:
                break
            new = []
            for p in live:
                new += self.stmt(st, p)
            paths = done + new
            if len(paths) > MAX_PATHS:
                self.overflow = True
                paths = paths[:MAX_PATHS]
        return paths

    def stmt(self, st, p: Path):
        if isinstance(st, ast.If):
            v = self.truth(st.test, p)
            out = []
            if v is not False:
                q = p.fork()
                if v is None:
                    self.assume(st.test, True, q)
                out += self.run(st.body, [q])
            if v is not True:
                q = p.fork()
                if v is None:
                    self.assume(st.test, False, q)
                out += self.run(st.orelse, [q])
            return out
        if isinstance(st, (ast.Continue, ast.Break, ast.Return, ast.Raise)):
            p.end = {ast.Continue: "continue", ast.Break: "break", ast.Return: "return", ast.Raise: "raise"}[type(st)]
            return [p]
        if isinstance(st, (ast.For, ast.While)):
            for x in ast.walk(st):
                if isinstance(x, ast.Name) and isinstance(x.ctx, ast.Store):
                    p.env[x.id] = ast.Name(id="?" + x.id, ctx=ast.Load())
            # appends inside an inner loop: recorded as a repeated event
            for c in ast.walk(st):
                ev = self._append_event(c, p)
                if ev:
                    p.events.append(("repeat",) + ev[1:])
            return [p]
        if isinstance(st, ast.Assign) and len(st.targets) == 1:
            t = st.targets[0]
            if isinstance(t, ast.Name):
                p.env[t.id] = self.value(st.value, p)
            elif isinstance(t, (ast.Tuple, ast.List)) and isinstance(st.value, (ast.Tuple, ast.List)) and len(t.elts) == len(st.value.elts) and all(isinstance(x, ast.Name) for x in t.elts):
                vals = [self.value(v, p) for v in st.value.elts]
                for x, v in zip(t.elts, vals):
                    p.env[x.id] = v
            elif isinstance(t, (ast.Tuple, ast.List)):
                for x in ast.walk(t):
                    if isinstance(x, ast.Name):
                        p.env[x.id] = ast.Name(id="?" + x.id, ctx=ast.Load())
            return [p]
        if isinstance(st, ast.AnnAssign) and isinstance(st.target, ast.Name) and st.value is not None:
            p.env[st.target.id] = self.value(st.value, p)
            return [p]
        if isinstance(st, ast.AugAssign):
            if isinstance(st.target, ast.Name):
                ev = self._append_event(st, p)
                if ev:
                    p.events.append(ev)
                else:
                    cur = p.env.get(st.target.id, ast.Name(id=st.target.id, ctx=ast.Load()))
                    p.env[st.target.id] = ast.BinOp(left=copy.deepcopy(cur) if isinstance(cur, ast.AST) else ast.Name(id=st.target.id, ctx=ast.Load()), op=st.op, right=self.subst(st.value, p))
            return [p]
        if isinstance(st, ast.Expr):
            ev = self._append_event(st.value, p)
            if ev:
                p.events.append(ev)
            return [p]
        if isinstance(st, (ast.With, ast.Try)):
            return self.run(st.body, [p])
        return [p]

    def value(self, v, p: Path):
        if isinstance(v, ast.Dict) and not v.keys:
            self._tag += 1
            return ast.Name(id=f"dict#{self._tag}", ctx=ast.Load())
        if isinstance(v, ast.Call) and src(v.func) == "dict" and not v.args and not v.keywords:
            self._tag += 1
            return ast.Name(id=f"dict#{self._tag}", ctx=ast.Load())
        if isinstance(v, ast.DictComp) and len(v.generators) == 1:
            g = v.generators[0]
            if isinstance(g.target, ast.Tuple) and len(g.target.elts) == 2 and isinstance(g.iter, ast.Call) and isinstance(g.iter.func, ast.Attribute) and g.iter.func.attr == "items" and not g.ifs:
                k, w = (src(x) for x in g.target.elts)
                if src(v.key) == w and src(v.value) == k:
                    base = self.text(g.iter.func.value, p)
                    return ast.Name(id=f"inv({base})", ctx=ast.Load())
        if isinstance(v, ast.Call) and src(v.func) in ("copy", "deepcopy", "copy.copy", "copy.deepcopy") and len(v.args) == 1 and isinstance(v.args[0], ast.Name):
            return self.subst(v.args[0], p)  # a copy stands for the element itself here
        if isinstance(v, (ast.ListComp, ast.DictComp, ast.SetComp, ast.GeneratorExp, ast.Lambda)):
            self._tag += 1
            return ast.Name(id=f"value#{self._tag}", ctx=ast.Load())
        return self.subst(v, p)

    def _append_event(self, c, p: Path):
        item = lst = None
        if isinstance(c, ast.Call) and isinstance(c.func, ast.Attribute) and c.func.attr == "append" and len(c.args) == 1 and isinstance(c.func.value, ast.Name):
            lst, item = c.func.value.id, c.args[0]
        elif isinstance(c, ast.AugAssign) and isinstance(c.op, ast.Add) and isinstance(c.target, ast.Name) and isinstance(c.value, ast.List) and len(c.value.elts) == 1:
            lst, item = c.target.id, c.value.elts[0]
        if item is None:
            return None
        item = self.subst(item, p)
        if isinstance(item, ast.Call) and isinstance(item.func, (ast.Name, ast.Attribute)):
            return ("append", lst, src(item.func).split(".")[-1], [norm_text(a) for a in item.args] + [f"{k.arg}={norm_text(k.value)}" for k in item.keywords], c)
        return ("append", lst, None, [norm_text(item)], c)
