"""Constant / polynomial folding of closed literal expressions taken from source text.

Values: Poly (scalars), matrices (list of rows of Poly), python lists/dicts/strings of those.
Angles: the symbol `theta` is represented through c = cos(theta/2), s = sin(theta/2) with
s**2 -> 1 - c**2; exp(i*k*theta/2) = (c + i s)**k.  Anything outside the sub-language raises
NotFoldable (the caller turns that into an ANALYSIS-ERROR, never a guess)."""

from __future__ import annotations

import ast
import cmath
import math

from .poly import Poly, _p, madd, mat, mconj, mdag, meye, mkron, mmul, mscale, mshape, msub, mT
from .source import src


class NotFoldable(Exception):
    pass


class SignLost(NotFoldable):
    """sqrt / fractional power of an expression that depends on the angle: |cos|, |sin| - not polynomial,
    and not proportional to a matrix built from cos/sin for every angle."""


class Angle:
    """A linear form k * theta (+ constant) with complex k, used inside exp/cos/sin arguments."""

    def __init__(self, k: complex, const: complex = 0):
        self.k, self.const = complex(k), complex(const)


def is_matrix(v):
    return isinstance(v, list) and v and isinstance(v[0], list)


def is_vector(v):
    return isinstance(v, list) and (not v or not isinstance(v[0], list))


class Folder:
    def __init__(self, env=None, angle_names=("theta",), call_hook=None):
        self.env = dict(env or {})
        self.angle_names = set(angle_names)
        self.call_hook = call_hook

    def fold(self, e):
        m = getattr(self, "f_" + type(e).__name__, None)
        if m is None:
            raise NotFoldable(f"{type(e).__name__}: {src(e)[:60]}")
        return m(e)

    def f_Constant(self, e):
        if isinstance(e.value, (int, float, complex)) and not isinstance(e.value, bool):
            return Poly.const(e.value)
        if isinstance(e.value, str):
            return e.value
        raise NotFoldable(repr(e.value))

    def f_Name(self, e):
        if e.id in self.angle_names:
            return Angle(1)
        if e.id in self.env:
            return self.env[e.id]
        raise NotFoldable(f"name {e.id}")

    def f_Attribute(self, e):
        s = src(e)
        if s in ("np.pi", "numpy.pi", "math.pi"):
            return Poly.const(math.pi)
        v = None
        if e.attr == "T":
            return mT(self._m(self.fold(e.value)))
        if s in self.env:
            return self.env[s]
        raise NotFoldable(s)

    def f_UnaryOp(self, e):
        v = self.fold(e.operand)
        if isinstance(e.op, ast.USub):
            if isinstance(v, Angle):
                return Angle(-v.k, -v.const)
            if is_matrix(v):
                return mscale(v, -1)
            return -v
        if isinstance(e.op, ast.UAdd):
            return v
        raise NotFoldable(src(e))

    def f_BinOp(self, e):
        a, b = self.fold(e.left), self.fold(e.right)
        op = e.op
        if isinstance(a, Angle) or isinstance(b, Angle):
            return self._angle_op(a, b, op, e)
        if isinstance(op, ast.MatMult):
            return mmul(self._m(a), self._m(b))
        am, bm = is_matrix(a), is_matrix(b)
        if isinstance(op, ast.Add):
            if am and bm:
                return madd(a, b)
            if not am and not bm and not isinstance(a, list) and not isinstance(b, list):
                return a + b
        if isinstance(op, ast.Sub):
            if am and bm:
                return msub(a, b)
            if not am and not bm and not isinstance(a, list) and not isinstance(b, list):
                return a - b
        if isinstance(op, ast.Mult):
            if am and not bm and isinstance(b, Poly):
                return mscale(a, b)
            if bm and not am and isinstance(a, Poly):
                return mscale(b, a)
            if isinstance(a, Poly) and isinstance(b, Poly):
                return a * b
            if am and bm and mshape(a) == mshape(b):
                return [[x * y for x, y in zip(r, s)] for r, s in zip(a, b)]
        if isinstance(op, ast.Div):
            if am and isinstance(b, Poly):
                return [[x / b for x in r] for r in a]
            if isinstance(a, Poly) and isinstance(b, Poly):
                return a / b
        if isinstance(op, ast.Pow):
            if isinstance(a, Poly) and isinstance(b, Poly):
                if a.is_const() and b.is_const():
                    return Poly.const(a.value() ** b.value())
                if b.is_const() and not a.is_const() and abs(b.value() - round(b.value().real)) > 1e-12:
                    raise SignLost(f"`{src(e)[:50]}` is a fractional power of an angle-dependent quantity")
                try:
                    return a ** b
                except (ValueError, ZeroDivisionError) as ex:
                    raise NotFoldable(f"{src(e)[:50]}: {ex}") from ex
        raise NotFoldable(src(e)[:80])

    def _angle_op(self, a, b, op, e):
        if isinstance(op, ast.Mult):
            if isinstance(a, Angle) and isinstance(b, Poly) and b.is_const():
                return Angle(a.k * b.value(), a.const * b.value())
            if isinstance(b, Angle) and isinstance(a, Poly) and a.is_const():
                return Angle(b.k * a.value(), b.const * a.value())
        if isinstance(op, ast.Div) and isinstance(a, Angle) and isinstance(b, Poly) and b.is_const():
            return Angle(a.k / b.value(), a.const / b.value())
        if isinstance(op, (ast.Add, ast.Sub)):
            sg = 1 if isinstance(op, ast.Add) else -1
            if isinstance(a, Angle) and isinstance(b, Angle):
                return Angle(a.k + sg * b.k, a.const + sg * b.const)
            if isinstance(a, Angle) and isinstance(b, Poly) and b.is_const():
                return Angle(a.k, a.const + sg * b.value())
            if isinstance(b, Angle) and isinstance(a, Poly) and a.is_const():
                return Angle(sg * b.k, a.value() + sg * b.const)
        raise NotFoldable("angle expression " + src(e)[:60])

    def _m(self, v):
        if is_matrix(v):
            return v
        raise NotFoldable("matrix expected")

    def f_List(self, e):
        vals = [self.fold(x) for x in e.elts]
        if vals and all(isinstance(v, list) and not is_matrix(v) for v in vals):
            return [[_p(x) for x in v] for v in vals]  # matrix literal
        return vals

    f_Tuple = f_List

    def f_Dict(self, e):
        out = {}
        for k, v in zip(e.keys, e.values):
            if k is None:
                d = self.fold(v)
                if not isinstance(d, dict):
                    raise NotFoldable("dict splat")
                out.update(d)
            else:
                kk = self.fold(k)
                out[kk if isinstance(kk, str) else repr(kk)] = self.fold(v)
        return out

    def f_Subscript(self, e):
        v = self.fold(e.value)
        if isinstance(v, dict):
            k = self.fold(e.slice)
            if isinstance(k, str) and k in v:
                return v[k]
        raise NotFoldable(src(e)[:60])

    def f_Call(self, e):
        f = src(e.func)
        last = f.split(".")[-1]
        if self.call_hook:
            r = self.call_hook(self, e)
            if r is not None:
                return r
        if last == "array" and e.args:
            v = self.fold(e.args[0])
            return v
        if last in ("identity", "eye") and e.args:
            n = self.fold(e.args[0])
            return meye(int(n.value().real))
        if last == "sqrt" and e.args:
            v = self.fold(e.args[0])
            if isinstance(v, Poly) and v.is_const():
                return Poly.const(cmath.sqrt(v.value()))
            if isinstance(v, Poly):
                raise SignLost(f"`{src(e)[:50]}` is the square root of an angle-dependent quantity")
        if last in ("exp", "cos", "sin") and e.args:
            v = self.fold(e.args[0])
            if isinstance(v, Poly) and v.is_const():
                fn = {"exp": cmath.exp, "cos": cmath.cos, "sin": cmath.sin}[last]
                return Poly.const(fn(v.value()))
            if isinstance(v, Angle):
                return self._trig(last, v, e)
        if last == "kron" and len(e.args) == 2:
            return mkron(self._m(self.fold(e.args[0])), self._m(self.fold(e.args[1])))
        if last in ("conj", "conjugate"):
            if isinstance(e.func, ast.Attribute) and not e.args:
                v = self.fold(e.func.value)
            elif e.args:
                v = self.fold(e.args[0])
            else:
                raise NotFoldable(f)
            return mconj(v) if is_matrix(v) else v.conj()
        if last == "transpose" and e.args:
            return mT(self._m(self.fold(e.args[0])))
        if last in ("matmul", "dot") and len(e.args) == 2:
            return mmul(self._m(self.fold(e.args[0])), self._m(self.fold(e.args[1])))
        raise NotFoldable("call " + src(e)[:60])

    def _trig(self, fn, a: Angle, e):
        c, s = Poly.gen("c"), Poly.gen("s")
        if abs(a.const) > 1e-12:
            raise NotFoldable("angle with constant offset")
        k = a.k
        if fn == "exp":
            # exp(k*theta) with k = i*m/2
            if abs(k.real) > 1e-12:
                raise NotFoldable("real exponent")
            m2 = k.imag * 2
            if abs(m2 - round(m2)) > 1e-12:
                raise NotFoldable("exponent not a multiple of i*theta/2")
            m = int(round(m2))
            base = c + Poly.const(1j) * s if m >= 0 else c - Poly.const(1j) * s
            return base ** abs(m)
        if abs(k.imag) > 1e-12:
            raise NotFoldable("complex angle")
        m2 = k.real * 2
        if abs(m2 - round(m2)) > 1e-12:
            raise NotFoldable("angle not a multiple of theta/2")
        m = int(round(m2))
        z = (c + Poly.const(1j) * s) ** abs(m)  # cos(m t/2) + i sin(m t/2), t/2 the generator angle
        zc = (c - Poly.const(1j) * s) ** abs(m)
        cosm = (z + zc) / 2
        sinm = (z - zc) / Poly.const(2j)
        if fn == "cos":
            return cosm
        return sinm if m >= 0 else -sinm


def angle_ring():
    """Install the rewrite rule of the (c, s) ring and return the generators."""
    Poly.rules = {"s": Poly.const(1) - Poly.gen("c") * Poly.gen("c")}
    return Poly.gen("c"), Poly.gen("s")
