"""R-E guard facts in comparison normal form.

A fact is a clause: frozenset of literals, read as their disjunction.  Literals are
canonical comparisons over normalised source terms.  `facts_at(fn, stmt)` collects the
clauses implied at `stmt` by dominating raise/return guards and enclosing branches
(structured code), killing facts whose terms were re-assigned in between.
"""

from __future__ import annotations

import ast
from dataclasses import dataclass

from .source import src

FLIP = {"<": ">", ">": "<", "<=": ">=", ">=": "<=", "==": "==", "!=": "!="}
NEG = {"<": ">=", ">=": "<", ">": "<=", "<=": ">", "==": "!=", "!=": "==", "is": "isnot", "isnot": "is",
       "in": "notin", "notin": "in", "truthy": "falsy", "falsy": "truthy", "isinstance": "notisinstance", "notisinstance": "isinstance"}
OPS = {ast.Lt: "<", ast.LtE: "<=", ast.Gt: ">", ast.GtE: ">=", ast.Eq: "==", ast.NotEq: "!=", ast.Is: "is", ast.IsNot: "isnot", ast.In: "in", ast.NotIn: "notin"}


@dataclass(frozen=True)
class Lit:
    op: str
    a: str
    b: str = ""

    def neg(self) -> "Lit":
        return canon(NEG[self.op], self.a, self.b)

    def __str__(self):
        if self.op in ("truthy", "falsy"):
            return ("" if self.op == "truthy" else "not ") + self.a
        if self.op in ("isinstance", "notisinstance"):
            return ("" if self.op == "isinstance" else "not ") + f"isinstance({self.a}, {self.b})"
        return f"{self.a} {self.op.replace('isnot', 'is not').replace('notin', 'not in')} {self.b}"


def canon(op, a, b="") -> Lit:
    if op in FLIP and (a > b):
        return Lit(FLIP[op], b, a)
    return Lit(op, a, b)


class Normaliser:
    """term normalisation hook: maps an expression to its canonical term string.
    `fn` (optional): function whose single-assignment locals are transparent - a local assigned exactly once
    stands for its right-hand side (also through tuple unpacking), and a boolean local is expanded in guards."""

    def __init__(self, term=None, fn: ast.FunctionDef | None = None):
        self._term = term
        self._defs: dict[str, list] = {}
        if fn is not None:
            for n in ast.walk(fn):
                if isinstance(n, ast.Assign) and len(n.targets) == 1:
                    t = n.targets[0]
                    if isinstance(t, ast.Name):
                        self._defs.setdefault(t.id, []).append(n.value)
                    elif isinstance(t, (ast.Tuple, ast.List)) and isinstance(n.value, (ast.Tuple, ast.List)) and len(t.elts) == len(n.value.elts):
                        for a, b in zip(t.elts, n.value.elts):
                            if isinstance(a, ast.Name):
                                self._defs.setdefault(a.id, []).append(b)
                    else:
                        for x in ast.walk(t):
                            if isinstance(x, ast.Name):
                                self._defs.setdefault(x.id, []).append(None)
                elif isinstance(n, (ast.AugAssign, ast.AnnAssign)) and isinstance(n.target, ast.Name):
                    self._defs.setdefault(n.target.id, []).append(None)
                elif isinstance(n, (ast.For, ast.comprehension)):
                    for x in ast.walk(n.target):
                        if isinstance(x, ast.Name):
                            self._defs.setdefault(x.id, []).append(None)
            params = {a.arg for a in fn.args.args + fn.args.kwonlyargs + fn.args.posonlyargs}
            for pn in params:
                if pn in self._defs:
                    self._defs[pn].append(None)  # a re-bound parameter is not transparent

    def single_def(self, name: str):
        d = self._defs.get(name)
        if d and len(d) == 1 and d[0] is not None:
            return d[0]
        return None

    def term(self, e, _depth=0) -> str:
        if isinstance(e, ast.Name) and _depth < 4:
            d = self.single_def(e.id)
            if d is not None and isinstance(d, (ast.Name, ast.Attribute, ast.Subscript, ast.Constant)):
                return self.term(d, _depth + 1)
        if self._term:
            t = self._term(e)
            if t is not None:
                return t
        if isinstance(e, ast.Call) and isinstance(e.func, ast.Name) and e.func.id == "len" and len(e.args) == 1:
            return f"len({self.term(e.args[0], _depth + 1)})"
        return src(e)

    def expand(self, e):
        """a boolean local assigned once from a comparison / boolean expression -> that expression"""
        if isinstance(e, ast.Name):
            d = self.single_def(e.id)
            if isinstance(d, (ast.Compare, ast.BoolOp)) or (isinstance(d, ast.UnaryOp) and isinstance(d.op, ast.Not)) or (isinstance(d, ast.Call) and isinstance(d.func, ast.Name) and d.func.id == "isinstance"):
                return d
        return None


def cnf(e, norm: Normaliser, negate=False) -> list[frozenset]:
    """CNF clauses of expression e (or its negation)."""
    ex = norm.expand(e) if hasattr(norm, "expand") else None
    if ex is not None:
        return cnf(ex, norm, negate)
    if isinstance(e, ast.UnaryOp) and isinstance(e.op, ast.Not):
        return cnf(e.operand, norm, not negate)
    if isinstance(e, ast.BoolOp):
        is_and = isinstance(e.op, ast.And) != negate
        parts = [cnf(v, norm, negate) for v in e.values]
        if is_and:
            out = []
            for p in parts:
                out += p
            return out
        # disjunction of CNFs: distribute
        acc = [frozenset()]
        for p in parts:
            acc = [a | c for a in acc for c in p]
            if len(acc) > 64:
                return []  # give up (no facts) rather than blow up
        return acc
    if isinstance(e, ast.Compare):
        lits = []
        left = e.left
        for op, right in zip(e.ops, e.comparators):
            o = OPS.get(type(op))
            if o is None:
                return []
            lits.append(canon(o, norm.term(left), norm.term(right)))
            left = right
        if not negate:
            return [frozenset({l}) for l in lits]
        return [frozenset(l.neg() for l in lits)]
    if isinstance(e, ast.Call) and isinstance(e.func, ast.Name) and e.func.id == "isinstance" and len(e.args) == 2:
        l = Lit("isinstance", norm.term(e.args[0]), src(e.args[1]))
        return [frozenset({l.neg() if negate else l})]
    l = Lit("truthy", norm.term(e))
    return [frozenset({l.neg() if negate else l})]


def implies_lit(l: Lit, r: Lit) -> bool:
    if l == r:
        return True
    if (l.a, l.b) == (r.a, r.b):
        table = {"<": {"<=", "!="}, ">": {">=", "!="}, "==": {"<=", ">="}}
        return r.op in table.get(l.op, set())
    return False


def clause_implied(required: frozenset, facts: list[frozenset]) -> bool:
    for f in facts:
        if f and all(any(implies_lit(l, r) for r in required) for l in f):
            return True
    return False


def _terminates(body) -> bool:
    return bool(body) and isinstance(body[-1], (ast.Raise, ast.Return, ast.Continue, ast.Break))


def _assigned_terms(stmts, norm: Normaliser) -> set[str]:
    out = set()
    for s in stmts:
        for n in ast.walk(s):
            if isinstance(n, (ast.Name, ast.Attribute, ast.Subscript)) and isinstance(getattr(n, "ctx", None), (ast.Store, ast.Del)):
                if isinstance(n, ast.Name) and hasattr(norm, "single_def") and norm.single_def(n.id) is not None:
                    continue  # the one definition of a transparent local: facts are stated over what it stands for
                out.add(norm.term(n))
            if isinstance(n, ast.AugAssign):
                out.add(norm.term(n.target))
    return out


def _mentions(clause: frozenset, terms: set[str]) -> bool:
    for l in clause:
        for t in terms:
            for side in (l.a, l.b):
                if side == t or _has_token(side, t):
                    return True
    return False


def _has_token(expr: str, term: str) -> bool:
    import re

    return re.search(r"(?<![\w.])" + re.escape(term) + r"(?![\w])", expr) is not None


def guard_clauses(stmt_if: ast.If, norm: Normaliser) -> list[frozenset]:
    """Clauses that hold after `if T: ...raise` falls through, including nested raise-guards
    (`if A: if B: raise` gives not(A and B))."""
    out = []
    if _terminates(stmt_if.body) and not stmt_if.orelse:
        out += cnf(stmt_if.test, norm, negate=True)
    elif stmt_if.orelse and _terminates(stmt_if.orelse) and not _terminates(stmt_if.body):
        out += cnf(stmt_if.test, norm, negate=False)
    else:
        # nested guards inside the body (no fall-through effect of the outer test itself)
        if not stmt_if.orelse or True:
            inner = []
            assigned = _assigned_terms(stmt_if.body, norm)
            for s in stmt_if.body:
                if isinstance(s, ast.If):
                    inner += guard_clauses(s, norm)
            outer_neg = cnf(stmt_if.test, norm, negate=True)
            # (not T) or inner  -- valid if the body does not reassign terms of T
            if len(outer_neg) == 1:
                for c in inner:
                    if not _mentions(c, assigned):
                        out.append(outer_neg[0] | c)
            if stmt_if.orelse:
                inner_e = []
                for s in stmt_if.orelse:
                    if isinstance(s, ast.If):
                        inner_e += guard_clauses(s, norm)
                outer_pos = cnf(stmt_if.test, norm, negate=False)
                if len(outer_pos) == 1:
                    for c in inner_e:
                        out.append(outer_pos[0] | c)
    return out


def facts_at(fn: ast.FunctionDef, target: ast.AST, norm: Normaliser | None = None) -> list[frozenset] | None:
    """Clauses that hold whenever control reaches `target` (a statement inside fn)."""
    norm = norm or Normaliser()
    path = _path_to(fn.body, target)
    if path is None:
        return None
    facts: list[frozenset] = []

    def kill(stmts):
        nonlocal facts
        t = _assigned_terms(stmts, norm)
        if t:
            facts = [f for f in facts if not _mentions(f, t)]

    for body, idx, via in path:
        for s in body[:idx]:
            if isinstance(s, ast.If):
                new = guard_clauses(s, norm)
                kill([s])
                facts += new
            elif isinstance(s, (ast.For, ast.While)):
                kill([s])
                if isinstance(s, ast.While) and not any(isinstance(x, ast.Break) for x in ast.walk(s)):
                    facts += cnf(s.test, norm, negate=True)
            else:
                kill([s])
        nxt = body[idx]
        if isinstance(nxt, ast.If) and via in ("body", "orelse"):
            facts += cnf(nxt.test, norm, negate=(via == "orelse"))
        elif isinstance(nxt, ast.While) and via == "body":
            facts += cnf(nxt.test, norm)
        elif isinstance(nxt, (ast.For, ast.While)) and via == "body":
            # facts from before the loop survive only if the loop body does not reassign their terms
            kill(nxt.body)
    return facts


def _path_to(body, target):
    for i, s in enumerate(body):
        if s is target:
            return [(body, i, None)]
        for fld in ("body", "orelse", "finalbody"):
            sub = getattr(s, fld, None)
            if isinstance(sub, list) and sub and isinstance(sub[0], ast.AST):
                p = _path_to(sub, target)
                if p is not None:
                    return [(body, i, fld)] + p
        if isinstance(s, ast.Try):
            for h in s.handlers:
                p = _path_to(h.body, target)
                if p is not None:
                    return [(body, i, "handler")] + p
    return None


def facts_at_end(fn: ast.FunctionDef, norm: Normaliser | None = None) -> list[frozenset]:
    """Clauses that hold when the function falls off its end / reaches its last statement."""
    norm = norm or Normaliser()
    sentinel = ast.Pass()
    body = list(fn.body) + [sentinel]
    fake = ast.FunctionDef(name=fn.name, args=fn.args, body=body, decorator_list=[], returns=None)
    return facts_at(fake, sentinel, norm) or []
