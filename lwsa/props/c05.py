"""C05  Simulator, Sampler, Analyzer and QuickSampler tell one consistent story."""

from __future__ import annotations

import ast

from ..index import walk_no_nested
from ..report import Result
from ..rules import rb_states, rg_mass, rv_validate
from ..source import AnalysisError, src

SIM = "lightworks/emulator/simulation/simulator.py"
SAM = "lightworks/emulator/simulation/sampler.py"
QS = "lightworks/emulator/simulation/quick_sampler.py"
AN = "lightworks/emulator/simulation/analyzer.py"


def check(ctx) -> Result:
    res = Result("C05")
    res.explanation = (
        "Decided (structural necessary conditions of cross-object consistency): one qualifier analysis over Simulator, Sampler, QuickSampler, Analyzer, "
        "Backend and pdist_calc: photon counts handed to fock_basis are in the space of the mode count (herald photons are not counted as user photons); "
        "inputs are completed with input heralds and outputs with output heralds before every backend call and padded by loss_modes; post-selection always "
        "sees user-visible states; lossy analysis enumerates loss configurations with a count computed from same-space photon numbers; the quick sampler "
        "renormalises over exactly the states it kept; results are keyed by visible states. No simulation object refuses a circuit on a predicate of the "
        "circuit alone (each object works on every circuit the others accept). Not decided: the numerical relations between the four objects; the "
        "formulas of performance and error rate."
    )
    res.assumptions = ["qualifier tables of rb_states.py (documented spaces of public parameters and accessors)"]
    n = rb_states.run(ctx, res, rules={"B1-backend-arguments", "B1-loss-padding", "B2-fock-basis-spaces", "B3-herald-side", "B5-counts-same-space", "B1-post-selection-visible", "B1-marginalise-loss-modes", "B6-shortcut-guard-space"})
    res.floor("B resolved sink checks", n, 40)
    # analyzer/quick-sampler result keys are visible states
    n2 = rb_states.run(ctx, res, only=["Analyzer.", "QuickSampler."], rules={"B4-public-result-visible"})
    qs = ctx.ix.module(QS).classes.get("QuickSampler")
    ng = rg_mass.check_function(ctx, res, qs.methods["_calculate_probabiltiies"])
    res.floor("G stores in quick sampler", ng, 1)
    # renormalisation divides by the sum of exactly the kept weights
    cp = qs.methods["_calculate_probabiltiies"]
    rg_mass.renormalise_kept(ctx, res, cp, "G-renormalise-kept", "QuickSampler._calculate_probabiltiies", "kept weights are divided by their own sum", "quick sampler no longer renormalises over exactly the kept states")
    funcs = []
    for rel, cn in ((SIM, "Simulator"), (SAM, "Sampler"), (QS, "QuickSampler"), (AN, "Analyzer")):
        ci = ctx.ix.module(rel).classes.get(cn)
        if ci is None:
            raise AnalysisError(f"{cn} not found")
        funcs += [f for f in ci.all_funcs() if f.kind != "setter" and f.name != "__init__"]
    nr = rv_validate.circuit_only_refusals(ctx, res, funcs)
    res.floor("refusal guards examined", nr, 20)
    # analyzer: validation of inputs like the simulator (sibling)
    an = ctx.ix.module(AN).classes.get("Analyzer")
    rv_validate.loop_validation(ctx, res, an.methods["_process_inputs"], "inputs", "self.circuit.input_modes", label="Analyzer._process_inputs:inputs", need_type=False)
    from ..rules import rf_cache as _rf
    for _cn in ("Sampler", "QuickSampler"):
        _rf.f1_f4(ctx, res, ctx.ix.cls(_cn))
    n7 = 0
    for _cn in ['Simulator', 'Sampler', 'QuickSampler', 'Analyzer']:
        n7 += _rf.f7_setters_store_the_object(ctx, res, ctx.ix.cls(_cn))
    res.floor("F7 setter stores", n7, 4)
    # the four objects agree only if the distribution the Sampler gets from its backend is complete and exact:
    # the backend / distribution rules of C04 are necessary conditions here too
    from . import c04 as _c04
    dep = _c04.check(ctx)
    for o in dep.obligations:
        if o.status == "violation" and not o.rule.startswith(("F", "Z")):
            res.bad("dep:C04:" + o.rule, o.instance, o.site, o.qualname, "backend distribution (what Sampler reports, and Analyzer / Simulator must agree with): " + o.why, construct=o.construct)
    res.count("dependency_obligations_C04", len(dep.obligations))
    from ..rules import rz_falsy
    nz = rz_falsy.none_checks(ctx, res, "C05", rz_falsy.EMULATOR_EXTRA)
    res.floor("Z functions scanned", nz, 3)
    return res
