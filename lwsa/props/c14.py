"""C14  Reck mapping reproduces any unitary; noise enters only through the error model."""

from __future__ import annotations

import ast

from ..guards import Normaliser, canon, facts_at
from ..index import walk_no_nested
from ..report import Result
from ..rules import rc_owner
from ..source import AnalysisError, src

RECK = "lightworks/interferometers/reck.py"
EM = "lightworks/interferometers/error_model.py"
DISTS = "lightworks/interferometers/dists/"

TWO_PI = {"2*np.pi", "np.pi*2", "2*numpy.pi", "2*pi", "2.0*np.pi", "2*math.pi", "math.tau", "np.pi+np.pi"}


def _is_2pi(e) -> bool:
    return src(e).replace(" ", "").strip("()") in TWO_PI


class Phase:
    """Abstract value of a phase expression: 'HALFOPEN' [0,2pi), 'CLOSED' [0,2pi] (float modulo of a
    possibly negative number can return the modulus itself), or None (unknown)."""

    def __init__(self, mod):
        self.mod = mod
        self.summ = {}

    def func(self, name):
        if name in self.summ:
            return self.summ[name]
        self.summ[name] = None
        f = self.mod.functions.get(name)
        if f is None:
            return None
        env = {}
        out = "unset"
        for st in f.node.body:
            if isinstance(st, ast.Expr):
                continue
            if isinstance(st, ast.AugAssign) and isinstance(st.op, ast.Mod) and isinstance(st.target, ast.Name) and _is_2pi(st.value):
                env[st.target.id] = "CLOSED"
            elif isinstance(st, ast.Assign) and isinstance(st.targets[0], ast.Name):
                env[st.targets[0].id] = self.ev(st.value, env)
            elif isinstance(st, ast.If) and any(isinstance(b, ast.Assign) for b in st.body):
                # if phi >= 2pi: phi = 0  /  if phi == 2pi: phi -= 2pi
                t = st.test
                if isinstance(t, ast.Compare) and isinstance(t.left, ast.Name) and env.get(t.left.id) == "CLOSED" and isinstance(t.ops[0], (ast.GtE, ast.Eq)) and _is_2pi(t.comparators[0]):
                    b = st.body[0]
                    if isinstance(b, ast.Assign) and src(b.targets[0]) == t.left.id and src(b.value) in ("0", "0.0"):
                        env[t.left.id] = "HALFOPEN"
            elif isinstance(st, ast.Return):
                v = self.ev(st.value, env)
                out = v if out == "unset" else (v if v == out else None)
            else:
                return None
        self.summ[name] = None if out == "unset" else out
        return self.summ[name]

    def ev(self, e, env):
        if isinstance(e, ast.Name):
            return env.get(e.id)
        if isinstance(e, ast.Constant) and e.value in (0, 0.0):
            return "HALFOPEN"
        if isinstance(e, ast.BinOp) and isinstance(e.op, ast.Mod) and _is_2pi(e.right):
            inner = self.ev(e.left, env)
            return "HALFOPEN" if inner in ("HALFOPEN", "CLOSED") else "CLOSED"
        if isinstance(e, ast.IfExp):
            t = e.test
            if isinstance(t, ast.Compare) and len(t.ops) == 1 and isinstance(t.ops[0], ast.Lt) and _is_2pi(t.comparators[0]):
                v = self.ev(t.left, env)
                o = self.ev(e.orelse, env)
                if v in ("CLOSED", "HALFOPEN") and src(e.body) == src(t.left) and o == "HALFOPEN":
                    return "HALFOPEN"
            return None
        if isinstance(e, ast.Call) and isinstance(e.func, ast.Name) and e.func.id in self.mod.functions:
            return self.func(e.func.id)
        if isinstance(e, ast.Call) and src(e.func) in ("np.mod", "np.remainder", "math.fmod") and len(e.args) == 2 and _is_2pi(e.args[1]):
            return "CLOSED"
        return None


def check(ctx) -> Result:
    res = Result("C14")
    res.explanation = (
        "Decided (structural, all values): every value returned by Gaussian.value satisfies min <= v <= max on every path (loop-exit clause in comparison "
        "normal form) and TopHat.value is the affine form lo + (hi-lo)*u, u in [0,1), under the constructor guard max >= min; every phase handed to the mapped "
        "circuit's phase shifters lies in [0, 2pi) under float-aware modulo semantics (a single `% 2pi` of a possibly negative angle may return 2pi itself); the "
        "mapped circuit is built only from barrier / ps / bs with the implicit adjacent second mode on a fresh Circuit, heralds are copied pairwise with equal photon "
        "numbers; seeding dominates every draw of the error model, per-distribution seeds derive from one generator seeded with the call's seed, every drawing "
        "Distribution re-binds exactly the generator it draws from; drawn reflectivity / loss values pass through the circuit's own validators. "
        "Not decided: that the triangular decomposition reproduces the unitary (numerical)."
    )
    res.assumptions = ["numpy Generator.random() lies in [0,1)", "np.angle returns values in (-pi, pi]"]
    # ---- distributions
    gm = ctx.ix.module(DISTS + "gaussian.py").classes.get("Gaussian")
    tm = ctx.ix.module(DISTS + "top_hat.py").classes.get("TopHat")
    if gm is None or tm is None:
        raise AnalysisError("Gaussian / TopHat not found")
    gv = gm.methods["value"]
    rets = [r for r in walk_no_nested(gv.node) if isinstance(r, ast.Return)]
    norm = Normaliser(fn=gv.node)
    for r in rets:
        v = norm.term(r.value)
        facts = facts_at(gv.node, r, norm) or []
        need = [frozenset({canon(">=", v, "self._min_value")}), frozenset({canon("<=", v, "self._max_value")})]
        missing = [n for n in need if n not in facts]
        res.add(not missing, "E-draw-within-bounds", "Gaussian.value", gv.site(r), gv.qualname, "returned value satisfies min <= v <= max on every path",
                "a value outside the declared bounds can be returned: missing " + " and ".join(" or ".join(map(str, m)) for m in missing) + "; established: " + "; ".join(" or ".join(map(str, f)) for f in facts), construct=src(gv.node)[-200:])
    draws = [c for c in walk_no_nested(gv.node) if isinstance(c, ast.Call) and src(c.func) == "self._rng.normal"]
    res.add(bool(draws) and all([src(a) for a in c.args] == ["self._center", "self._deviation"] for c in draws), "E-draw-within-bounds", "Gaussian.value:draw", gv.site(), gv.qualname, "draws N(center, deviation) from the instance generator", "Gaussian draw changed", construct=";".join(src(c) for c in draws))
    tv = tm.methods["value"]
    rets = [r for r in walk_no_nested(tv.node) if isinstance(r, ast.Return)]
    tn = Normaliser(fn=tv.node)
    def _inline(e):
        if isinstance(e, ast.Name) and tn.single_def(e.id) is not None:
            return "(" + _inline(tn.single_def(e.id)) + ")"
        if isinstance(e, ast.BinOp):
            op = {ast.Add: "+", ast.Sub: "-", ast.Mult: "*"}.get(type(e.op))
            if op:
                l, r_ = _inline(e.left), _inline(e.right)
                if isinstance(e.left, ast.BinOp) and op == "*":
                    l = "(" + l + ")"
                if isinstance(e.right, ast.BinOp) and op in ("*", "-"):
                    r_ = "(" + r_ + ")"
                return l + op + r_
        return src(e).replace(" ", "")
    t = _inline(rets[0].value).replace("((", "(").replace("))", ")") if rets else ""
    lo, hi, u = "self._min_value", "self._max_value", "self._rng.random()"
    forms = {f"{lo}+({hi}-{lo})*{u}", f"{lo}+{u}*({hi}-{lo})", f"({hi}-{lo})*{u}+{lo}", f"{u}*({hi}-{lo})+{lo}", f"self._rng.uniform({lo},{hi})"}
    res.add(t in forms, "E-draw-within-bounds", "TopHat.value", tv.site(), tv.qualname, "lo + (hi - lo) * u with u in [0,1) lies in [lo, hi]", f"TopHat.value returns `{t}`, not the affine form lo + (hi-lo)*u", construct=t)
    for ci in (gm, tm):
        from ..inline import with_helpers as _whd
        ini = _whd(ctx, ci.methods["__init__"], only_private=False, inline_locals=False)
        g = [n for n in walk_no_nested(ini.node) if isinstance(n, ast.If) and any(isinstance(b, ast.Raise) for b in n.body) and src(n.test).replace(" ", "") in ("max_value<min_value", "min_value>max_value", "notmax_value>=min_value", "notmin_value<=max_value")]
        st = {src(a.targets[0]): src(a.value) for a in walk_no_nested(ini.node) if isinstance(a, ast.Assign)}
        res.add(bool(g) and st.get("self._min_value") == "min_value" and st.get("self._max_value") == "max_value", "E-draw-within-bounds", f"{ci.name}.__init__", ini.site(), ini.qualname, "max >= min enforced; bounds stored unchanged",
                "constructor no longer enforces max >= min or stores different bounds", construct=str(st))
    # ---- J2: drawing distributions re-bind the generator they draw from
    dist = ctx.ix.cls("Distribution")
    nd = 0
    for ci in ctx.ix.subclasses(dist):
        v = ci.methods.get("value")
        if v is None:
            continue
        gens = {src(c.func.value) for c in walk_no_nested(v.node) if isinstance(c, ast.Call) and isinstance(c.func, ast.Attribute) and c.func.attr in ("normal", "random", "uniform", "integers", "choice", "standard_normal")}
        glob = {g for g in gens if not g.startswith("self.")}
        nd += 1
        if not gens:
            res.ok("J2-seed-rebinds-draw-source", ci.name, v.site(), v.qualname, "deterministic distribution")
            continue
        srs = ci.methods.get("set_random_seed")
        reb = {src(a.targets[0]) for a in walk_no_nested(srs.node) if isinstance(a, ast.Assign) and "default_rng(seed)" in src(a.value)} if srs else set()
        res.add(not glob and srs is not None and gens <= reb, "J2-seed-rebinds-draw-source", ci.name, v.site(), v.qualname, f"value() draws from {sorted(gens)}, re-bound by set_random_seed",
                f"value() draws from {sorted(gens)} but set_random_seed re-binds {sorted(reb)}: a fixed seed does not reproduce the mapped circuit", construct=str(sorted(gens)))
    res.floor("distributions", nd, 3)
    # ---- error model seeding
    em = ctx.ix.module(EM).classes.get("ErrorModel")
    srs = em.methods["_set_random_seed"]
    getters = [m for n, m in em.methods.items() if n.startswith("get_")]
    read = set()
    for g in getters:
        for n in walk_no_nested(g.node):
            if isinstance(n, ast.Attribute) and src(n.value) == "self" and n.attr.startswith("_"):
                read.add(n.attr)
    loops = [l for l in walk_no_nested(srs.node) if isinstance(l, ast.For) and isinstance(l.iter, (ast.List, ast.Tuple))]
    seeded = {x.attr for l in loops for x in ast.walk(l.iter) if isinstance(x, ast.Attribute) and src(x.value) == "self"}
    res.frozen(bool(read) and read <= seeded, "J1-every-distribution-seeded", "ErrorModel._set_random_seed", srs.site(), srs.qualname, f"all drawn-from distributions {sorted(read)} are seeded",
            f"distribution field(s) {sorted(read - seeded)} are drawn from by get_* but never seeded", construct=str(sorted(seeded)))
    t = src(srs.node)
    okd = "process_random_seed(r_seed)" in t and "default_rng(seed)" in t and "prop.set_random_seed(seed)" in t and "rng.integers(" in t
    res.frozen(okd, "J1-every-distribution-seeded", "ErrorModel._set_random_seed:derivation", srs.site(), srs.qualname, "per-distribution seeds come from one generator seeded with the call's seed", "per-distribution seeds no longer derive from the call's seed", construct="derivation")
    # ---- decomposition: every unit cell recorded in the phase map is also applied to the running matrix
    DEC = "lightworks/interferometers/decomposition.py"
    rd = ctx.func(DEC, "reck_decomposition")
    cfgd = ctx.cfg(rd)
    domd = cfgd.dominators()
    from ..cfg import own_exprs as _oe
    from ..rules.rm_struct import _matmul
    uname = rd.params()[0]
    returned = {x.id for r in walk_no_nested(rd.node) if isinstance(r, ast.Return) and r.value is not None for x in ast.walk(r.value) if isinstance(x, ast.Name)}
    recs = [n for n in cfgd.nodes if n.kind == "stmt" and isinstance(n.ast, ast.Assign) and isinstance(n.ast.targets[0], ast.Subscript) and isinstance(n.ast.targets[0].value, ast.Name) and n.ast.targets[0].value.id in returned and n.ast.targets[0].value.id != uname]
    # `phase_map.update({key: theta, key2: phi})` records too: one pseudo-assignment per dictionary entry
    class _Rec:
        def __init__(self, node, key, value):
            self.id, self.ast = node.id, ast.Assign(targets=[ast.Subscript(value=node.ast.value.func.value, slice=key, ctx=ast.Store())], value=value, lineno=node.ast.lineno)
    for n in cfgd.nodes:
        if n.kind == "stmt" and isinstance(n.ast, ast.Expr) and isinstance(n.ast.value, ast.Call) and isinstance(n.ast.value.func, ast.Attribute) and n.ast.value.func.attr == "update" and isinstance(n.ast.value.func.value, ast.Name) and n.ast.value.func.value.id in returned and n.ast.value.args and isinstance(n.ast.value.args[0], ast.Dict):
            for k_, v_ in zip(n.ast.value.args[0].keys, n.ast.value.args[0].values):
                if k_ is not None:
                    recs.append(_Rec(n, k_, v_))
    trd = [n for n in cfgd.nodes if n.kind == "stmt" and isinstance(n.ast, ast.Assign) and isinstance(n.ast.targets[0], ast.Name) and isinstance(n.ast.value, ast.Call) and src(n.ast.value.func) == "bs_matrix"]
    tname = trd[0].ast.targets[0].id if trd else None
    upd = [n for n in cfgd.nodes if n.kind == "stmt" and isinstance(n.ast, ast.Assign) and src(n.ast.targets[0]) == uname and _matmul(n.ast.value) is not None and tname and any(isinstance(x, ast.Name) and x.id == tname for x in ast.walk(n.ast.value))]
    if not recs or not upd or not trd:
        res.frozen(False, "D-recorded-cell-is-applied", "reck_decomposition", rd.site(), rd.qualname, "", f"decomposition loop not recognised (phase-map stores {len(recs)}, bs_matrix cells {len(trd)}, matrix updates {len(upd)})", construct="reck_decomposition")
    else:
        bound = {}
        hp = ctx.func(DEC, "bs_matrix").params()
        bound = dict(zip(hp, [src(a_) for a_ in trd[0].ast.value.args]))
        bound.update({k.arg: src(k.value) for k in trd[0].ast.value.keywords if k.arg})
        targs = [bound.get("theta"), bound.get("phi")]
        for r in recs:
            val = src(r.ast.value)
            applied = any(u.id in domd[r.id] for u in upd) and any(t.id in domd[r.id] for t in trd) and val in targs
            res.add(applied, "D-recorded-cell-is-applied", f"reck_decomposition:{src(r.ast.targets[0])[:40]}", rd.site(r.ast), rd.qualname, "the (theta, phi) written to the phase map are the ones of the cell multiplied into the running matrix on every path",
                    f"`{src(r.ast)[:70]}` records a unit-cell setting on a path where that cell was not applied to the running matrix (or a different value was applied): the programmed mesh differs from the decomposition", construct=src(r.ast)[:120])
    res.floor("recorded unit-cell settings", len(recs), 2)
    # ---- Reck.map
    rk = ctx.ix.module(RECK)
    R = rk.classes.get("Reck")
    from ..inline import with_helpers
    mp = with_helpers(ctx, R.methods["map"], inline_locals=False)
    cfg = ctx.cfg(mp)
    dom = cfg.dominators()
    from ..cfg import own_exprs
    sn = [n for n in cfg.nodes if n.ast is not None and any(isinstance(x, ast.Call) and src(x.func) == "self.error_model._set_random_seed" and [src(a) for a in x.args] == ["seed"] for e in own_exprs(n) for x in ast.walk(e))]
    dn = [n for n in cfg.nodes if n.ast is not None and any(isinstance(x, ast.Call) and src(x.func).startswith("self.error_model.get_") for e in own_exprs(n) for x in ast.walk(e))]
    res.floor("error-model draws in map", len(dn), 3)
    res.add(bool(sn) and all(any(s.id in dom[d.id] for s in sn) for d in dn), "J1-seeding-dominates-draws", "Reck.map", mp.site(), mp.qualname, "error_model._set_random_seed(seed) dominates every get_* draw",
            "an error-model value is drawn before (or without) seeding with this call's seed: the same seed does not give the same mapped circuit", construct="seeding")
    # phases
    ph = Phase(rk)
    mc = None
    for a in walk_no_nested(mp.node):
        if isinstance(a, ast.Assign) and isinstance(a.value, ast.Call) and src(a.value.func) == "Circuit":
            mc = src(a.targets[0])
    if mc is None:
        raise AnalysisError("Reck.map: mapped circuit construction not found")
    pscalls = [c for c in walk_no_nested(mp.node) if isinstance(c, ast.Call) and src(c.func) == f"{mc}.ps"]
    res.floor("programmed phase shifters", len(pscalls), 3)
    for c in pscalls:
        arg = c.args[1] if len(c.args) > 1 else None
        verdict = None
        why = "phase argument not traced"
        cont = None
        if isinstance(arg, ast.Subscript) and isinstance(arg.value, ast.Name):
            cont = arg.value.id
        elif isinstance(arg, ast.Name):
            # a loop variable ranging over a container of phases (possibly zipped with the modes)
            for lp_ in walk_no_nested(mp.node):
                if isinstance(lp_, ast.For) and c in list(ast.walk(lp_)):
                    tgts = lp_.target.elts if isinstance(lp_.target, ast.Tuple) else [lp_.target]
                    its = lp_.iter.args if isinstance(lp_.iter, ast.Call) and src(lp_.iter.func) == "zip" else [lp_.iter]
                    for t_, it_ in zip(tgts, its):
                        if isinstance(t_, ast.Name) and t_.id == arg.id:
                            base_ = it_
                            while isinstance(base_, ast.Call) and src(base_.func) in ("reversed", "list", "tuple", "enumerate") and base_.args:
                                base_ = base_.args[0]
                            if isinstance(base_, ast.Call) and isinstance(base_.func, ast.Attribute) and base_.func.attr in ("values",):
                                base_ = base_.func.value
                            if isinstance(base_, ast.Name):
                                cont = base_.id
        if cont is not None:
            defs = [a for a in walk_no_nested(mp.node) if isinstance(a, ast.Assign) and src(a.targets[0]) == cont and isinstance(a.value, (ast.DictComp, ast.ListComp))]
            if defs:
                d = defs[-1].value
                elt = d.value if isinstance(d, ast.DictComp) else d.elt
                verdict = ph.ev(elt, {})
                why = f"`{src(elt)[:70]}` evaluates to {verdict or 'an unbounded value'}"
        res.add(verdict == "HALFOPEN", "E-phase-in-half-open-range", f"Reck.map:{src(c)[:40]}", mp.site(c), mp.qualname, "programmed phase lies in [0, 2pi)",
                f"programmed phase is not provably in [0, 2pi): {why} - Python's float `%` returns the modulus itself for a tiny negative angle (identity / permutation unitaries give -1e-16 from np.angle)", construct=src(c))
    # adjacency and purity of the mapped circuit
    bsc = [c for c in walk_no_nested(mp.node) if isinstance(c, ast.Call) and src(c.func) == f"{mc}.bs"]
    res.add(bool(bsc) and all(len(c.args) == 1 and not any(k.arg == "mode_2" for k in c.keywords) for c in bsc), "A-adjacent-beam-splitters", "Reck.map", mp.site(), mp.qualname, "beam splitters use the implicit adjacent second mode", "a beam splitter of the mapped circuit is placed on explicit (possibly non-adjacent) modes", construct=";".join(src(c)[:50] for c in bsc))
    meths = {c.func.attr for c in walk_no_nested(mp.node) if isinstance(c, ast.Call) and isinstance(c.func, ast.Attribute) and src(c.func.value) == mc}
    res.add(meths <= {"barrier", "ps", "bs", "herald"}, "A-adjacent-beam-splitters", "Reck.map:components", mp.site(), mp.qualname, "mapped circuit consists of barriers, phase shifters, beam splitters and heralds only", f"mapped circuit is also built with {sorted(meths - {'barrier', 'ps', 'bs', 'herald'})}", construct=str(sorted(meths)))
    kw = [{k.arg: src(k.value) for k in c.keywords} for c in bsc]
    res.add(all(k.get("reflectivity") == "self.error_model.get_bs_reflectivity()" for k in kw) and all(v.startswith("self.error_model.get_") for k in kw for v in k.values()), "A-noise-only-from-error-model", "Reck.map", mp.site(), mp.qualname, "reflectivity and loss come from the error model only", "component values do not come from the error model", construct=str(kw))
    # heralds copied pairwise
    hl = [l for l in walk_no_nested(mp.node) if isinstance(l, ast.For) and "herald" in src(l.iter) and isinstance(l.iter, ast.Call) and src(l.iter.func) == "zip"]
    verdict_h, why_h = None, "herald copy loop not recognised"
    if hl:
        l = hl[0]
        tg = l.target.elts if isinstance(l.target, ast.Tuple) else []
        roles = {}  # name -> (side, 'mode' | 'photons')
        table = {}  # side -> text of the table expression
        for t_, it_ in zip(tg, l.iter.args):
            txt = src(it_).replace("'", '"')
            side = "input" if '"input"' in txt else ("output" if '"output"' in txt else None)
            if side is None:
                continue
            if isinstance(it_, ast.Call) and isinstance(it_.func, ast.Attribute) and it_.func.attr == "items" and isinstance(t_, ast.Tuple) and len(t_.elts) == 2 and all(isinstance(x, ast.Name) for x in t_.elts):
                roles[t_.elts[0].id] = (side, "mode")
                roles[t_.elts[1].id] = (side, "photons")
                table[side] = src(it_.func.value).replace("'", '"')
            elif isinstance(t_, ast.Name):
                roles[t_.id] = (side, "mode")
                base_ = it_.func.value if isinstance(it_, ast.Call) and isinstance(it_.func, ast.Attribute) and it_.func.attr == "keys" else it_
                table[side] = src(base_).replace("'", '"')

        def role(e):
            if isinstance(e, ast.Name):
                return roles.get(e.id)
            if isinstance(e, ast.Subscript) and isinstance(e.slice, ast.Name):
                r_ = roles.get(e.slice.id)
                t_ = src(e.value).replace("'", '"')
                if r_ and r_[1] == "mode" and table.get(r_[0]) == t_:
                    return (r_[0], "photons")
            return None

        calls = [c for c in ast.walk(l) if isinstance(c, ast.Call) and src(c.func) == f"{mc}.herald"]
        guards = [n for n in ast.walk(l) if isinstance(n, ast.If) and any(isinstance(b_, ast.Raise) for b_ in n.body) and isinstance(n.test, ast.Compare) and isinstance(n.test.ops[0], ast.NotEq)]
        if len(calls) == 1 and set(roles.values()) >= {("input", "mode"), ("output", "mode")}:
            ar = [role(a_) for a_ in calls[0].args[:3]]
            kwr = {k.arg: role(k.value) for k in calls[0].keywords}
            n_r = ar[0] if len(ar) > 0 else kwr.get("n_photons")
            i_r = ar[1] if len(ar) > 1 else kwr.get("input_mode")
            o_r = ar[2] if len(ar) > 2 else kwr.get("output_mode")
            g_ok = any({role(g.test.left), role(g.test.comparators[0])} == {("input", "photons"), ("output", "photons")} for g in guards)
            if None in (n_r, i_r, o_r):
                verdict_h, why_h = None, "arguments of the herald call not traced to the herald tables"
            elif (i_r, o_r) == (("input", "mode"), ("output", "mode")) and n_r[1] == "photons" and g_ok:
                verdict_h = True
            else:
                verdict_h = False
                why_h = f"herald is re-declared with (photons from {n_r}, input mode from {i_r}, output mode from {o_r})" + ("" if g_ok else "; unequal input/output photon numbers are not refused")
        hd = [a for a in walk_no_nested(mp.node) if isinstance(a, ast.Assign) and src(a.targets[0]) in {t_.split("[")[0] for t_ in table.values()}]
        srcs_ = [src(a.value) for a in hd] + [t_.split("[")[0] for t_ in table.values() if "." in t_.split("[")[0]]
        if verdict_h and not any(x_ == "circuit.heralds" for x_ in srcs_):
            other = [x_ for x_ in srcs_ if x_.startswith("circuit.") and x_ != "circuit.heralds"]
            if other:
                verdict_h, why_h = False, f"the herald tables are read from `{other[0]}`, not from `circuit.heralds`: heralds the original circuit carries inside grouped sub-circuits (every heralded gate) are not re-declared on the mapped circuit"
            else:
                verdict_h, why_h = None, "herald tables are not read from the circuit being mapped"
    if verdict_h is None:
        res.frozen(False, "P-heralds-copied-pairwise", "Reck.map", mp.site(hl[0]) if hl else mp.site(), mp.qualname, "", why_h, construct=src(hl[0])[:200] if hl else "")
    else:
        res.add(verdict_h, "P-heralds-copied-pairwise", "Reck.map", mp.site(hl[0]), mp.qualname, "each (input mode, output mode, photons) herald of the original is re-declared on the mapped circuit; unequal photon numbers are refused",
                "heralds of the original are not copied pairwise onto the mapped circuit: " + why_h, construct=src(hl[0])[:200])
    # unitary taken from the circuit and flipped consistently with the mode flip of the layout
    fl = [a for a in walk_no_nested(mp.node) if isinstance(a, ast.Assign) and "np.flip(circuit.U" in src(a.value)]
    res.frozen(bool(fl) and "axis=(0, 1)" in src(fl[0].value), "A-mode-flip-consistent", "Reck.map", mp.site(), mp.qualname, "unitary flipped on both axes before decomposition", "the unitary is no longer flipped on both axes (layout uses reversed mode numbering)", construct=src(fl[0]) if fl else "")
    mode_defs = [a for a in walk_no_nested(mp.node) if isinstance(a, ast.Assign) and src(a.targets[0]) == "mode"]
    res.frozen(bool(mode_defs) and src(mode_defs[0].value).replace(" ", "") == "n_modes-j-2", "A-mode-flip-consistent", "Reck.map:mode", mp.site(), mp.qualname, "unit cell j acts on modes (n-j-2, n-j-1)", "unit-cell mode index changed", construct=src(mode_defs[0]) if mode_defs else "")
    endp = [c for c in pscalls if "end_phases" in src(c)]
    res.frozen(bool(endp) and src(endp[0].args[0]).replace(" ", "") == "n_modes-i-1" and src(endp[0].args[1]) == "end_phases[i]", "A-mode-flip-consistent", "Reck.map:end", mp.site(), mp.qualname, "residual phase i goes to mode n-i-1", "residual phases are applied to the wrong modes", construct=src(endp[0]) if endp else "")
    # ownership: no Reck shares a mutable default with another; mapping keeps nothing between calls
    rc_owner.c6_no_shared_module_object(ctx, res, [R, ctx.ix.cls("ErrorModel")])
    rc_owner.c7_stateless_operation(ctx, res, R.methods["map"])
    from ..rules import rz_falsy
    nz = rz_falsy.none_checks(ctx, res, "C14", ())
    res.floor("Z functions scanned", nz, 3)
    return res
