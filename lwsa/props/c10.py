"""C10  Parameters are live, bounded and freezable."""

from __future__ import annotations

import ast

from ..guards import Lit, Normaliser, facts_at
from ..index import mangle, walk_no_nested
from ..report import Result
from ..guards import canon
from ..inline import with_helpers
from ..rules import rd_atomic, re_guards
from ..rules.rc_owner import component_info
from ..source import AnalysisError, src

PARAMS = "lightworks/sdk/circuit/parameters.py"
COMPS = "lightworks/sdk/circuit/components.py"
CIRC = "lightworks/sdk/circuit/circuit.py"
UTILS = "lightworks/sdk/circuit/circuit_utils.py"

# documented ranges of parameter-bearing component fields (from the docstrings of Circuit.bs/ps/loss)
RANGES = {("BeamSplitter", "reflectivity"): (0, 1), ("Loss", "loss"): (0, 1)}


def alias_norm(fn: ast.FunctionDef, base) -> Normaliser:
    """Terms: constants by value; a local assigned exactly once stands for its right-hand side."""
    assigns: dict[str, list] = {}
    for n in walk_no_nested(fn):
        if isinstance(n, ast.Assign) and len(n.targets) == 1 and isinstance(n.targets[0], ast.Name):
            assigns.setdefault(n.targets[0].id, []).append(n.value)
        elif isinstance(n, (ast.AugAssign,)) and isinstance(n.target, ast.Name):
            assigns.setdefault(n.target.id, []).append(None)
        elif isinstance(n, (ast.For,)):
            for x in ast.walk(n.target):
                if isinstance(x, ast.Name):
                    assigns.setdefault(x.id, []).append(None)

    def term(e):
        if isinstance(e, ast.Name) and e.id in assigns and len(assigns[e.id]) == 1 and assigns[e.id][0] is not None:
            return term(assigns[e.id][0]) or src(assigns[e.id][0])
        if base is not None:
            t = base(e)
            if t is not None:
                return t
        if isinstance(e, ast.Constant):
            return repr(e.value)
        return None

    return Normaliser(term)


def check(ctx) -> Result:
    res = Result("C10")
    res.explanation = (
        "Decided (structural): (E) every write of Parameter's value / min bound / max bound (complete writer sets - the fields are "
        "name-mangled) is dominated by the comparisons that keep min <= value <= max, in comparison normal form, for every value; "
        "(D) no write precedes a possible raise in Parameter.set, the bound setters and ParameterDict.__setitem__/remove; late binding: "
        "components read parameter-bearing fields for arithmetic only through the accessor that resolves Parameter objects, the range "
        "check of BeamSplitter/Loss is made on the *resolved* value with accepted set exactly [0,1] and dominates the matrix construction; "
        "Circuit.U/U_full/_build store nothing on the circuit (no cache can go stale) and compile on every read; get_all_params and "
        "_freeze_params reach every field of every component and recurse through groups; _build wraps every exception of the build in "
        "CircuitCompilationError. Not decided: the numeric value of the rebuilt unitary."
    )
    res.assumptions = ["Parameter objects are only changed through their own methods (fields are private)", "unpack_circuit_spec flattens groups (checked under C09)"]
    pm = ctx.ix.module(PARAMS)
    P = pm.classes.get("Parameter")
    PD = pm.classes.get("ParameterDict")
    if P is None or PD is None:
        raise AnalysisError("Parameter / ParameterDict not found")
    re_guards.parameter_bounds(ctx, res, P)
    res.floor("bounded writes", res.stats.get("bounded_writes", 0), 4)
    for fi in (P.methods["set"], P.setters["min_bound"], P.setters["max_bound"], PD.methods["__setitem__"], PD.methods["remove"]):
        rd_atomic.no_raise_after_write(ctx, res, fi)

    # ---- late binding in components
    comp, kinds, fields = component_info(ctx)
    n_acc = 0
    for k in kinds:
        for fname, ann in ctx.ix.dataclass_fields(k):
            if "Parameter" not in ctx.ix.ann_types(k.module, ann):
                continue
            acc = None
            for gname, g in k.getters.items():
                txt = src(with_helpers(ctx, g, only_private=False).node)
                if f"isinstance(self.{fname}, Parameter)" in txt and f"self.{fname}.get()" in txt:
                    acc = g
            inst = f"{k.name}.{fname}"
            if acc is None:
                res.bad("LB-accessor", inst, f"{k.module.rel}:{k.node.lineno}", k.name, f"no accessor resolving Parameter values of field {fname} (value would be frozen at construction or used raw)", construct=inst)
                continue
            n_acc += 1
            res.ok("LB-accessor", inst, acc.site(), acc.qualname, "accessor resolves Parameter -> current value on every read")
            # raw reads of the field outside the accessor must be type tests, .get() receivers, or guarded by `not isinstance(.., Parameter)`
            for fi in k.all_funcs():
                if fi is acc or fi.name in ("__init__", "__post_init__") and False:
                    continue
                for stmt in _stmts(fi.node):
                    for n in _own_nodes(stmt):
                        if isinstance(n, ast.Attribute) and isinstance(n.ctx, ast.Load) and n.attr == fname and isinstance(n.value, ast.Name) and n.value.id == "self":
                            par = ctx.tree.parents(fi.rel).get(n)
                            if isinstance(par, ast.Call) and par.func is not n and isinstance(par.func, ast.Name) and par.func.id == "isinstance":
                                continue
                            if isinstance(par, ast.Attribute) and par.attr == "get":
                                continue
                            facts = facts_at(fi.node, stmt) or []
                            guard = Lit("notisinstance", f"self.{fname}", "Parameter")
                            if any(f == frozenset({guard}) for f in facts):
                                res.ok("LB-no-raw-read", f"{fi.qualname}:{fname}", fi.site(n), fi.qualname, "raw read is under `not isinstance(field, Parameter)`")
                                continue
                            res.bad("LB-no-raw-read", f"{fi.qualname}:{fname}", fi.site(n), fi.qualname,
                                    f"field {fname} may hold a Parameter but is used raw here instead of through {acc.name}: a Parameter object (or a stale number) enters the arithmetic",
                                    construct=src(stmt)[:200])
            # range check on the resolved value
            if (k.name, fname) in RANGES:
                lo, hi = RANGES[(k.name, fname)]
                val = k.methods.get("validate")
                if val is None:
                    res.bad("E-range-validator", inst, f"{k.module.rel}:{k.node.lineno}", k.name, "component has no validate()", construct=inst)
                else:
                    re_guards.range_validator(ctx, res, val, f"self.{acc.name}", lo, hi, norm=alias_norm(val.node, None), label=f"{val.qualname}:{fname}")
                    # the resolved value is range-checked on every path before it enters the matrix arithmetic
                    # (helpers expanded: `self.validate()`, a checker that takes the value, a local that holds it)
                    gu = k.methods.get("get_unitary")
                    guh = with_helpers(ctx, gu, exclude=(acc.name,), only_private=False, inline_locals=False)
                    nrm = Normaliser(lambda e: repr(e.value) if isinstance(e, ast.Constant) else None, fn=guh.node)
                    T = f"self.{acc.name}"
                    par_g = {c_: n_ for n_ in ast.walk(guh.node) for c_ in ast.iter_child_nodes(n_)}
                    arith = []
                    for x in ast.walk(guh.node):
                        if isinstance(x, (ast.Name, ast.Attribute)) and isinstance(getattr(x, "ctx", None), ast.Load) and nrm.term(x) == T:
                            p_ = par_g.get(x)
                            if isinstance(p_, ast.BinOp) or (isinstance(p_, ast.Call) and x in p_.args and src(p_.func).startswith(("np.", "math.", "numpy."))) or isinstance(p_, ast.UnaryOp):
                                st_ = x
                                while not isinstance(st_, ast.stmt):
                                    st_ = par_g[st_]
                                if not isinstance(st_, ast.If):
                                    arith.append((x, st_))
                    if not arith:
                        res.frozen(False, "LB-validate-dominates", gu.qualname, gu.site(), gu.qualname, "", f"no arithmetic use of the resolved value ({acc.name}) recognised in the matrix construction", construct=gu.qualname)
                    else:
                        bad_use = None
                        for x, st_ in arith:
                            fa = facts_at(guh.node, st_, nrm) or []
                            units = [next(iter(f_)) for f_ in fa if len(f_) == 1]
                            lo_ok = any(l == canon(">=", T, repr(lo)) for l in units)
                            hi_ok = any(l == canon("<=", T, repr(hi)) for l in units)
                            if not (lo_ok and hi_ok):
                                bad_use = (x, st_, fa)
                                break
                        res.add(bad_use is None, "LB-validate-dominates", gu.qualname, gu.site(), gu.qualname, f"every arithmetic use of the resolved value is dominated by the range check [{lo}, {hi}] on that value",
                                "matrix construction can use the parameter value without the range check having passed on it: an invalid value does not surface as a compilation error" + (f" (at `{src(bad_use[1])[:60]}`; established: " + "; ".join(" or ".join(map(str, f_)) for f_ in bad_use[2][:4]) + ")" if bad_use else ""), construct=gu.qualname)
    res.floor("late-binding accessors", n_acc, 3)

    # check_loss (used by Circuit.bs/ps/loss): accepted set of the resolved value is [0,1]
    cl = ctx.func(UTILS, "check_loss")
    re_guards.range_validator(ctx, res, cl, "loss", 0, 1, norm=Normaliser(lambda e: repr(e.value) if isinstance(e, ast.Constant) else None))
    resolves = any(isinstance(n, ast.Call) and src(n.func) == "loss.get" for n in walk_no_nested(cl.node)) and any(isinstance(n, ast.Call) and src(n.func) == "isinstance" and [src(a_) for a_ in n.args] == ["loss", "Parameter"] for n in walk_no_nested(cl.node))
    res.add(resolves, "LB-check-loss-resolves", "check_loss", cl.site(), "check_loss", "Parameter losses are resolved before the range check", "check_loss no longer resolves Parameter values before checking", construct="check_loss")

    # a Loss element is recorded whenever the loss is a Parameter: whether it is recorded must not depend on the
    # value the Parameter happens to hold when the component is added (it can be raised later)
    from ..guards import cnf as _cnf
    Cc = ctx.ix.module(CIRC).classes.get("Circuit")
    for mname in ("bs", "ps"):
        mf = Cc.methods.get(mname)
        if mf is None:
            continue
        parm = {c_: n_ for n_ in ast.walk(mf.node) for c_ in ast.iter_child_nodes(n_)}
        losses = [c_ for c_ in walk_no_nested(mf.node) if isinstance(c_, ast.Call) and src(c_.func) == "Loss"]
        lp = [a_ for a_ in mf.params() if "loss" in a_]
        if not losses or not lp:
            res.frozen(False, "LB-loss-recorded-for-parameters", f"Circuit.{mname}", mf.site(), mf.qualname, "", "construction of the Loss element not recognised", construct="")
            continue
        nrm = Normaliser(lambda e: repr(e.value) if isinstance(e, ast.Constant) else None, fn=mf.node)
        for c_ in losses:
            guards = []
            x = c_
            while x is not None and x is not mf.node:
                q_ = parm.get(x)
                if isinstance(q_, ast.If) and x is not q_.test:
                    guards.append((q_, x in q_.body))
                x = q_
            okp = True
            why = ""
            for g, in_body in guards:
                clauses = _cnf(g.test, nrm, negate=not in_body)
                for cl in clauses:
                    if not any(l.op == "isinstance" and l.a == lp[0] and "Parameter" in l.b for l in cl):
                        okp = False
                        why = " or ".join(map(str, cl))
            res.add(okp, "LB-loss-recorded-for-parameters", f"Circuit.{mname}:{src(c_)[:30]}", mf.site(c_), mf.qualname, "the Loss element is recorded whenever the loss is a Parameter (whatever its current value)",
                    f"the Loss element is only recorded when `{why}` holds, which a Parameter currently at 0 does not satisfy: raising that Parameter later never changes U_full, and get_all_params does not list it", construct=src(c_)[:100])
    # ---- no cache: U / U_full / _build / _build_process store nothing on self and build on each read
    C = ctx.ix.module(CIRC).classes.get("Circuit")
    for name, kind in (("U", "getter"), ("U_full", "getter"), ("_build", None), ("_build_process", None)):
        fi = ctx.func(CIRC, f"Circuit.{name}", kind)
        s = ctx.eng.summary(fi)
        evs = [ev for ev in s.events if any(l == ("P", "self") or (l[0] in ("f", "e", "k") and _root(l) == ("P", "self")) for l in ev.locs)]
        res.add(not evs, "LB-no-cache", f"Circuit.{name}", fi.site(), fi.qualname, "nothing is stored on the circuit: the unitary is recomputed from the live parameters on every read",
                "compiled result (or part of it) is stored on the circuit: later Parameter updates would not be reflected" + (": " + evs[0].detail if evs else ""), construct=f"Circuit.{name}")
    for name in ("U", "U_full"):
        fi = ctx.func(CIRC, f"Circuit.{name}", "getter")
        calls = any(isinstance(n, ast.Call) and src(n.func) == "self._build" for n in walk_no_nested(with_helpers(ctx, fi, exclude=("_build",)).node))
        res.add(calls, "LB-build-on-read", f"Circuit.{name}", fi.site(), fi.qualname, "getter compiles through self._build() on every read", "getter does not compile through self._build()", construct=f"Circuit.{name}")
    bp = ctx.func(CIRC, "Circuit._build_process")
    loops = [n for n in walk_no_nested(bp.node) if isinstance(n, ast.For) and "circuit_spec" in src(n.iter)]
    res.add(bool(loops) and all("self" in src(n.iter) for n in loops), "LB-build-on-read", "Circuit._build_process", bp.site(), bp.qualname, "compiles from the live component list", "does not iterate the live component list", construct="Circuit._build_process")

    # ---- Parameter objects are shared, never cloned: a deep copy of components clones the Parameters they hold
    #      and the circuit stops following the user's objects.  Allowed: the frozen copy (values are substituted
    #      right after) and the read-only copy handed to the display code.
    from ..rules import rw_layering
    allowed = {"Circuit.copy", "Circuit._get_circuit_spec"}
    nd = 0
    for fi_ in ctx.ix.all_functions():
        if not fi_.rel.startswith("lightworks/sdk/circuit/"):
            continue
        for c in walk_no_nested(fi_.node):
            if isinstance(c, ast.Call) and src(c.func).split(".")[-1] == "deepcopy":
                nd += 1
                if fi_.qualname in allowed:
                    okf = fi_.qualname != "Circuit.copy" or "_freeze_params" in src(fi_.node)
                    res.add(okf, "LB-parameters-never-cloned", f"{fi_.qualname}:deepcopy", fi_.site(c), fi_.qualname, "deep copy is immediately frozen / read-only", "deep copy in Circuit.copy is no longer followed by _freeze_params", construct=src(c))
                else:
                    res.bad("LB-parameters-never-cloned", f"{fi_.qualname}:deepcopy", fi_.site(c), fi_.qualname,
                            f"`{src(c)[:60]}` deep-copies circuit components and with them the Parameter objects they hold; the result is stored back into a live circuit, which then no longer follows the user's parameters (updates are ignored, get_all_params returns clones)",
                            construct=src(c)[:120])
    res.count("deepcopy_sites", nd)
    # in-place writes to components only on copies made in the same function (components, and the Parameters they hold,
    # are shared between a circuit, its copies and the circuits it was added to); copy() does not write its receiver
    from ..rules import rc_owner as _rc
    _rc.c2_copy_on_write(ctx, res)
    _rc.c1_self_readonly(ctx, res, [(CIRC, "Circuit.copy", None), (CIRC, "Circuit._freeze_params", None), (CIRC, "Circuit.get_all_params", None)])
    # ---- _build wraps every exception
    b = ctx.func(CIRC, "Circuit._build")
    tries = [n for n in walk_no_nested(b.node) if isinstance(n, ast.Try)]
    ok = False
    why = "no try around the build"
    for t in tries:
        in_try = any(isinstance(n, ast.Call) and src(n.func) == "self._build_process" for s in t.body for n in ast.walk(s))
        outside = any(isinstance(n, ast.Call) and src(n.func) == "self._build_process" for s in b.node.body if s is not t for n in ast.walk(s))
        catch_all = any(h.type is None or src(h.type) in ("Exception", "BaseException") for h in t.handlers)
        wraps = all(any(isinstance(n, ast.Raise) and n.exc is not None and "CircuitCompilationError" in src(n.exc) for s in h.body for n in ast.walk(s)) or any(isinstance(n, ast.Name) and n.id == "CircuitCompilationError" for s in h.body for n in ast.walk(s)) for h in t.handlers)
        if in_try and not outside and catch_all and wraps:
            ok = True
        else:
            why = f"in_try={in_try} build_outside_try={outside} catches_every_exception={catch_all} raises_CircuitCompilationError={wraps}"
    res.add(ok, "LB-compile-error-wrapped", "Circuit._build", b.site(), b.qualname, "every exception of the build surfaces as CircuitCompilationError", f"an invalid parameter value may escape as another exception type: {why}", construct="Circuit._build")

    # ---- collection and freezing reach every field of every kind, through groups
    cv = comp.methods.get("values")
    cf = comp.methods.get("fields")
    for m, what in ((cv, "values"), (cf, "fields")):
        if m is None:
            raise AnalysisError(f"Component.{what} not found")
        comps = [n for n in walk_no_nested(m.node) if isinstance(n, ast.ListComp)]
        good = len(comps) == 1 and not comps[0].generators[0].ifs and src(comps[0].generators[0].iter) == "fields(self)"
        res.add(good, "H-all-fields", f"Component.{what}", m.site(), m.qualname, "enumerates every dataclass field, unfiltered", "does not enumerate every dataclass field of the component", construct=src(m.node)[:200])
    gap = ctx.func(CIRC, "Circuit.get_all_params")
    # the collection may be spread over private helpers: analyse get_all_params together with the self-methods it reaches
    reach, todo = [], [gap]
    while todo:
        f_ = todo.pop()
        if any(f_ is x for x in reach):
            continue
        reach.append(f_)
        for c in walk_no_nested(f_.node):
            if isinstance(c, ast.Call) and isinstance(c.func, ast.Attribute) and src(c.func.value) == "self" and c.func.attr in C.methods:
                todo.append(C.methods[c.func.attr])
    nodes = [n for f_ in reach for n in walk_no_nested(f_.node)]
    flat = any(isinstance(n, ast.Call) and src(n.func) == "unpack_circuit_spec" for n in nodes)
    recurse = any(isinstance(n, ast.If) and "isinstance" in src(n.test) and "Group" in src(n.test) and any(isinstance(c, ast.Call) and isinstance(c.func, ast.Attribute) and c.func.attr in {f_.name for f_ in reach} and "circuit_spec" in src(c) for b_ in n.body for c in ast.walk(b_)) for n in nodes)
    res.add(flat or recurse, "H-collect-through-groups", "Circuit.get_all_params", gap.site(), gap.qualname, "iterates the group-flattened component list (or recurses into groups)",
            "parameters inside groups / added sub-circuits are not collected (component list is not flattened and there is no recursion into Group.circuit_spec)", construct="Circuit.get_all_params")
    inner = [n for n in nodes if isinstance(n, ast.For) and src(n.iter).endswith(".values()")]
    isparam = any(isinstance(n, ast.Call) and src(n.func) == "isinstance" and len(n.args) == 2 and "Parameter" in src(n.args[1]) for n in nodes)
    res.frozen(bool(inner) and isparam, "H-collect-all-fields-once", "Circuit.get_all_params:fields", gap.site(), gap.qualname, "every field value of every component is type-tested", "field enumeration idiom not recognised", construct="values")
    # "exactly once": every growth of a collected list is guarded by a not-in test on that list
    grows = []
    for f_ in reach:
        par_ = ctx.tree.parents(f_.rel)
        for n in walk_no_nested(f_.node):
            kind = lst = elem = None
            if isinstance(n, ast.Call) and isinstance(n.func, ast.Attribute) and n.func.attr in ("append", "extend") and isinstance(n.func.value, ast.Name) and n.args:
                kind, lst, elem = n.func.attr, n.func.value.id, src(n.args[0])
            elif isinstance(n, ast.AugAssign) and isinstance(n.op, ast.Add) and isinstance(n.target, ast.Name):
                kind, lst, elem = "+=", n.target.id, src(n.value)
            if kind is None:
                continue
            st_ = n
            while st_ is not None and not isinstance(st_, ast.stmt):
                st_ = par_.get(st_)
            from ..guards import clause_implied as _ci
            fa_ = facts_at(f_.node, st_) or []
            guarded = _ci(frozenset({Lit("notin", elem, lst)}), fa_)
            grows.append((f_, n, kind, lst, elem, guarded and kind == "append"))
    if not grows:
        res.frozen(False, "H-collect-all-fields-once", "Circuit.get_all_params:dedup", gap.site(), gap.qualname, "", "collection idiom (list growth) not recognised", construct="dedup")
    for f_, n, kind, lst, elem, okg in grows:
        res.add(okg, "H-collect-all-fields-once", f"{f_.qualname}:{lst}.{kind}({elem[:30]})", f_.site(n), f_.qualname, "a parameter is appended only if it is not yet in the list",
                f"`{src(n)[:70]}` grows the collected list without a `not in` test against it: a Parameter used in several places (or inside a group that follows another use) is listed more than once", construct=src(n)[:100])
    fz0 = ctx.func(CIRC, "Circuit._freeze_params")
    fz = with_helpers(ctx, fz0, exclude=("_freeze_params",), inline_locals=False)
    fnodes = list(walk_no_nested(fz.node))
    gbr = [n for n in fnodes if isinstance(n, ast.If) and any(isinstance(c, ast.Call) and src(c.func) == "isinstance" and len(c.args) == 2 and src(c.args[1]).split(".")[-1] == "Group" for c in ast.walk(n.test))]
    flat = any(isinstance(c, ast.Call) and src(c.func) == "unpack_circuit_spec" for c in fnodes)
    rec = any(isinstance(c, ast.Call) and src(c.func) in ("self._freeze_params", "Circuit._freeze_params") and "circuit_spec" in src(c) for g in gbr for b_ in g.body + g.orelse for c in ast.walk(b_))
    if rec or flat:
        res.ok("H-freeze-through-groups", "Circuit._freeze_params", fz.site(), fz.qualname, "recurses into Group.circuit_spec")
    else:
        res.bad("H-freeze-through-groups", "Circuit._freeze_params", fz.site(gbr[0]) if gbr else fz.site(), fz.qualname, "parameters inside groups are not frozen (no recursion into Group.circuit_spec on the Group branch, and the list is not flattened)", construct="Circuit._freeze_params")
    allf = any(isinstance(n, ast.For) and (".fields()" in src(n.iter) or "fields(" in src(n.iter)) for n in fnodes)
    sets = any(isinstance(n, ast.Call) and src(n.func) == "setattr" and len(n.args) == 3 and src(n.args[2]).endswith(".get()") for n in fnodes)
    res.frozen(allf and sets, "H-freeze-all-fields", "Circuit._freeze_params", fz.site(), fz.qualname, "every field holding a Parameter is replaced by its current value", "field enumeration / setattr(<component>, <field>, <parameter>.get()) idiom not recognised", construct="Circuit._freeze_params")
    cp = ctx.func(CIRC, "Circuit.copy")
    deep = any(isinstance(n, ast.Call) and src(n.func) == "self._freeze_params" and ("deepcopy" in src(n) or any(isinstance(a, ast.Name) for a in n.args)) for n in walk_no_nested(cp.node))
    res.add(deep, "H-freeze-on-copy", "Circuit.copy", cp.site(), cp.qualname, "frozen copy substitutes values through _freeze_params", "copy(freeze_parameters=True) no longer substitutes the values", construct="Circuit.copy")
    from ..rules import rz_falsy
    nz = rz_falsy.none_checks(ctx, res, "C10", ())
    res.floor("Z functions scanned", nz, 3)
    return res


def _root(l):
    while l[0] in ("f", "e", "k"):
        l = l[1]
    return l


def _stmts(fn):
    for n in walk_no_nested(fn):
        if isinstance(n, ast.stmt):
            yield n


def _own_nodes(stmt):
    """nodes of a statement excluding nested statements' bodies."""
    if isinstance(stmt, (ast.If, ast.While)):
        roots = [stmt.test]
    elif isinstance(stmt, ast.For):
        roots = [stmt.iter, stmt.target]
    elif isinstance(stmt, (ast.Try, ast.With, ast.FunctionDef, ast.ClassDef)):
        roots = []
    else:
        roots = [stmt]
    for r in roots:
        yield from ast.walk(r)


def _node_exprs(nd):
    from ..cfg import own_exprs

    return own_exprs(nd)
