"""C04  Sampler distribution is normalised, exact and the same for both backends."""

from __future__ import annotations

import ast

from ..index import walk_no_nested
from ..report import Result
from ..rules import rb_states, rg_mass, rw_layering
from ..source import AnalysisError, src

BACKEND = "lightworks/emulator/backend/backend.py"
SLOS = "lightworks/emulator/backend/slos.py"
PDIST = "lightworks/emulator/simulation/probability_distribution.py"
SAMPLER = "lightworks/emulator/simulation/sampler.py"


def vacuum_exception(ctx, fi, st, par):
    """Backend permanent branch: pdist[vacuum] = 1 - total.  The vacuum key cannot be present
    because the insertion loop of the same branch skips every output with no photon on the circuit modes."""
    blk = par.get(st)
    while blk is not None and not isinstance(blk, ast.If):
        blk = par.get(blk)
    # walk outwards to the branch body that holds both the loop and the store
    p = st
    while p is not None:
        q = par.get(p)
        if q is None:
            break
        body = None
        for fld in ("body", "orelse"):
            b = getattr(q, fld, None)
            if isinstance(b, list) and p in b:
                body = b
        if body is not None:
            loops = [s for s in body[: body.index(p)] if isinstance(s, ast.For)]
            for lp in loops:
                for s in lp.body:
                    if isinstance(s, ast.If) and any(isinstance(x, ast.Continue) for x in s.body):
                        t = src(s.test).replace(" ", "")
                        if t.startswith("sum(") and "[:circuit.n_modes]" in t and t.endswith("==0"):
                            writes_same = any(isinstance(x, (ast.Assign, ast.AugAssign)) and isinstance((x.targets[0] if isinstance(x, ast.Assign) else x.target), ast.Subscript) and src((x.targets[0] if isinstance(x, ast.Assign) else x.target).value) == src(st.targets[0].value) for x in ast.walk(lp))
                            writes_same = writes_same or any(isinstance(x, ast.Call) and any(src(a_) == src(st.targets[0].value) for a_ in x.args) for x in ast.walk(lp))
                            if writes_same:
                                return None
        p = q
    return "the insertion loop of this branch no longer skips outputs with no photon on the circuit modes (`if sum(x[: circuit.n_modes]) == 0: continue`)"


def identity_slice_exception(ctx, fi, st, par):
    """annotated_state_pdist_calc: unique_results[in_state[: circuit.n_modes]] - the slice is the identity
    because every state put into the iterated set is built in this function with exactly that length."""
    upper = src(st.targets[0].slice.slice.upper) if isinstance(st.targets[0].slice, ast.Subscript) and isinstance(st.targets[0].slice.slice, ast.Slice) and st.targets[0].slice.slice.upper is not None else None
    if upper is None:
        return "key is not a prefix slice"
    lens = set()
    for n_ in walk_no_nested(fi.node):
        if isinstance(n_, ast.BinOp) and isinstance(n_.op, ast.Mult) and isinstance(n_.left, ast.List) and src(n_.left) == "[0]":
            lens.add(src(n_.right))
    if lens == {upper}:
        return None
    return f"states of length {sorted(lens)} are built here but the key slices to {upper}"


def check(ctx) -> Result:
    res = Result("C04")
    res.explanation = (
        "Decided (structural): (G) in Backend.full_probability_distribution, pdist_calc, annotated_state_pdist_calc and the SLOS helpers every "
        "store into a distribution is an accumulation idiom - marginalisation over loss modes (a many-to-one slice of the output) adds, mixing "
        "over source inputs adds, the zero-photon remainder is added, not assigned; (G2) the remainder 1-total is stored only under total<1; "
        "(G3/siblings) both backend branches pad the input with loss_modes zeros under the same condition, slice keys to n_modes, store abs(amplitude)**2 "
        "and compare it strictly against the same settings threshold. Not decided: that the numbers are right and equal across backends, the 1e-9 error "
        "budget, the photon-number bound of patterns (follows from fock_basis, a combinatorial fact)."
    )
    res.assumptions = ["State/tuple/list constructors are injective on their argument", "fock_basis returns distinct outputs"]
    b = ctx.func(BACKEND, "Backend.full_probability_distribution")
    exc = {"1 - total_prob": ("vacuum key cannot be present: the insertion loop skips photon-less outputs", vacuum_exception)}
    from ..inline import with_helpers
    bh = with_helpers(ctx, b, inline_locals=False)
    n = rg_mass.check_function(ctx, res, bh, exceptions=exc)
    n += rg_mass.check_function(ctx, res, ctx.func(PDIST, "pdist_calc"))
    n += rg_mass.check_function(ctx, res, ctx.func(PDIST, "annotated_state_pdist_calc"), exceptions={
        "unique_results[in_state[": ("the prefix slice is the identity on states built with that very length; the table maps each distinct input to its own distribution", identity_slice_exception)})
    n += rg_mass.check_function(ctx, res, ctx.func(SLOS, "SLOS.calculate"))
    n += rg_mass.check_function(ctx, res, ctx.func(SLOS, "a_i_dagger"))
    n += rg_mass.check_function(ctx, res, ctx.func(SLOS, "add_dicts"))
    res.floor("G subscript stores", n, 12)
    g2 = rg_mass.g2_remainder_guard(ctx, res, bh) + rg_mass.g2_remainder_guard(ctx, res, ctx.func(PDIST, "pdist_calc"))
    res.floor("G2 remainder stores", g2, 2)
    # ---- sibling agreement of the two backend branches
    chain = [n_ for n_ in walk_no_nested(bh.node) if isinstance(n_, ast.If) and "self.backend ==" in src(n_.test)]
    branches = {}
    for n_ in chain:
        t = src(n_.test)
        for name in ("permanent", "slos"):
            if f"'{name}'" in t:
                branches[name] = n_.body
    if set(branches) != {"permanent", "slos"}:
        raise AnalysisError("Backend.full_probability_distribution: permanent/slos branches not found")
    def resolve(e, body):
        """follow single-assignment locals of the branch"""
        for _ in range(3):
            if isinstance(e, ast.Name):
                d = [a.value for s_ in body for a in ast.walk(s_) if isinstance(a, ast.Assign) and len(a.targets) == 1 and src(a.targets[0]) == e.id]
                if len(d) == 1:
                    e = d[0]
                    continue
            break
        return e

    def facts(body):
        pads = [src(s) for s in body if isinstance(s, ast.If) and "loss_modes" in src(s.test) and any(isinstance(x, ast.Assign) and isinstance(x.targets[0], ast.Name) for x in s.body)]
        pads += [src(s) for s in body if isinstance(s, ast.Assign) and isinstance(s.value, ast.IfExp) and "loss_modes" in src(s.value.test)]
        cmps = []
        stores = []
        slices = []
        for s in body:
            for x in ast.walk(s):
                if isinstance(x, ast.Compare) and "settings." in src(x):
                    cmps.append((src(resolve(x.left, body)).replace(" ", ""), type(x.ops[0]).__name__, src(x.comparators[0])))
                if isinstance(x, (ast.Assign, ast.AugAssign)):
                    t = x.targets[0] if isinstance(x, ast.Assign) else x.target
                    if isinstance(t, ast.Subscript) and _detag(src(t.value)) == "pdist":
                        v_ = x.value
                        # `d[k] = d.get(k, 0) + w` stores the weight w (accumulating form)
                        if isinstance(v_, ast.BinOp) and isinstance(v_.op, ast.Add):
                            terms_ = [v_.left, v_.right]
                            rest_ = [t_ for t_ in terms_ if not (isinstance(t_, ast.Call) and isinstance(t_.func, ast.Attribute) and t_.func.attr == "get" and _detag(src(t_.func.value)) == "pdist")]
                            if len(rest_) == 1:
                                v_ = rest_[0]
                        stores.append(src(resolve(v_, body)).replace(" ", ""))
                if isinstance(x, ast.Subscript) and isinstance(x.slice, ast.Slice) and x.slice.upper is not None and "n_modes" in src(x.slice.upper) and x.slice.lower is None:
                    slices.append(src(x.slice.upper))
        return pads, cmps, stores, slices
    import re as _re
    def _detag(x):
        """names that helper expansion renamed apart (`name__helper3`) compare as the original name"""
        if isinstance(x, str):
            return _re.sub(r"__[A-Za-z_]+?\d+\b", "", x)
        if isinstance(x, (list, tuple)):
            return type(x)(_detag(y) for y in x)
        return x
    fp, fs = _detag(facts(branches["permanent"])), _detag(facts(branches["slos"]))
    res.add(len(fp[0]) == 1 and fp[0] == fs[0], "S-backend-siblings", "loss padding", b.site(), b.qualname, "both branches pad the input with loss_modes vacuum modes under the same condition",
            f"loss-mode padding differs between the backends: {fp[0]} vs {fs[0]}", construct="padding")
    import re
    amp2 = re.compile(r"^abs\((\w+)\)\*\*2$")
    thr_ok = bool(fp[1]) and bool(fs[1]) and {(c[1], c[2]) for c in fp[1]} == {(c[1], c[2]) for c in fs[1]} and all(amp2.match(c[0]) for c in fp[1] + fs[1]) and all(c[1] == "Gt" for c in fp[1] + fs[1])
    res.add(thr_ok, "S-backend-siblings", "threshold", b.site(), b.qualname, "both branches keep an output iff abs(amplitude)**2 > the same settings threshold (strict)",
            f"truncation test differs between the backends or is not made on abs(amplitude)**2: {fp[1]} vs {fs[1]}", construct=str(fp[1]) + str(fs[1]))
    def stores_ok(lst):
        return all(amp2.match(v) or v.startswith("1-") for v in lst) and any(amp2.match(v) for v in lst)
    res.add(stores_ok(fp[2]) and stores_ok(fs[2]), "G3-probability-not-amplitude", "stored values", b.site(), b.qualname, "every stored mass is abs(amplitude)**2 (or the guarded remainder)",
            f"a value that is not abs(amplitude)**2 is stored as probability: {fp[2]} / {fs[2]}", construct=str(fp[2]) + str(fs[2]))
    res.add(set(fp[3]) == set(fs[3]) == {"circuit.n_modes"}, "S-backend-siblings", "marginalisation", b.site(), b.qualname, "both branches marginalise outputs to the first n_modes modes",
            f"outputs are truncated differently: {fp[3]} vs {fs[3]}", construct=str(fp[3]) + str(fs[3]))
    # amplitudes come from the owning primitives only; the truncation setting is read only at the truncation sites
    rw_layering.who_may_call(ctx, res, {"perm"}, {"Permanent.calculate"}, "W-permanent-owner", "the permanent is normalised by the factorials of *all* input and output occupations in one place", 1)
    rw_layering.who_may_call(ctx, res, {"partition"}, {"Permanent.calculate"}, "W-permanent-owner", "sub-matrix selection belongs to Permanent.calculate", 1)
    rw_layering.who_may_read_attr(ctx, res, "sampler_probability_threshold", {"Backend.full_probability_distribution", "QuickSampler._calculate_probabiltiies"}, "W-truncation-sites",
                                  "the per-state truncation applies to output-state probabilities only (amplitudes below it can still interfere)", 2)
    amp_src = {"permanent": "Permanent.calculate", "slos": "SLOS.calculate"}
    for name, body in branches.items():
        callee = [c for s_ in body for c in ast.walk(s_) if isinstance(c, ast.Call) and src(c.func) == amp_src[name]]
        res.add(bool(callee), "G3-probability-not-amplitude", f"{name}:amplitude source", b.site(), b.qualname, f"amplitudes come from {amp_src[name]}", f"{name} branch no longer takes its amplitudes from {amp_src[name]}", construct=name)
    # shortcut distributions are guarded by a photon count of the same space (rb_states B6)
    rb_states.run(ctx, res, only=["Backend.full_probability_distribution", "Sampler.probability_distribution", "pdist_calc"], rules={"B6-shortcut-guard-space", "B1-backend-arguments", "B1-loss-padding", "B1-marginalise-loss-modes"})
    # every enumerated output contributes: the only output skipped by the permanent branch is the photon-less one
    for lp in [l for l in ast.walk(ast.Module(body=branches["permanent"], type_ignores=[])) if isinstance(l, ast.For)]:
        for st_ in ast.walk(lp):
            if isinstance(st_, ast.If) and any(isinstance(x, ast.Continue) for x in st_.body):
                t = src(st_.test).replace(" ", "")
                okc = t.startswith("sum(") and "[:circuit.n_modes]" in t and t.endswith("==0")
                res.add(okc, "G-enumeration-complete", f"permanent:{t[:40]}", b.site(st_), b.qualname, "only outputs without a photon on the circuit modes are skipped (their mass is the remainder)",
                        f"outputs satisfying `{src(st_.test)[:80]}` are dropped from the enumeration: their probability is moved to the vacuum remainder instead of the pattern they belong to", construct=src(st_.test)[:120])
    # SLOS normalisation: product of the factorials of *all* occupations
    vf = ctx.func(SLOS, "vector_factorial")
    comps = [c for c in walk_no_nested(vf.node) if isinstance(c, (ast.ListComp, ast.GeneratorExp))]
    if len(comps) == 1 and "factorial" in src(comps[0].elt):
        it = comps[0].generators[0].iter
        pn = vf.params()[0]
        res.add(isinstance(it, ast.Name) and it.id == pn and not comps[0].generators[0].ifs, "N-factorial-normalisation", "vector_factorial", vf.site(), vf.qualname, "one factorial per mode, every mode counted",
                f"the factorial product runs over `{src(it)}` rather than over every occupation: equal occupations in different modes are counted once, so amplitudes of inputs like |2,2,0> are scaled", construct=src(comps[0]))
    else:
        res.frozen(False, "N-factorial-normalisation", "vector_factorial", vf.site(), vf.qualname, "", "factorial product idiom not recognised", construct="vector_factorial")
    # zero-photon input shortcut yields the circuit-mode vacuum with probability 1
    z = [n_ for n_ in walk_no_nested(b.node) if isinstance(n_, ast.If) and src(n_.test).replace(" ", "") in ("input_state.n_photons==0", "0==input_state.n_photons", "notinput_state.n_photons")]
    dicts = [d for n_ in z for s_ in n_.body for d in ast.walk(s_) if isinstance(d, ast.Dict) and len(d.keys) == 1] if z else []
    if not z or not dicts:
        res.frozen(False, "G-vacuum-input", "zero-photon input", b.site(), b.qualname, "", "vacuum-input shortcut (if input_state.n_photons == 0: {State([0] * n_modes): 1}) not recognised", construct="")
    else:
        okz = all(src(d).replace(" ", "") in ("{State([0]*circuit.n_modes):1.0}", "{State([0]*circuit.n_modes):1}") for d in dicts)
        res.add(okz, "G-vacuum-input", "zero-photon input", b.site(z[0]), b.qualname, "vacuum input returns the n_modes vacuum with probability one", "vacuum-input shortcut does not yield the circuit-mode vacuum with probability one", construct=src(z[0])[:120])
    # Sampler: empty distribution special case stores full-mode vacuum with weight 1
    # the distribution a Sampler reports is the one of its *current* configuration (cache coherence, as in C11)
    from ..rules import rf_cache as _rfc
    _m = _rfc.f1_f4(ctx, res, ctx.ix.cls("Sampler"))
    _rfc.f2_snapshot(ctx, res, _m)
    from ..rules import rz_falsy
    nz = rz_falsy.none_checks(ctx, res, "C04", rz_falsy.EMULATOR_EXTRA)
    res.floor("Z functions scanned", nz, 3)
    return res
