"""C03  Simulator amplitudes are the bosonic Fock-space amplitudes of the circuit."""

from __future__ import annotations

import ast

from ..guards import Lit, Normaliser, canon, facts_at_end
from ..index import walk_no_nested
from ..report import Result
from ..rules import rl_iter
from ..rules import rb_states, rv_validate, rw_layering
from ..source import AnalysisError, src

SIM = "lightworks/emulator/simulation/simulator.py"
PERM = "lightworks/emulator/backend/permanent.py"
STATE = "lightworks/sdk/state/state.py"
HER = "lightworks/sdk/utils/heralding_utils.py"


def check(ctx) -> Result:
    res = Result("C03")
    res.explanation = (
        "Decided (structural necessary conditions): (B1-B3, B5) in Simulator.simulate and Backend.probability(_amplitude) every backend call receives "
        "the input completed with the circuit's *input* heralds and the output completed with the *output* heralds, both padded by loss_modes, in (input, "
        "output) order; mode counts compared are of the same space; (V) every path to the first backend call passes the type check, the length check "
        "against the user-visible mode count and State._validate for every input and every supplied output, and the equal-photon-number check; "
        "_validate rejects non-int, bool and negative occupations; (M4) the permanent's sub-matrix takes rows from the output occupations and columns "
        "from the input occupations and both occupation lists reach the factorial normalisation; herald insertion iterates positions, not the herald "
        "dictionary. Not decided: the permanent itself (thewalrus), factorial arithmetic, unit norm."
    )
    res.assumptions = ["thewalrus.perm computes the permanent", "qualifier tables of rb_states.py (documented spaces of public parameters)"]
    n = rb_states.run(ctx, res, only=["Simulator.", "Backend.probability"], rules={"B1-backend-arguments", "B1-loss-padding", "B2-fock-basis-spaces", "B3-herald-side", "B5-counts-same-space", "B6-shortcut-guard-space"})
    res.floor("B resolved sink checks (simulator)", n, 8)
    sim = ctx.ix.module(SIM).classes.get("Simulator")
    if sim is None:
        raise AnalysisError("Simulator not found")
    pin, pout, simulate = sim.methods["_process_inputs"], sim.methods["_process_outputs"], sim.methods["simulate"]
    rv_validate.loop_validation(ctx, res, pin, "inputs", "self.circuit.input_modes")
    rv_validate.loop_validation(ctx, res, pout, "outputs", "self.circuit.input_modes")
    for f in (pin, pout):
        im = [a for a in walk_no_nested(f.node) if isinstance(a, ast.Assign) and src(a.targets[0]) == "input_modes"]
        res.add(bool(im) and src(im[0].value) == "self.circuit.input_modes", "V-states-validated", f"{f.qualname}:input_modes", f.site(), f.qualname,
                "lengths are compared with the circuit's user-visible mode count", "reference length is not the circuit's user-visible (herald-free) mode count", construct=src(im[0]) if im else "")
    rv_validate.photon_number_equal(ctx, res, pout, ["inputs", "inputs+outputs"])
    # dominance: processing dominates the backend call
    cfg = ctx.cfg(simulate)
    dom = cfg.dominators()
    def nodes_with(pred):
        from ..cfg import own_exprs
        return [nd for nd in cfg.nodes if nd.ast is not None and any(pred(x) for e in own_exprs(nd) for x in ast.walk(e))]
    be = nodes_with(lambda x: isinstance(x, ast.Call) and src(x.func).split(".")[-1] in ("probability_amplitude", "probability"))
    p1 = nodes_with(lambda x: isinstance(x, ast.Call) and src(x.func) == "self._process_inputs")
    p2 = nodes_with(lambda x: isinstance(x, ast.Call) and src(x.func) == "self._process_outputs")
    if not be:
        raise AnalysisError("Simulator.simulate: backend call not found")
    for nm, ps in (("_process_inputs", p1), ("_process_outputs", p2)):
        good = bool(ps) and all(any(p.id in dom[b.id] for p in ps) for b in be)
        res.add(good, "V-validation-dominates-backend", f"Simulator.simulate:{nm}", simulate.site(), simulate.qualname, f"{nm} dominates every backend call", f"a backend call is reachable without {nm}", construct=nm)
    # the validated values are the ones used: results of processing are rebound
    reb = [a for a in walk_no_nested(simulate.node) if isinstance(a, ast.Assign) and "self._process_outputs" in src(a.value)]
    res.add(bool(reb) and "outputs" in src(reb[0].targets[0]), "V-validation-dominates-backend", "Simulator.simulate:outputs-rebound", simulate.site(), simulate.qualname, "generated/validated outputs are the ones simulated", "outputs returned by _process_outputs are not used", construct=src(reb[0])[:80] if reb else "")
    # State._validate
    st = ctx.ix.module(STATE).classes.get("State")
    from ..inline import with_helpers as _wh
    val = _wh(ctx, st.methods["_validate"], inline_locals=False)
    loops = [l for l in walk_no_nested(val.node) if isinstance(l, ast.For) and isinstance(l.target, ast.Name)]
    if not loops:
        res.frozen(False, "E-occupation-validator", "State._validate", val.site(), val.qualname, "", "loop over the occupations not recognised", construct="")
    else:
        lp = loops[0]
        v = lp.target.id
        okiter = src(lp.iter) in ("self.__s", "self._State__s", "self.s")
        fake = ast.FunctionDef(name="f", args=val.node.args, body=lp.body, decorator_list=[], returns=None)
        norm = Normaliser(lambda e: repr(e.value) if isinstance(e, ast.Constant) else None)
        facts = facts_at_end(fake, norm)
        need = {"integer": frozenset({Lit("isinstance", v, "int")}), "not bool": frozenset({Lit("notisinstance", v, "bool")}), "non-negative": frozenset({canon(">=", v, "0")})}
        for nm, cl in need.items():
            res.add(okiter and any(f == cl for f in facts), "E-occupation-validator", f"State._validate:{nm}", val.site(), val.qualname, f"every occupation is required to be {nm}",
                    f"State._validate does not reject occupations that are not {nm}; established: " + "; ".join(" or ".join(map(str, f)) for f in facts), construct=f"_validate:{nm}")
    # permanent
    calc = ctx.func(PERM, "Permanent.calculate")
    part = ctx.func(PERM, "partition")
    from ..inline import inlined
    calc_fn = inlined(calc.node)
    rets0 = [r for r in walk_no_nested(calc_fn) if isinstance(r, ast.Return) and r.value is not None]
    rv = rets0[0].value if len(rets0) == 1 else None
    if not (isinstance(rv, ast.BinOp) and isinstance(rv.op, ast.Div)):
        res.frozen(False, "N-factorial-normalisation", "Permanent.calculate", calc.site(), calc.qualname, "", "return value is not recognised as permanent / normalisation", construct=src(rv)[:120] if rv is not None else "")
    else:
        dn = {x.id for x in ast.walk(rv.right) if isinstance(x, ast.Name)}
        res.add({"in_state", "out_state"} <= dn and "factorial" in dn, "N-factorial-normalisation", "Permanent.calculate", calc.site(rets0[0]), calc.qualname, "both occupation lists reach the factorial divisor",
                f"the normalisation does not depend on both occupation lists (depends on {sorted(dn & {'in_state', 'out_state'})})", construct=src(rv.right))
        pc = [c for c in ast.walk(rv.left) if isinstance(c, ast.Call) and src(c.func) == "partition"]
        if not pc:
            res.frozen(False, "M4-rows-outputs-cols-inputs", "Permanent.calculate:partition-args", calc.site(), calc.qualname, "", "call of partition not recognised in the numerator", construct=src(rv.left)[:120])
        else:
            pparams = part.params()
            bound = dict(zip(pparams, [src(a) for a in pc[0].args]))
            bound.update({k.arg: src(k.value) for k in pc[0].keywords if k.arg})
            res.add(bound.get("in_state") == "in_state" and bound.get("out_state") == "out_state" and bound.get(pparams[0]) == "unitary", "M4-rows-outputs-cols-inputs", "Permanent.calculate:partition-args", calc.site(rets0[0]), calc.qualname, "partition(unitary, in_state, out_state)",
                    "input and output occupations are passed to partition in the wrong order", construct=src(pc[0]))
    part_fn = inlined(part.node)
    rets = [r for r in walk_no_nested(part_fn) if isinstance(r, ast.Return) and r.value is not None]
    ix = [c for r in rets for c in ast.walk(r.value) if isinstance(c, ast.Call) and src(c.func).endswith("ix_") and len(c.args) == 2]
    if not ix:
        res.frozen(False, "M4-rows-outputs-cols-inputs", "partition", part.site(), part.qualname, "", "np.ix_(rows, cols) selection not recognised", construct="")
    else:
        deps = {}
        for a in walk_no_nested(part_fn):
            if isinstance(a, ast.AugAssign) and isinstance(a.target, ast.Name):
                deps.setdefault(a.target.id, set()).update(x.id for x in ast.walk(a.value) if isinstance(x, ast.Name))
            elif isinstance(a, ast.Assign) and len(a.targets) == 1 and isinstance(a.targets[0], ast.Name):
                deps.setdefault(a.targets[0].id, set()).update(x.id for x in ast.walk(a.value) if isinstance(x, ast.Name))
            elif isinstance(a, ast.Call) and isinstance(a.func, ast.Attribute) and a.func.attr in ("extend", "append") and isinstance(a.func.value, ast.Name):
                deps.setdefault(a.func.value.id, set()).update(x.id for g in a.args for x in ast.walk(g) if isinstance(x, ast.Name))
        def occ(e):
            d = {x.id for x in ast.walk(e) if isinstance(x, ast.Name)}
            for nme in list(d):
                d |= deps.get(nme, set())
            return d & {"in_state", "out_state"}
        ro, co = occ(ix[0].args[0]), occ(ix[0].args[1])
        sub_ok = any(isinstance(x, ast.Subscript) and src(x.value) == part.params()[0] and ix[0] in list(ast.walk(x.slice)) for r in rets for x in ast.walk(r.value))
        if ro == {"out_state"} and co == {"in_state"} and sub_ok:
            res.ok("M4-rows-outputs-cols-inputs", "partition", part.site(), part.qualname, "rows repeated by output occupations, columns by input occupations (U[out, in])")
        elif not (ro == {"in_state"} and co == {"out_state"}) or not sub_ok:
            res.frozen(False, "M4-rows-outputs-cols-inputs", "partition", part.site(), part.qualname, "", f"row/column index lists not recognised (rows from {sorted(ro)}, columns from {sorted(co)})", construct=src(rets[0].value))
        else:
            res.bad("M4-rows-outputs-cols-inputs", "partition", part.site(), part.qualname, f"sub-matrix rows come from {sorted(ro)} and columns from {sorted(co)}: the transpose amplitude is computed", construct=src(rets[0].value))
    rw_layering.who_may_call(ctx, res, {"perm"}, {"Permanent.calculate"}, "W-permanent-owner", "the permanent is divided by the factorials of all occupations in one place", 1)
    # herald insertion iterates positions
    ah = ctx.func(HER, "add_heralds_to_state")
    rl_iter.herald_insertion_by_position(ctx, res, ah)
    from ..rules import rf_cache as _rf
    n7 = 0
    for _cn in ['Simulator']:
        n7 += _rf.f7_setters_store_the_object(ctx, res, ctx.ix.cls(_cn))
    res.floor("F7 setter stores", n7, 1)
    from ..rules import rz_falsy
    nz = rz_falsy.none_checks(ctx, res, "C03", rz_falsy.EMULATOR_EXTRA)
    res.floor("Z functions scanned", nz, 3)
    return res
