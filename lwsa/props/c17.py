"""C17  Result containers index consistently and mappings conserve weight."""

from __future__ import annotations

import ast

from ..index import walk_no_nested
from ..report import Result
from ..rules import rd_atomic, rg_mass
from ..source import AnalysisError, src

SIMR = "lightworks/emulator/results/simulation_result.py"
SAMR = "lightworks/emulator/results/sampling_result.py"

PER_MODE = {
    ("threshold", False): {"1ifs>=1else0", "1ifs>0else0", "min(s,1)", "int(s>=1)", "int(s>0)"},
    ("threshold", True): {"1-s"},
    ("parity", False): {"s%2"},
    ("parity", True): {"1-s%2", "1-(s%2)", "(s+1)%2"},
}


def check(ctx) -> Result:
    res = Result("C17")
    res.explanation = (
        "Decided (structural): in the four mapping methods (threshold / parity of SimulationResult and SamplingResult) the image state is a many-to-one "
        "function of the output and the weight is added to an existing entry or stored when absent, per input row (R-G); the per-mode functions are the "
        "documented ones (>=1 -> 1, 1-s inverted, s%2, 1-s%2); the amplitude refusal dominates all work of both simulation mappings; index roles: the array "
        "is read and written as [i, j] with i enumerating inputs and j enumerating outputs both in the constructor and in the recombination, the column set "
        "is not modified between the iteration that fixes column order and the one that publishes it, rows follow self.inputs; pair indexing goes through the "
        "nested dictionary built from that same array; SamplingResult hands its counts to dict unchanged. Not decided: idempotence and arithmetic of weights."
    )
    res.assumptions = ["iteration order of an unmodified set is stable within one call", "dict preserves insertion order"]
    sm, pm = ctx.ix.module(SIMR), ctx.ix.module(SAMR)
    SR, PR = sm.classes.get("SimulationResult"), pm.classes.get("SamplingResult")
    if SR is None or PR is None:
        raise AnalysisError("result classes not found")
    n = 0
    for ci in (SR, PR):
        for kind in ("threshold", "parity"):
            f = ci.methods.get(f"apply_{kind}_mapping")
            if f is None:
                raise AnalysisError(f"{ci.name}.apply_{kind}_mapping not found")
            n += rg_mass.check_function(ctx, res, f)
            # per-mode functions
            comps = [a for a in walk_no_nested(f.node) if isinstance(a, ast.Assign) and src(a.targets[0]) == "new_s" and isinstance(a.value, ast.Call) and src(a.value.func) == "State" and isinstance(a.value.args[0], ast.ListComp)]
            par = ctx.tree.parents(f.rel)
            seen = {}
            for a in comps:
                lc = a.value.args[0]
                v = lc.generators[0].target.id
                fn = src(lc.elt).replace(" ", "").replace(v, "s")
                itn = src(lc.generators[0].iter)
                p = par.get(a)
                inv = None
                if isinstance(p, ast.If) and src(p.test) == "invert":
                    inv = a in p.body
                seen[(fn, itn, inv)] = a
            if kind == "threshold":
                base = [k for k in seen if k[2] is None and k[1] == "out_state"]
                invs = [k for k in seen if k[2] is True and k[1] == "new_s"]
                ok = len(base) == 1 and base[0][0] in PER_MODE[("threshold", False)] and len(invs) == 1 and invs[0][0] in PER_MODE[("threshold", True)]
            else:
                nrm = [k for k in seen if k[2] is False and k[1] == "out_state"]
                invs = [k for k in seen if k[2] is True and k[1] == "out_state"]
                ok = len(nrm) == 1 and nrm[0][0] in PER_MODE[("parity", False)] and len(invs) == 1 and invs[0][0] in PER_MODE[("parity", True)]
            res.add(ok, "E-per-mode-function", f"{ci.name}.apply_{kind}_mapping", f.site(), f.qualname, f"{kind} mapping applies the documented per-mode function (plain and inverted)",
                    f"{kind} mapping per-mode function(s) are {sorted((k[0], k[2]) for k in seen)}", construct=str(sorted((k[0], str(k[2])) for k in seen)))
            # result goes through recombination
            rets = [r for r in walk_no_nested(f.node) if isinstance(r, ast.Return)]
            rets.sort(key=lambda r: r.lineno)
            for r in rets[:-1]:
                res.add(src(r.value) == "self._recombine_mapped_result(mapped_result)", "M4-every-return-is-mapped", f"{ci.name}.apply_{kind}_mapping:line{r.lineno - f.node.lineno}", f.site(r), f.qualname, "returns the recombined mapped weights",
                        f"`{src(r)[:70]}` returns without applying the per-mode map (and the `invert` option) to every output", construct=src(r)[:100])
            res.frozen(bool(rets) and src(rets[-1].value) == "self._recombine_mapped_result(mapped_result)", "M4-recombine", f"{ci.name}.apply_{kind}_mapping", f.site(), f.qualname, "mapped weights are recombined into a new result", "mapped result is not returned through the recombination", construct=src(rets[-1]) if rets else "")
    res.floor("G stores in mappings", n, 6)
    # amplitude refusal dominates all work
    for kind in ("threshold", "parity"):
        f = SR.methods[f"apply_{kind}_mapping"]
        rd_atomic.guard_dominates(ctx, res, f,
                                  lambda t, node: src(t).replace("'", '"') in ('self.result_type == "probability_amplitude"', 'self.result_type != "probability"'),
                                  lambda nd: nd.kind == "for" or (nd.kind == "stmt" and isinstance(nd.ast, ast.Return)),
                                  "D-amplitude-mapping-refused", f.qualname, "mappings are refused for amplitude-valued results")
    # constructor: array[i, j] with i over inputs, j over outputs
    ini = SR.methods["__init__"]
    loops = [l for l in walk_no_nested(ini.node) if isinstance(l, ast.For) and src(l.iter).startswith("enumerate(")]
    roles = {}
    for l in loops:
        roles[l.target.elts[0].id] = (src(l.iter), l.target.elts[1].id)
    subs = [s for s in walk_no_nested(ini.node) if isinstance(s, ast.Subscript) and src(s.value) == "self.__array" and isinstance(s.slice, ast.Tuple)]
    ok = bool(subs)
    for s in subs:
        i, j = (src(x) for x in s.slice.elts)
        ok = ok and "inputs" in roles.get(i, ("",))[0] and "outputs" in roles.get(j, ("",))[0]
    st = [a for a in walk_no_nested(ini.node) if isinstance(a, ast.Assign) and isinstance(a.targets[0], ast.Subscript) and isinstance(a.value, ast.Subscript) and src(a.value.value) == "self.__array"]
    ok = ok and bool(st) and src(st[0].targets[0].slice) == roles.get(src(st[0].value.slice.elts[1]), ("", ""))[1]
    outer = [a for a in walk_no_nested(ini.node) if isinstance(a, ast.Assign) and isinstance(a.targets[0], ast.Subscript) and src(a.targets[0].value) == "dict_results"]
    ok = ok and bool(outer) and src(outer[0].targets[0].slice) == roles.get(src(st[0].value.slice.elts[0]), ("", ""))[1] if st else False
    res.add(ok, "M4-array-index-roles", "SimulationResult.__init__", ini.site(), ini.qualname, "nested[input][output] = array[i, j] with i over inputs and j over outputs", "nested dictionary is not built as nested[input_i][output_j] = array[i, j]", construct=src(st[0]) if st else "")
    chk = [n for n in walk_no_nested(ini.node) if isinstance(n, ast.If) and "shape[" in src(n.test)]
    dims = {src(n.test).replace(" ", "") for n in chk}
    res.add({"len(self.__inputs)!=self.__array.shape[0]", "len(self.__outputs)!=self.__array.shape[1]"} <= dims, "M4-array-index-roles", "SimulationResult.__init__:shape", ini.site(), ini.qualname, "rows = inputs, columns = outputs enforced", "array shape is not checked as (inputs, outputs)", construct=str(sorted(dims)))
    # properties return the stored values
    for nm, fld in (("array", "self.__array"), ("inputs", "self.__inputs"), ("outputs", "self.__outputs")):
        g = SR.getters[nm]
        r = [x for x in walk_no_nested(g.node) if isinstance(x, ast.Return)]
        res.add(len(r) == 1 and src(r[0].value) == fld, "M4-array-index-roles", f"SimulationResult.{nm}", g.site(), g.qualname, f"returns {fld}", f"{nm} does not return the stored {fld}", construct=src(r[0]) if r else "")
    # __getitem__: pair indexing = nested indexing
    gi = SR.methods["__getitem__"]
    t = src(gi.node)
    res.frozen("sub_r = self[istate]" in t and "return sub_r[ostate]" in t and "istate = item[0]" in t and "super().__getitem__(item)" in t, "M4-pair-equals-nested", "SimulationResult.__getitem__", gi.site(), gi.qualname, "result[in, out] is result[in][out] with in = item[0], out = item[1]",
            "pair indexing no longer goes through the nested lookup in (input, output) order", construct="__getitem__")
    # recombination
    rc = SR.methods["_recombine_mapped_result"]
    loops = [l for l in walk_no_nested(rc.node) if isinstance(l, ast.For)]
    en = {l.target.elts[0].id: (src(l.iter), l.target.elts[1].id) for l in loops if src(l.iter).startswith("enumerate(") and isinstance(l.target, ast.Tuple)}
    st = [a for a in walk_no_nested(rc.node) if isinstance(a, ast.Assign) and isinstance(a.targets[0], ast.Subscript) and src(a.targets[0].value) == "array"]
    ok = False
    if st:
        i, j = (src(x) for x in st[0].targets[0].slice.elts)
        v = src(st[0].value)
        ok = "self.inputs" in en.get(i, ("",))[0] and "unique_outputs" in en.get(j, ("",))[0] and v == f"mapped_result[{en[i][1]}][{en[j][1]}]"
    res.add(ok, "M4-array-index-roles", "SimulationResult._recombine_mapped_result", rc.site(), rc.qualname, "array[i, j] = mapped[input_i][output_j]", "recombined array rows/columns do not follow (inputs, outputs)", construct=src(st[0]) if st else "")
    # L2: the column set is not modified after the loop that fills it
    mods = sorted([c.lineno for c in walk_no_nested(rc.node) if isinstance(c, ast.Call) and isinstance(c.func, ast.Attribute) and src(c.func.value) == "unique_outputs" and c.func.attr in ("add", "discard", "remove", "update", "pop", "clear")])
    uses = sorted([n.lineno for n in walk_no_nested(rc.node) if isinstance(n, ast.Call) and src(n.func) in ("enumerate", "list", "sorted", "len") and n.args and src(n.args[0]) == "unique_outputs"])
    reass = [a for a in walk_no_nested(rc.node) if isinstance(a, ast.Assign) and src(a.targets[0]) == "unique_outputs"]
    res.add(bool(mods) and bool(uses) and max(mods) < min(uses) and len(reass) == 1, "L2-column-order-fixed", "SimulationResult._recombine_mapped_result", rc.site(), rc.qualname, "the output set is complete before column order is fixed and is not modified afterwards",
            "the output set is modified between the iteration that fixes column order and the one that publishes `outputs`", construct=f"mods {mods} uses {uses}")
    ret = [r for r in walk_no_nested(rc.node) if isinstance(r, ast.Return)][0]
    kw = {k.arg: src(k.value) for k in ret.value.keywords} if isinstance(ret.value, ast.Call) else {}
    same_order = kw.get("outputs") in ("list(unique_outputs)",) and kw.get("inputs") == "self.inputs" and kw.get("result_type") == "self.result_type"
    res.add(same_order, "L2-column-order-fixed", "SimulationResult._recombine_mapped_result:publish", rc.site(ret), rc.qualname, "published outputs enumerate the same set in the same order; rows follow self.inputs", f"recombined result is published with {kw}", construct=str(kw))
    # sampling result
    pi = PR.methods["__init__"]
    t = src(pi.node)
    res.frozen("super().__init__(results)" in t and "self.__outputs = list(results.keys())" in t, "M4-sampling-result-unchanged", "SamplingResult.__init__", pi.site(), pi.qualname, "counts are handed to dict unchanged; outputs are its keys", "SamplingResult no longer stores exactly the counts it was built from", construct="__init__")
    reb = [a for a in walk_no_nested(pi.node) if isinstance(a, (ast.Assign, ast.AugAssign)) and any(isinstance(x, ast.Name) and x.id == "results" and isinstance(x.ctx, ast.Store) for x in ast.walk(a))]
    res.add(not reb, "M4-counts-stored-as-given", "SamplingResult.__init__", pi.site(reb[0]) if reb else pi.site(), pi.qualname, "the counts argument is not filtered or re-bound before it is stored",
            f"the counts handed to the constructor are altered before being stored (`{src(reb[0])[:70] if reb else ''}`): the result no longer returns exactly the counts it was built from", construct=src(reb[0])[:100] if reb else "")
    pr = PR.methods["_recombine_mapped_result"]
    r = [x for x in walk_no_nested(pr.node) if isinstance(x, ast.Return)]
    res.frozen(len(r) == 1 and src(r[0].value) == "SamplingResult(mapped_result, self.input)", "M4-recombine", "SamplingResult._recombine_mapped_result", pr.site(), pr.qualname, "new result from the mapped counts and the same input", "recombination changed", construct=src(r[0]) if r else "")
    return res
