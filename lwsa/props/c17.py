"""C17  Result containers index consistently and mappings conserve weight."""

from __future__ import annotations

import ast

from ..index import walk_no_nested
from ..report import Result
from .. import permode
from ..inline import inlined, with_helpers
from ..rules import rd_atomic, rg_mass
from ..source import AnalysisError, src

SIMR = "lightworks/emulator/results/simulation_result.py"
SAMR = "lightworks/emulator/results/sampling_result.py"

PER_MODE = {
    ("threshold", False): {"1ifs>=1else0", "1ifs>0else0", "min(s,1)", "int(s>=1)", "int(s>0)"},
    ("threshold", True): {"1-s"},
    ("parity", False): {"s%2"},
    ("parity", True): {"1-s%2", "1-(s%2)", "(s+1)%2"},
}


def _enumerations(fn) -> dict:
    """index variable -> (enumerated expression text, element variable) for `for i, x in enumerate(E)` loops / generators"""
    out = {}
    for n in ast.walk(fn):
        pairs = []
        if isinstance(n, ast.For):
            pairs = [(n.target, n.iter)]
        elif isinstance(n, ast.comprehension):
            pairs = [(n.target, n.iter)]
        for tg, it in pairs:
            if isinstance(it, ast.Call) and src(it.func) == "enumerate" and it.args and isinstance(tg, ast.Tuple) and len(tg.elts) == 2 and all(isinstance(x, ast.Name) for x in tg.elts):
                out[tg.elts[0].id] = (src(it.args[0]), tg.elts[1].id)
    return out


def _zip_construction(fn):
    """{k: dict(zip(C, row)) for k, row in zip(A, ARRAY)} / the same with an inner comprehension: verdicts like the
    index form (rows of the array go with A, the entries of a row with C)"""
    out = []
    for n in ast.walk(fn):
        if not (isinstance(n, ast.DictComp) and len(n.generators) == 1 and not n.generators[0].ifs):
            continue
        g = n.generators[0]
        if not (isinstance(g.iter, ast.Call) and src(g.iter.func) == "zip" and len(g.iter.args) == 2 and isinstance(g.target, ast.Tuple) and len(g.target.elts) == 2 and all(isinstance(x, ast.Name) for x in g.target.elts)):
            continue
        a, b = g.iter.args
        if "array" not in src(b).lower() or "array" in src(a).lower():
            continue
        k, row = (x.id for x in g.target.elts)
        v = n.value
        inner_c = None
        if isinstance(v, ast.Call) and src(v.func) == "dict" and len(v.args) == 1 and isinstance(v.args[0], ast.Call) and src(v.args[0].func) == "zip" and len(v.args[0].args) == 2 and src(v.args[0].args[1]) == row:
            inner_c = src(v.args[0].args[0])
        elif isinstance(v, ast.DictComp) and len(v.generators) == 1 and isinstance(v.generators[0].iter, ast.Call) and src(v.generators[0].iter.func) == "zip" and len(v.generators[0].iter.args) == 2 and src(v.generators[0].iter.args[1]) == row \
                and isinstance(v.generators[0].target, ast.Tuple) and len(v.generators[0].target.elts) == 2 and src(v.key) == src(v.generators[0].target.elts[0]) and src(v.value) == src(v.generators[0].target.elts[1]):
            inner_c = src(v.generators[0].iter.args[0])
        if inner_c is None or _role(src(a)) is None or _role(inner_c) is None:
            continue
        plain = isinstance(b, (ast.Name, ast.Attribute))  # the array itself: its first axis is the row axis
        if not plain:
            continue
        good = src(n.key) == k and _role(src(a)) == "in" and _role(inner_c) == "out"
        out.append((good, n, f"rows of {src(b)} paired with {src(a)}, row entries paired with {inner_c}, stored under [{src(n.key)}]"))
    return out


def _role(expr_text: str):
    t = expr_text.lower()
    if "input" in t and "output" not in t:
        return "in"
    if "output" in t and "input" not in t:
        return "out"
    return None


EXPECT = {("threshold", False): (0, 1, 1, 1, 1, 1), ("threshold", True): (1, 0, 0, 0, 0, 0), ("parity", False): (0, 1, 0, 1, 0, 1), ("parity", True): (1, 0, 1, 0, 1, 0)}


def check(ctx) -> Result:
    res = Result("C17")
    res.explanation = (
        "Decided (structural): in the four mapping methods (threshold / parity of SimulationResult and SamplingResult) the image state is a many-to-one "
        "function of the output and the weight is added to an existing entry or stored when absent, per input row (R-G); the per-mode functions are the "
        "documented ones (>=1 -> 1, 1-s inverted, s%2, 1-s%2); the amplitude refusal dominates all work of both simulation mappings; index roles: the array "
        "is read and written as [i, j] with i enumerating inputs and j enumerating outputs both in the constructor and in the recombination, the column set "
        "is not modified between the iteration that fixes column order and the one that publishes it, rows follow self.inputs; pair indexing goes through the "
        "nested dictionary built from that same array; SamplingResult hands its counts to dict unchanged. Not decided: idempotence and arithmetic of weights."
    )
    res.assumptions = ["iteration order of an unmodified set is stable within one call", "dict preserves insertion order"]
    sm, pm = ctx.ix.module(SIMR), ctx.ix.module(SAMR)
    SR, PR = sm.classes.get("SimulationResult"), pm.classes.get("SamplingResult")
    if SR is None or PR is None:
        raise AnalysisError("result classes not found")
    n = 0
    for ci in (SR, PR):
        for kind in ("threshold", "parity"):
            f = ci.methods.get(f"apply_{kind}_mapping")
            if f is None:
                raise AnalysisError(f"{ci.name}.apply_{kind}_mapping not found")
            fh = with_helpers(ctx, f, exclude=("_recombine_mapped_result",), inline_locals=False)
            n += rg_mass.check_function(ctx, res, fh)
            # per-mode functions: table of the image of an occupation 0..5 under the key stored into the mapped dictionary
            want = {False: EXPECT[(kind, False)], True: EXPECT[(kind, True)]}
            option = [p_ for p_ in f.params() if p_ != "self"]
            option = option[0] if option else "invert"
            for inv in (False, True):
                keys = [(d_, k_, nd) for d_, k_, nd in permode.key_tables(fh.node, option, inv, {n_: f_.node for n_, f_ in f.module.functions.items()})]
                tabs = [(d_, k_, nd) for d_, k_, nd in keys if isinstance(k_, permode.Sym) and k_.table != permode.DOMAIN]
                inst = f"{ci.name}.apply_{kind}_mapping:{'inverted' if inv else 'plain'}"
                if not tabs:
                    ident = [k_ for _d, k_, _n in keys if isinstance(k_, permode.Sym)]
                    if ident and all(k_.table == permode.DOMAIN for k_ in ident):
                        res.bad("E-per-mode-function", inst, f.site(), f.qualname, f"{kind} mapping stores the output state itself as key: no per-mode function is applied", construct="identity")
                    else:
                        res.frozen(False, "E-per-mode-function", inst, f.site(), f.qualname, "", "the key under which mapped weights are stored could not be tabulated", construct="")
                    continue
                bad_t = [(d_, k_, nd) for d_, k_, nd in tabs if k_.table != want[inv]]
                res.add(not bad_t, "E-per-mode-function", inst, f.site(tabs[0][2]), f.qualname, f"{kind} mapping ({'inverted' if inv else 'plain'}) sends occupations 0..5 to {want[inv]}",
                        f"{kind} mapping ({'inverted' if inv else 'plain'}) sends occupations 0..5 to {bad_t[0][1].table if bad_t else ''}, documented is {want[inv]}", construct=str(bad_t[0][1]) if bad_t else "")
            # result goes through recombination: every return hands the dictionary that received the weights to _recombine_mapped_result
            dicts = {d_.split("[")[0] for d_, k_, _nd in permode.key_tables(fh.node, option, False, {n_: f_.node for n_, f_ in f.module.functions.items()}) if isinstance(k_, permode.Sym)}
            dicts |= {src(t_.value) for a_ in ast.walk(fh.node) if isinstance(a_, (ast.Assign, ast.AugAssign)) for t_ in ([a_.targets[0]] if isinstance(a_, ast.Assign) else [a_.target]) if isinstance(t_, ast.Subscript) and isinstance(t_.value, ast.Name)}
            rets = [r for r in walk_no_nested(fh.node) if isinstance(r, ast.Return)]
            rets.sort(key=lambda r: r.lineno)
            for r in rets:
                v = r.value
                okr = isinstance(v, ast.Call) and src(v.func) == "self._recombine_mapped_result" and len(v.args) == 1 and src(v.args[0]) in dicts
                if okr:
                    res.ok("M4-every-return-is-mapped", f"{ci.name}.apply_{kind}_mapping:line{r.lineno - f.node.lineno}", f.site(r), f.qualname, "returns the recombined mapped weights")
                elif isinstance(v, ast.Call) and src(v.func) == "self._recombine_mapped_result" and len(v.args) == 1 and not (isinstance(v.args[0], ast.Name) and any(isinstance(a_, ast.Assign) and src(a_.targets[0]) == v.args[0].id and src(a_.value) in dicts for a_ in ast.walk(fh.node))):
                    res.bad("M4-every-return-is-mapped", f"{ci.name}.apply_{kind}_mapping:line{r.lineno - f.node.lineno}", f.site(r), f.qualname, f"`{src(r)[:70]}` recombines `{src(v.args[0])[:40]}`, not the dictionary that received the mapped weights: the per-mode map (and the `{option}` option) is not applied to every output on this path", construct=src(r)[:100])
                elif isinstance(v, ast.Name) and v.id == "self" or (isinstance(v, ast.Call) and src(v.func) in ("copy", "deepcopy", "copy.copy", "copy.deepcopy") and v.args and src(v.args[0]) == "self"):
                    res.bad("M4-every-return-is-mapped", f"{ci.name}.apply_{kind}_mapping:line{r.lineno - f.node.lineno}", f.site(r), f.qualname, f"`{src(r)[:70]}` returns without applying the per-mode map (and the `{option}` option) to every output", construct=src(r)[:100])
                else:
                    res.frozen(False, "M4-every-return-is-mapped", f"{ci.name}.apply_{kind}_mapping:line{r.lineno - f.node.lineno}", f.site(r), f.qualname, "", f"return `{src(r)[:60]}` is not recognised as the recombination of the mapped weights", construct=src(r)[:100])
            if not rets:
                res.frozen(False, "M4-recombine", f"{ci.name}.apply_{kind}_mapping", f.site(), f.qualname, "", "no return found", construct="")
    res.floor("G stores in mappings", n, 6)
    # amplitude refusal dominates all work
    for kind in ("threshold", "parity"):
        f = SR.methods[f"apply_{kind}_mapping"]
        rd_atomic.guard_dominates(ctx, res, f,
                                  lambda t, node: src(t).replace("'", '"') in ('self.result_type == "probability_amplitude"', 'self.result_type != "probability"'),
                                  lambda nd: nd.kind == "for" or (nd.kind == "stmt" and isinstance(nd.ast, ast.Return)),
                                  "D-amplitude-mapping-refused", f.qualname, "mappings are refused for amplitude-valued results")
    # constructor: array[i, j] with i over inputs, j over outputs; nested[input][output]
    ini = SR.methods["__init__"]
    ini_fn = inlined(ini.node)
    par = {c_: n_ for n_ in ast.walk(ini_fn) for c_ in ast.iter_child_nodes(n_)}
    enum = _enumerations(ini_fn)
    reads = [s_ for s_ in ast.walk(ini_fn) if isinstance(s_, ast.Subscript) and isinstance(s_.ctx, ast.Load) and src(s_.value) in ("self.__array", "array") and isinstance(s_.slice, ast.Tuple) and len(s_.slice.elts) == 2]
    verdicts = []
    for s_ in reads:
        i, j = (src(x) for x in s_.slice.elts)
        if i not in enum or j not in enum:
            continue
        ri, rj = _role(enum[i][0]), _role(enum[j][0])
        si, sj = enum[i][1], enum[j][1]
        # innermost keyed container that receives the value, then the key under which that container is stored
        k1 = k2 = None
        p_ = par.get(s_)
        if isinstance(p_, ast.Assign) and isinstance(p_.targets[0], ast.Subscript):
            k1 = src(p_.targets[0].slice)
            inner = src(p_.targets[0].value)
            for a_ in ast.walk(ini_fn):
                if isinstance(a_, ast.Assign) and isinstance(a_.targets[0], ast.Subscript) and src(a_.value) == inner:
                    k2 = src(a_.targets[0].slice)
        elif isinstance(p_, ast.DictComp) and p_.value is s_:
            k1 = src(p_.key)
            q_ = par.get(p_)
            if isinstance(q_, ast.DictComp) and q_.value is p_:
                k2 = src(q_.key)
        if k1 is None or k2 is None or None in (ri, rj):
            continue
        good = (ri, rj) == ("in", "out") and (k2, k1) == (si, sj)
        verdicts.append((good, s_, f"array[{i} over {enum[i][0]}, {j} over {enum[j][0]}] stored under [{k2}][{k1}]"))
    if not verdicts:
        verdicts = _zip_construction(ini_fn)
    if not verdicts:
        res.frozen(False, "M4-array-index-roles", "SimulationResult.__init__", ini.site(), ini.qualname, "", "construction of the nested dictionary from the array not recognised", construct="")
    else:
        okv = all(v[0] for v in verdicts)
        res.add(okv, "M4-array-index-roles", "SimulationResult.__init__", ini.site(verdicts[0][1]), ini.qualname, "nested[input][output] = array[i, j] with i over inputs and j over outputs",
                "nested dictionary is not built as nested[input_i][output_j] = array[i, j]: " + "; ".join(v[2] for v in verdicts if not v[0]), construct=";".join(v[2] for v in verdicts)[:200])
    # shape: len(inputs) against axis 0, len(outputs) against axis 1 (the comparison may sit in a helper)
    fi_h = inlined(with_helpers(ctx, ini, only_private=False, depth=2, inline_locals=True).node)
    seen_dims, any_shape = set(), False
    for n in ast.walk(fi_h):
        if isinstance(n, ast.Compare) and len(n.ops) == 1 and isinstance(n.ops[0], (ast.NotEq, ast.Eq, ast.Lt, ast.Gt)):
            sides = [n.left, n.comparators[0]]
            for a_, b_ in (sides, sides[::-1]):
                if isinstance(a_, ast.Call) and src(a_.func) == "len" and a_.args and isinstance(b_, ast.Subscript) and isinstance(b_.value, ast.Attribute) and b_.value.attr == "shape" and isinstance(b_.slice, ast.Constant):
                    any_shape = True
                    if _role(src(a_.args[0])) is not None and "array" in src(b_.value.value).lower() or src(b_.value.value) in ("results",):
                        seen_dims.add((_role(src(a_.args[0])), b_.slice.value))
        elif isinstance(n, ast.Attribute) and n.attr == "shape":
            any_shape = True
    if {("in", 0), ("out", 1)} <= seen_dims and not ({("in", 1), ("out", 0)} & seen_dims):
        res.ok("M4-array-index-roles", "SimulationResult.__init__:shape", ini.site(), ini.qualname, "rows = inputs, columns = outputs enforced")
    elif ({("in", 1), ("out", 0)} & seen_dims) or not any_shape:
        res.bad("M4-array-index-roles", "SimulationResult.__init__:shape", ini.site(), ini.qualname, "array shape is not checked as (inputs, outputs)", construct=str(sorted(seen_dims, key=str)))
    else:
        res.frozen(False, "M4-array-index-roles", "SimulationResult.__init__:shape", ini.site(), ini.qualname, "", f"shape comparison not recognised (found {sorted(seen_dims, key=str)})", construct=str(sorted(seen_dims, key=str)))
    # properties return the stored values
    for nm, fld in (("array", "self.__array"), ("inputs", "self.__inputs"), ("outputs", "self.__outputs")):
        g = SR.getters[nm]
        r = [x for x in walk_no_nested(g.node) if isinstance(x, ast.Return)]
        res.add(len(r) == 1 and src(r[0].value) == fld, "M4-array-index-roles", f"SimulationResult.{nm}", g.site(), g.qualname, f"returns {fld}", f"{nm} does not return the stored {fld}", construct=src(r[0]) if r else "")
    # __getitem__: pair indexing = nested indexing
    gi = SR.methods["__getitem__"]
    t = src(gi.node)
    res.frozen("sub_r = self[istate]" in t and "return sub_r[ostate]" in t and "istate = item[0]" in t and "super().__getitem__(item)" in t, "M4-pair-equals-nested", "SimulationResult.__getitem__", gi.site(), gi.qualname, "result[in, out] is result[in][out] with in = item[0], out = item[1]",
            "pair indexing no longer goes through the nested lookup in (input, output) order", construct="__getitem__")
    # recombination
    rc = SR.methods["_recombine_mapped_result"]
    rc_fn = inlined(rc.node)
    enum = _enumerations(rc_fn)
    st = [a_ for a_ in ast.walk(rc_fn) if isinstance(a_, ast.Assign) and isinstance(a_.targets[0], ast.Subscript) and isinstance(a_.targets[0].slice, ast.Tuple) and len(a_.targets[0].slice.elts) == 2 and isinstance(a_.value, ast.Subscript)]
    mp = rc.params()[1] if len(rc.params()) > 1 else "mapped_result"
    col_expr = None
    if not st or any(src(x) not in enum for x in st[0].targets[0].slice.elts):
        res.frozen(False, "M4-array-index-roles", "SimulationResult._recombine_mapped_result", rc.site(), rc.qualname, "", "array[i, j] = mapped[input][output] store not recognised", construct="")
    else:
        i, j = (src(x) for x in st[0].targets[0].slice.elts)
        v = src(st[0].value)
        ok = _role(enum[i][0]) == "in" and v == f"{mp}[{enum[i][1]}][{enum[j][1]}]"
        col_expr = enum[j][0]
        res.add(ok, "M4-array-index-roles", "SimulationResult._recombine_mapped_result", rc.site(st[0]), rc.qualname, "array[i, j] = mapped[input_i][output_j]", f"recombined array rows/columns do not follow (inputs, outputs): `{src(st[0])[:80]}` with {i} over {enum[i][0]}, {j} over {enum[j][0]}", construct=src(st[0]))
    # L2: the published `outputs` enumerate the same collection, in the same order, as the loop that fixed the columns
    rets = [r for r in ast.walk(rc_fn) if isinstance(r, ast.Return) and isinstance(r.value, ast.Call)]
    kw = {k.arg: k.value for k in rets[0].value.keywords} if rets else {}
    if col_expr is None or "outputs" not in kw:
        res.frozen(False, "L2-column-order-fixed", "SimulationResult._recombine_mapped_result", rc.site(), rc.qualname, "", "column enumeration / published outputs not recognised", construct="")
    else:
        pub = src(kw["outputs"])
        def core(t):
            while t.startswith(("list(", "tuple(")) and t.endswith(")"):
                t = t[t.index("(") + 1:-1]
            return t
        coll = core(col_expr)
        same = core(pub) == coll
        # the collection is not modified between the first enumeration and the publication
        first_use = min([n_.lineno for n_ in ast.walk(rc_fn) if isinstance(n_, ast.Call) and src(n_.func) in ("enumerate", "list", "sorted", "len", "tuple") and n_.args and core(src(n_.args[0])) == coll] or [0])
        mods = [c_.lineno for c_ in ast.walk(rc_fn) if isinstance(c_, ast.Call) and isinstance(c_.func, ast.Attribute) and src(c_.func.value) == coll and c_.func.attr in ("add", "discard", "remove", "update", "pop", "clear", "append", "sort", "reverse", "insert", "extend")]
        late = [m_ for m_ in mods if m_ >= first_use]
        sorted_one_side = ("sorted(" in pub) != ("sorted(" in col_expr)
        res.add(same and not late and not sorted_one_side, "L2-column-order-fixed", "SimulationResult._recombine_mapped_result", rc.site(), rc.qualname, "the published outputs enumerate the collection that fixed the column order, unmodified in between",
                f"columns are laid out by iterating `{col_expr}` but `outputs` is published as `{pub}`" + (f" and the collection is modified at line(s) {late} in between" if late else "") + ": labels and columns can disagree", construct=f"{col_expr} / {pub}")
        rows_ok = src(kw.get("inputs")) == "self.inputs" if "inputs" in kw else False
        rt_ok = src(kw.get("result_type")) == "self.result_type" if "result_type" in kw else False
        res.add(rows_ok and rt_ok, "L2-column-order-fixed", "SimulationResult._recombine_mapped_result:publish", rc.site(rets[0]), rc.qualname, "rows follow self.inputs; result type kept", f"recombined result is published with inputs={src(kw.get('inputs'))}, result_type={src(kw.get('result_type'))}", construct=src(rets[0])[:160])
    # sampling result
    pi = PR.methods["__init__"]
    t = src(pi.node)
    res.frozen("super().__init__(results)" in t and "self.__outputs = list(results.keys())" in t, "M4-sampling-result-unchanged", "SamplingResult.__init__", pi.site(), pi.qualname, "counts are handed to dict unchanged; outputs are its keys", "SamplingResult no longer stores exactly the counts it was built from", construct="__init__")
    reb = [a for a in walk_no_nested(pi.node) if isinstance(a, (ast.Assign, ast.AugAssign)) and any(isinstance(x, ast.Name) and x.id == "results" and isinstance(x.ctx, ast.Store) for x in ast.walk(a))]
    res.add(not reb, "M4-counts-stored-as-given", "SamplingResult.__init__", pi.site(reb[0]) if reb else pi.site(), pi.qualname, "the counts argument is not filtered or re-bound before it is stored",
            f"the counts handed to the constructor are altered before being stored (`{src(reb[0])[:70] if reb else ''}`): the result no longer returns exactly the counts it was built from", construct=src(reb[0])[:100] if reb else "")
    pr = PR.methods["_recombine_mapped_result"]
    r = [x for x in walk_no_nested(pr.node) if isinstance(x, ast.Return)]
    res.frozen(len(r) == 1 and src(r[0].value) == "SamplingResult(mapped_result, self.input)", "M4-recombine", "SamplingResult._recombine_mapped_result", pr.site(), pr.qualname, "new result from the mapped counts and the same input", "recombination changed", construct=src(r[0]) if r else "")
    # a result is never changed by reading it: no method other than the constructor writes the object or what it holds
    from ..rules import rc_owner as _rc
    ro = []
    for ci_, rel_ in ((SR, SIMR), (PR, SAMR)):
        for name_, f_ in ci_.methods.items():
            if name_ not in ("__init__", "__post_init__") and f_.kind != "setter":
                ro.append((rel_, f"{ci_.name}.{name_}", None))
    nro = _rc.c1_self_readonly(ctx, res, ro, rule="C1-result-read-only")
    res.floor("read-only result methods", nro, 10)
    from ..rules import rz_falsy
    nz = rz_falsy.none_checks(ctx, res, "C17", ())
    res.floor("Z functions scanned", nz, 3)
    return res
