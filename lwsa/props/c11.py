"""C11  Results depend only on the current configuration, not on history."""

from __future__ import annotations

from ..report import Result
from ..rules import rf_cache

SAMPLER = "lightworks/emulator/simulation/sampler.py"
QSAMPLER = "lightworks/emulator/simulation/quick_sampler.py"
ANALYZER = "lightworks/emulator/simulation/analyzer.py"


def check(ctx) -> Result:
    res = Result("C11")
    res.explanation = (
        "Decided (structural, all histories): for Sampler and QuickSampler the cache fields, the staleness predicate and the "
        "snapshot function are discovered by role; (F1) every read of a cached field in any method is preceded on every path "
        "by the staleness-checked refresh (must-analysis with per-method ensures-summaries), so sampling works on a fresh object "
        "and never uses a stale distribution; (F4) cached fields are re-assigned only inside the refresh branch; (F5) the predicate "
        "compares every snapshot entry; (F2) every configuration observable the recomputation reads - through the object's own "
        "methods and the methods of Source/Backend/Circuit it calls - is recorded by the snapshot function; (F3) Analyzer.analyze "
        "reads no result field that the same invocation has not assigned on every path. Not decided: numerical equality of "
        "distributions (not needed: the claim is about which computation is reported, not its value)."
    )
    res.assumptions = [
        "Circuit observables model (frozen): _build()/U/U_full depend on U_full; heralds/input_modes/n_modes depend on heralds (+ input length, checked by the refresh branch)",
        "global settings are outside the property's list of reconfigurations",
        "in-place edits of a PostSelection object are compared by identity (not in the statement's list)",
    ]
    models = []
    for rel, cn in ((SAMPLER, "Sampler"), (QSAMPLER, "QuickSampler")):
        ci = ctx.ix.module(rel).classes.get(cn)
        if ci is None:
            from ..source import AnalysisError
            raise AnalysisError(f"anchor class {cn} not found in {rel}")
        model = rf_cache.f1_f4(ctx, res, ci)
        rf_cache.f2_snapshot(ctx, res, model)
        models.append(model)
    # sibling agreement: the same cache roles exist in both samplers
    s, q = models
    strip = lambda m: {f.split("__", 1)[-1] for f in m.cache_fields}
    common = {"probability_distribution", "continuous_distribution", "calculation_values"}
    for m in models:
        res.add(common <= strip(m), "F-sibling-cache-roles", m.ci.name, m.pred.site(), m.ci.name,
                "distribution, continuous distribution and snapshot are all assigned in the refresh branch",
                f"refresh branch of {m.ci.name} no longer assigns {sorted(common - strip(m))} together with the snapshot", construct=m.ci.name)
    an = ctx.ix.module(ANALYZER).classes.get("Analyzer")
    rf_cache.f3_result_fields(ctx, res, an, ctx.func(ANALYZER, "Analyzer.analyze"))
    res.floor("cache reads", res.stats.get("cache_reads", 0), 6)
    res.floor("cache stores", res.stats.get("cache_stores", 0), 7)
    res.floor("refresh observables", res.stats.get("refresh_observables", 0), 10)
    res.floor("result fields of Analyzer.analyze", res.stats.get("result_fields", 0), 2)
    from ..rules import rf_cache as _rf
    n7 = 0
    for _cn in ['Sampler', 'QuickSampler', 'Analyzer']:
        n7 += _rf.f7_setters_store_the_object(ctx, res, ctx.ix.cls(_cn))
    res.floor("F7 setter stores", n7, 3)
    from ..rules import rz_falsy
    nz = rz_falsy.none_checks(ctx, res, "C11", rz_falsy.EMULATOR_EXTRA)
    res.floor("Z functions scanned", nz, 3)
    return res
