"""C12  Qiskit conversion preserves the circuit's unitary, or refuses."""

from __future__ import annotations

import ast

from ..index import walk_no_nested
from ..report import Result
from ..rules import rd_atomic, rk_tables
from ..source import AnalysisError, src

QC = "lightworks/qubit/converter/qiskit_convert.py"

REGISTRY = {
    "SINGLE_QUBIT_GATES_MAP": {"h": "H()", "x": "X()", "y": "Y()", "z": "Z()", "s": "S()", "sdg": "Sadj()", "t": "T()", "tdg": "Tadj()", "sx": "SX()"},
    "ROTATION_GATES_MAP": {"rx": "Rx", "ry": "Ry", "rz": "Rz", "p": "P"},
    "TWO_QUBIT_GATES_MAP": {"cx": "CNOT_Heralded", "cz": "CZ_Heralded", "swap": "SWAP"},
    "TWO_QUBIT_GATES_MAP_PS": {"cx": "CNOT", "cz": "CZ"},
    "THREE_QUBIT_GATES_MAP": {"ccx": "CCNOT", "ccz": "CCZ"},
}
POST_SELECTED = {"CNOT", "CZ", "CCNOT", "CCZ"}


def ends_in_raise(chain: ast.If) -> bool:
    cur = chain
    while True:
        if not cur.orelse:
            return False
        if len(cur.orelse) == 1 and isinstance(cur.orelse[0], ast.If):
            cur = cur.orelse[0]
            continue
        return isinstance(cur.orelse[-1], ast.Raise)


def check(ctx) -> Result:
    res = Result("C12")
    res.explanation = (
        "Decided (structural): the qiskit-name -> gate-class registries agree with the frozen name table (h,x,y,z,s,sdg,t,tdg,sx / rx,ry,rz,p / cx,cz,swap / ccx,ccz), and "
        "the classes they name are the gates verified for every angle under C13 (literals re-folded here); post-selected classes appear only in the post-selection table and "
        "the three-qubit table, and that table is selected only under `post_selection`; ALLOWED_GATES is exactly the union of the registries; the allowed-gate test dominates "
        "every dispatch, every dispatch chain ends in raise, three-qubit gates are refused without post-selection and when not adjacent before anything is added; the swaps "
        "inserted before and after a non-adjacent gate iterate one and the same list with the gate in between; qubit i lives on modes (2i, 2i+1), gates are placed on the "
        "lower qubit's first mode and cx passes target = q1 - min(q0, q1). Not decided: equivalence of the produced circuit with the qiskit unitary - in particular which "
        "gates may be post-selected (post_selection_analyzer) is domain logic with no structural witness."
    )
    res.assumptions = ["qiskit gate names and conventions (cx(control, target), little-endian qubit order)", "C13 for the meaning of the gate classes"]
    mod = ctx.ix.module(QC)
    for table, want in REGISTRY.items():
        vals = mod.assigns.get(table)
        if not vals or not isinstance(vals[0], ast.Dict):
            raise AnalysisError(f"registry {table} not found as a dict literal")
        got = {}
        for k, v in zip(vals[0].keys, vals[0].values):
            if not (isinstance(k, ast.Constant) and isinstance(k.value, str)):
                raise AnalysisError(f"{table}: non-literal key")
            got[k.value] = src(v)
        for name in sorted(set(want) | set(got)):
            res.add(got.get(name) == want.get(name), "K-registry", f"{table}[{name}]", f"{QC}:{vals[0].lineno}", table, f"'{name}' -> {want.get(name)}",
                    f"qiskit gate '{name}' is mapped to {got.get(name)} (expected {want.get(name)}): the converted circuit implements a different gate", construct=f"{table}[{name}]={got.get(name)}")
        if table in ("SINGLE_QUBIT_GATES_MAP", "ROTATION_GATES_MAP", "TWO_QUBIT_GATES_MAP"):
            ps = sorted(v.rstrip("()") for v in got.values() if v.rstrip("()") in POST_SELECTED)
            res.add(not ps, "K-heralded-table-has-no-post-selected-gate", table, f"{QC}:{vals[0].lineno}", table, "no post-selected gate in a table used without post-selection",
                    f"post-selected gate class(es) {ps} are used in {table}, which is consulted when post-selection is not allowed", construct=str(ps))
    # imported classes are the lightworks gate classes (not shadowed)
    for nm in ("H", "X", "Y", "Z", "S", "Sadj", "T", "Tadj", "SX", "Rx", "Ry", "Rz", "P", "CNOT", "CZ", "CNOT_Heralded", "CZ_Heralded", "SWAP", "CCNOT", "CCZ"):
        r = ctx.ix.resolve(mod, nm)
        res.add(r is not None and r[0] == "class" and "qubit/gates" in r[1].module.rel, "K-registry", f"import:{nm}", QC, "imports", "resolves to the gate library class", f"name {nm} does not resolve to lightworks.qubit.gates.{nm}", construct=nm)
    rk_tables.single_qubit_gates(ctx, res)
    # the converter places every gate with Circuit.add: the wiring rules of C02 are necessary conditions here too
    from . import c02 as _c02
    dep = _c02.check(ctx)
    for o in dep.obligations:
        if o.status == "violation":
            res.bad("dep:C02:" + o.rule, o.instance, o.site, o.qualname, "Circuit.add wiring (needed by every converted multi-gate circuit): " + o.why, construct=o.construct)
    res.count("dependency_obligations_C02", len(dep.obligations))
    # ALLOWED_GATES
    al = mod.assigns.get("ALLOWED_GATES")
    names = sorted(src(x.value) for x in al[0].elts if isinstance(x, ast.Starred)) if al and isinstance(al[0], ast.List) else []
    res.frozen(names == sorted(["SINGLE_QUBIT_GATES_MAP", "ROTATION_GATES_MAP", "TWO_QUBIT_GATES_MAP", "THREE_QUBIT_GATES_MAP"]) and len(al[0].elts) == 4, "K-allowed-is-union", "ALLOWED_GATES", QC, "ALLOWED_GATES", "allowed gates = keys of the registries",
            f"ALLOWED_GATES is built from {names}", construct=str(names))
    Q = mod.classes.get("QiskitConverter")
    conv = Q.methods["convert"]
    GATE_ADDERS = ("_add_single_qubit_gate", "_add_single_qubit_rotation_gate", "_add_two_qubit_gate", "_add_three_qubit_gate")
    def _is_dispatch(x):
        # a call that hands on a gate *name taken from the input circuit* (a literal name is an internal re-entry)
        return isinstance(x, ast.Call) and isinstance(x.func, ast.Attribute) and src(x.func.value) == "self" and x.func.attr in GATE_ADDERS and not (x.args and isinstance(x.args[0], ast.Constant))
    dispatchers = [f for f in Q.methods.values() if f.name not in GATE_ADDERS and any(_is_dispatch(x) for x in walk_no_nested(f.node))]
    if not dispatchers:
        res.frozen(False, "D-unsupported-gate-refused", "QiskitConverter", conv.site(), conv.qualname, "", "dispatch to the gate-adding methods not recognised", construct="")
    for f in dispatchers:
        rd_atomic.guard_dominates(ctx, res, f, lambda t, n: isinstance(t, ast.Compare) and len(t.ops) == 1 and isinstance(t.ops[0], ast.NotIn) and src(t.comparators[0]) == "ALLOWED_GATES",
                                  lambda nd: nd.kind == "stmt" and any(_is_dispatch(x) for x in ast.walk(nd.ast)),
                                  "D-unsupported-gate-refused", f.qualname, "an unsupported gate is refused before any dispatch")
    # dispatch is total: no path through a gate-adding method reaches its end without having added a gate (or raised)
    from ..cfg import own_exprs as _own
    def adds_gate(nd):
        return nd.ast is not None and nd.kind in ("stmt",) and any(isinstance(x, ast.Call) and (src(x.func) == "self.circuit.add" or (isinstance(x.func, ast.Attribute) and src(x.func.value) == "self" and x.func.attr.startswith("_add_"))) for e in _own(nd) for x in ast.walk(e))
    for f in (Q.methods["_add_two_qubit_gate"], Q.methods["_add_three_qubit_gate"]):
        cfg_f = ctx.cfg(f)
        # forward reachability avoiding gate-adding nodes
        seen, todo = {cfg_f.entry.id}, [cfg_f.entry.id]
        while todo:
            i = todo.pop()
            for t, lab in cfg_f.nodes[i].succ:
                if lab in ("exc", "raise") or t in seen:
                    continue
                if adds_gate(cfg_f.nodes[t]):
                    continue
                seen.add(t)
                todo.append(t)
        silent = cfg_f.exit.id in seen
        res.add(not silent, "H4-dispatch-total", f.qualname, f.site(), f.qualname, "every path either adds a gate or raises", "a gate name that matches no branch falls through without adding anything and without an error: the converted circuit silently omits the gate", construct=f.qualname)
    # in convert: the arity dispatch ends in raise
    heads = [n for n in walk_no_nested(conv.node) if isinstance(n, ast.If) and "len(qubits)" in src(n.test)]
    elifs = {id(n.orelse[0]) for n in walk_no_nested(conv.node) if isinstance(n, ast.If) and len(n.orelse) == 1 and isinstance(n.orelse[0], ast.If)}
    heads = [h for h in heads if id(h) not in elifs]
    if heads:
        res.add(ends_in_raise(heads[0]), "H4-dispatch-total", "QiskitConverter.convert:arity", conv.site(heads[0]), conv.qualname, "gates on more than three qubits are refused", "an instruction on an unsupported number of qubits is silently skipped", construct=src(heads[0].test))
    else:
        res.frozen(False, "H4-dispatch-total", "QiskitConverter.convert:arity", conv.site(), conv.qualname, "", "arity dispatch not recognised", construct="arity")
    # two-qubit gate: PS table only under post_selection; swaps symmetric; target
    two = Q.methods["_add_two_qubit_gate"]
    mp = [a for a in walk_no_nested(two.node) if isinstance(a, ast.Assign) and src(a.targets[0]) == "mapper"]
    okm = bool(mp) and isinstance(mp[0].value, ast.IfExp) and (
        (src(mp[0].value.test) == "not post_selection" and src(mp[0].value.body) == "TWO_QUBIT_GATES_MAP" and src(mp[0].value.orelse) == "TWO_QUBIT_GATES_MAP_PS")
        or (src(mp[0].value.test) == "post_selection" and src(mp[0].value.body) == "TWO_QUBIT_GATES_MAP_PS" and src(mp[0].value.orelse) == "TWO_QUBIT_GATES_MAP"))
    res.add(okm, "K-ps-table-only-under-post-selection", "_add_two_qubit_gate", two.site(), two.qualname, "post-selected gate classes are used only when this gate may be post-selected", "selection between heralded and post-selected gate tables changed", construct=src(mp[0]) if mp else "")
    # swaps inserted before and after the gate are the same operation on the same list
    adds = [c for c in walk_no_nested(two.node) if isinstance(c, ast.Call) and src(c.func) == "self.circuit.add" and "add_circ" in src(c)]
    par_ = ctx.tree.parents(two.rel)
    def stmt_of(n):
        while not isinstance(n, ast.stmt):
            n = par_[n]
        return n
    verdict = None
    if len(adds) == 1:
        st = stmt_of(adds[0])
        blk = par_.get(st)
        body = blk.body if st in getattr(blk, "body", []) else getattr(blk, "orelse", [])
        i = body.index(st)
        def swap_op(s_):
            if isinstance(s_, ast.For) and "swap" in src(s_.iter):
                return ("loop", src(s_.iter), src(s_.body[0]) if s_.body else "")
            if isinstance(s_, ast.Expr) and isinstance(s_.value, ast.Call) and any("swap" in src(a_) for a_ in s_.value.args):
                return ("call", src(s_.value.func), ",".join(src(a_) for a_ in s_.value.args))
            return None
        before = [swap_op(x) for x in body[:i] if swap_op(x)]
        after = [swap_op(x) for x in body[i + 1:] if swap_op(x)]
        if before and after:
            verdict = before[-1] == after[0]
            why = f"before: {before[-1]} after: {after[0]}"
        elif before or after:
            verdict = False
            why = f"swaps only {'before' if before else 'after'} the gate"
    if verdict is None:
        res.frozen(False, "K-swap-conjugation", "_add_two_qubit_gate", two.site(), two.qualname, "", "swap insertion around the gate not recognised", construct="swaps")
    else:
        res.add(verdict, "K-swap-conjugation", "_add_two_qubit_gate", two.site(), two.qualname, "the same swaps are applied before and after the gate", f"the swaps applied before and after a non-adjacent two-qubit gate differ ({why}): the qubits are not returned to their places", construct=why)
    # placement: on every path the gate circuit is added at the first mode of the *lower* of the two qubits
    from ..paths import Walker as _PW, norm_text as _nt
    class _AddWalker(_PW):
        def __init__(self):
            super().__init__("gate")
            self.adds = []
        def stmt(self, st, p_):
            if isinstance(st, ast.Expr) and isinstance(st.value, ast.Call) and src(st.value.func) == "self.circuit.add" and len(st.value.args) >= 2:
                self.adds.append((st, self.text(st.value.args[0], p_), self.text(st.value.args[1], p_), dict(p_.cond)))
            return super().stmt(st, p_)
    aw = _AddWalker()
    aw.run(two.node.body)
    import re as _re
    placed = [(st_, c_, m_, cond_) for st_, c_, m_, cond_ in aw.adds if "swap" not in c_.lower()]
    if not placed:
        res.frozen(False, "K-target-and-placement", "_add_two_qubit_gate:placement", two.site(), two.qualname, "", "insertion of the two-qubit gate circuit not recognised", construct="")
    for st_, c_, m_, cond_ in placed:
        mm = _re.fullmatch(r"self\.modes\[min\(\[?([^,\]]+),([^,\]]+)\]?\)\]\[0\]", m_)
        direct = _re.fullmatch(r"self\.modes\[(\??q[01])\]\[0\]", m_)
        if mm and {mm.group(1).lstrip("?"), mm.group(2).lstrip("?")} == {"q0", "q1"}:
            res.ok("K-target-and-placement", f"_add_two_qubit_gate:placement@{st_.lineno}", two.site(st_), two.qualname, "gate placed on the first mode of the lower qubit")
        elif direct:
            res.bad("K-target-and-placement", f"_add_two_qubit_gate:placement@{st_.lineno}", two.site(st_), two.qualname,
                    f"on a path ({', '.join(k for k, v in cond_.items() if v)[:80]}) the gate circuit is placed at `{m_}`, the first-listed qubit, not the lower of the two: a gate listed high-qubit-first lands one qubit too high", construct=m_)
        else:
            res.frozen(False, "K-target-and-placement", f"_add_two_qubit_gate:placement@{st_.lineno}", two.site(st_), two.qualname, "", f"placement `{m_}` not recognised", construct=m_)
    t = src(two.node).replace(" ", "")
    res.frozen("target=q1-min([q0,q1])" in t and "add_circ=mapper['cx'](target)" in t and "add_mode=self.modes[min([q0,q1])][0]" in t and "q0,q1,to_swap=convert_two_qubits_to_adjacent(q0,q1)" in t.replace("(q0,q1,to_swap)", "q0,q1,to_swap"),
            "K-target-and-placement", "_add_two_qubit_gate", two.site(), two.qualname, "cx target = q1 - min(q0, q1); gate placed on the lower qubit's first mode after making the qubits adjacent", "target / placement computation of two-qubit gates changed", construct="two-qubit placement")
    res.frozen("TWO_QUBIT_GATES_MAP['swap'](self.modes[q0],self.modes[q1]),0" in t, "K-target-and-placement", "_add_two_qubit_gate:swap", two.site(), two.qualname, "swap acts on the mode pairs of the two qubits, placed at mode 0", "swap placement changed", construct="swap")
    three = Q.methods["_add_three_qubit_gate"]
    from ..guards import Lit as _Lit, Normaliser as _Norm, facts_at as _facts_at
    from ..inline import inlined as _inlined
    fn3 = _inlined(three.node)
    par3 = {c_: n_ for n_ in ast.walk(fn3) for c_ in ast.iter_child_nodes(n_)}

    def _t3(e):
        if isinstance(e, ast.Constant):
            return repr(e.value)
        if isinstance(e, ast.Call) and isinstance(e.func, ast.Name) and e.func.id in ("max", "min"):
            a0 = e.args[0] if len(e.args) == 1 else None
            if isinstance(a0, ast.Name):
                ds_ = [a_.value for a_ in ast.walk(fn3) if isinstance(a_, ast.Assign) and len(a_.targets) == 1 and src(a_.targets[0]) == a0.id]
                if len(ds_) == 1:
                    a0 = ds_[0]
            args = a0.elts if isinstance(a0, (ast.List, ast.Tuple)) else e.args
            return f"{e.func.id}({','.join(sorted(src(a_) for a_ in args))})"
        if isinstance(e, ast.BinOp) and isinstance(e.op, ast.Sub):
            l_, r_ = _t3(e.left), _t3(e.right)
            if l_ and r_:
                return f"{l_}-{r_}"
        return None

    adds = [c_ for c_ in ast.walk(fn3) if isinstance(c_, ast.Call) and src(c_.func) == "self.circuit.add"]
    qs = [p_ for p_ in three.params() if p_.startswith("q")]
    span = f"max({','.join(sorted(qs))})-min({','.join(sorted(qs))})"
    if not adds:
        res.frozen(False, "D-three-qubit-refusals", "three-qubit gate", three.site(), three.qualname, "", "insertion of the three-qubit gate (self.circuit.add) not recognised", construct="")
    for c_ in adds:
        st_ = c_
        while not isinstance(st_, ast.stmt):
            st_ = par3[st_]
        fa = _facts_at(fn3, st_, _Norm(_t3)) or []
        units = [next(iter(f_)) for f_ in fa if len(f_) == 1]
        ps_ok = any(l_.op == "truthy" and l_.a == "post_selection" for l_ in units)
        res.add(ps_ok, "D-three-qubit-refusals", "no post-selection", three.site(c_), three.qualname, "three-qubit gates are refused unless this gate is post-selected", "three-qubit gates are added without post-selection", construct="not post_selection")
        adj_ok = any(l_.op == "==" and {l_.a, l_.b} == {"2", span} for l_ in units)
        other_eq = any(l_.op == "==" and "2" in (l_.a, l_.b) for l_ in units)
        if adj_ok:
            res.ok("D-three-qubit-refusals", "adjacency", three.site(c_), three.qualname, "non-adjacent three-qubit gates are refused (max - min == 2 established)")
        elif other_eq:
            res.frozen(False, "D-three-qubit-refusals", "adjacency", three.site(c_), three.qualname, "", "an adjacency test is made but not in the recognised form max(q) - min(q) == 2", construct="adjacency")
        else:
            res.bad("D-three-qubit-refusals", "adjacency", three.site(c_), three.qualname, "non-adjacent three-qubit gates are no longer refused (no fact max(q) - min(q) == 2 holds where the gate is added); established: " + "; ".join(" or ".join(map(str, f_)) for f_ in fa[:6]), construct="adjacency")
    t3 = src(three.node).replace(" ", "")
    res.frozen("target=q2-min(all_qubits)" in t3 and "add_mode=self.modes[min(all_qubits)][0]" in t3 and "all_qubits=[q0,q1,q2]" in t3, "K-target-and-placement", "_add_three_qubit_gate", three.site(), three.qualname, "ccx target = q2 - min(qubits); placed on the lowest qubit's first mode", "three-qubit target / placement changed", construct="three-qubit placement")
    # qubit -> modes and single-qubit placement
    tc = src(conv.node).replace(" ", "")
    res.frozen("self.modes={i:(2*i,2*i+1)foriinrange(n_qubits)}" in tc and "self.circuit=Circuit(n_qubits*2)" in tc, "K-qubit-mode-map", "QiskitConverter.convert", conv.site(), conv.qualname, "qubit i <-> modes (2i, 2i+1)", "dual-rail qubit-to-mode map changed", construct="modes")
    for nm in ("_add_single_qubit_gate", "_add_single_qubit_rotation_gate"):
        f = Q.methods[nm]
        ts = src(f.node).replace(" ", "")
        good = "self.modes[qubit][0])" in ts and (("SINGLE_QUBIT_GATES_MAP[gate]," in ts) if nm == "_add_single_qubit_gate" else ("ROTATION_GATES_MAP[gate](theta)," in ts))
        res.frozen(good, "K-target-and-placement", nm, f.site(), f.qualname, "gate looked up by its qiskit name and placed on the qubit's first mode", "single-qubit gate lookup / placement changed", construct=nm)
    res.frozen("theta=inst.operation.params[0]" in tc and "post_select[i]" in tc and "post_select=[False]*len(q_circuit.data)" in tc, "K-target-and-placement", "convert:arguments", conv.site(), conv.qualname, "rotation angle and the per-instruction post-selection flag are passed on", "angle / post-selection flag plumbing changed", construct="plumbing")
    # ---- adjacency helper: the swap for the lower and for the upper qubit are independent (both may be needed)
    adj = ctx.func(QC, "convert_two_qubits_to_adjacent")
    cfg_a = ctx.cfg(adj)
    apps = [n for n in cfg_a.nodes if n.kind == "stmt" and any(isinstance(x, ast.Call) and src(x.func) == "swaps.append" for x in ast.walk(n.ast))]
    if len(apps) >= 2:
        a0, a1 = sorted(apps, key=lambda n: n.lineno)[:2]
        both = a1.id in cfg_a.reachable_from(a0.id)
        res.add(both, "K-adjacency-swaps-independent", "convert_two_qubits_to_adjacent", adj.site(a1.ast), adj.qualname, "a gate on qubits three or more apart gets both the lower-qubit and the upper-qubit swap",
                "the swap for the upper qubit cannot be emitted when the lower qubit is moved too (mutually exclusive branches): a gate on qubits >= 3 apart acts on a neighbouring qubit", construct=src(a1.ast))
    else:
        res.frozen(False, "K-adjacency-swaps-independent", "convert_two_qubits_to_adjacent", adj.site(), adj.qualname, "", "swap list construction not recognised", construct="swaps")
    # ---- post-selection analysis looks at every multi-qubit instruction, whatever its name (a swap moves the photons too)
    psa = ctx.func(QC, "post_selection_analyzer")
    named = [n for n in walk_no_nested(psa.node) if isinstance(n, ast.Attribute) and n.attr == "name"]
    res.add(not named, "K-analyzer-gate-agnostic", "post_selection_analyzer", psa.site(named[0]) if named else psa.site(), psa.qualname, "qubits are collected for every instruction with two or more qubits",
            "the post-selection analysis treats instructions differently by gate name: a multi-qubit gate left out of the bookkeeping (e.g. swap) still moves the photons a later post-selected gate relies on", construct=src(named[0]) if named else "")
    res.frozen("ps_rules.add(self.modes[q],1)" in tc, "K-post-selection-rules", "convert", conv.site(), conv.qualname, "one photon across the two modes of every post-selected qubit", "returned post-selection rules changed", construct="ps rules")
    from ..rules import rz_falsy
    nz = rz_falsy.none_checks(ctx, res, "C12", ())
    res.floor("Z functions scanned", nz, 3)
    return res
