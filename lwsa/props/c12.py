"""C12  Qiskit conversion preserves the circuit's unitary, or refuses."""

from __future__ import annotations

import ast

from ..index import walk_no_nested
from ..report import Result
from ..rules import rd_atomic, rk_tables
from ..source import AnalysisError, src

QC = "lightworks/qubit/converter/qiskit_convert.py"

REGISTRY = {
    "SINGLE_QUBIT_GATES_MAP": {"h": "H()", "x": "X()", "y": "Y()", "z": "Z()", "s": "S()", "sdg": "Sadj()", "t": "T()", "tdg": "Tadj()", "sx": "SX()"},
    "ROTATION_GATES_MAP": {"rx": "Rx", "ry": "Ry", "rz": "Rz", "p": "P"},
    "TWO_QUBIT_GATES_MAP": {"cx": "CNOT_Heralded", "cz": "CZ_Heralded", "swap": "SWAP"},
    "TWO_QUBIT_GATES_MAP_PS": {"cx": "CNOT", "cz": "CZ"},
    "THREE_QUBIT_GATES_MAP": {"ccx": "CCNOT", "ccz": "CCZ"},
}
POST_SELECTED = {"CNOT", "CZ", "CCNOT", "CCZ"}


def ends_in_raise(chain: ast.If) -> bool:
    cur = chain
    while True:
        if not cur.orelse:
            return False
        if len(cur.orelse) == 1 and isinstance(cur.orelse[0], ast.If):
            cur = cur.orelse[0]
            continue
        return isinstance(cur.orelse[-1], ast.Raise)


def check(ctx) -> Result:
    res = Result("C12")
    res.explanation = (
        "Decided (structural): the qiskit-name -> gate-class registries agree with the frozen name table (h,x,y,z,s,sdg,t,tdg,sx / rx,ry,rz,p / cx,cz,swap / ccx,ccz), and "
        "the classes they name are the gates verified for every angle under C13 (literals re-folded here); post-selected classes appear only in the post-selection table and "
        "the three-qubit table, and that table is selected only under `post_selection`; ALLOWED_GATES is exactly the union of the registries; the allowed-gate test dominates "
        "every dispatch, every dispatch chain ends in raise, three-qubit gates are refused without post-selection and when not adjacent before anything is added; the swaps "
        "inserted before and after a non-adjacent gate iterate one and the same list with the gate in between; qubit i lives on modes (2i, 2i+1), gates are placed on the "
        "lower qubit's first mode and cx passes target = q1 - min(q0, q1). Not decided: equivalence of the produced circuit with the qiskit unitary - in particular which "
        "gates may be post-selected (post_selection_analyzer) is domain logic with no structural witness."
    )
    res.assumptions = ["qiskit gate names and conventions (cx(control, target), little-endian qubit order)", "C13 for the meaning of the gate classes"]
    mod = ctx.ix.module(QC)
    for table, want in REGISTRY.items():
        vals = mod.assigns.get(table)
        if not vals or not isinstance(vals[0], ast.Dict):
            raise AnalysisError(f"registry {table} not found as a dict literal")
        got = {}
        for k, v in zip(vals[0].keys, vals[0].values):
            if not (isinstance(k, ast.Constant) and isinstance(k.value, str)):
                raise AnalysisError(f"{table}: non-literal key")
            got[k.value] = src(v)
        for name in sorted(set(want) | set(got)):
            res.add(got.get(name) == want.get(name), "K-registry", f"{table}[{name}]", f"{QC}:{vals[0].lineno}", table, f"'{name}' -> {want.get(name)}",
                    f"qiskit gate '{name}' is mapped to {got.get(name)} (expected {want.get(name)}): the converted circuit implements a different gate", construct=f"{table}[{name}]={got.get(name)}")
        if table in ("SINGLE_QUBIT_GATES_MAP", "ROTATION_GATES_MAP", "TWO_QUBIT_GATES_MAP"):
            ps = sorted(v.rstrip("()") for v in got.values() if v.rstrip("()") in POST_SELECTED)
            res.add(not ps, "K-heralded-table-has-no-post-selected-gate", table, f"{QC}:{vals[0].lineno}", table, "no post-selected gate in a table used without post-selection",
                    f"post-selected gate class(es) {ps} are used in {table}, which is consulted when post-selection is not allowed", construct=str(ps))
    # imported classes are the lightworks gate classes (not shadowed)
    for nm in ("H", "X", "Y", "Z", "S", "Sadj", "T", "Tadj", "SX", "Rx", "Ry", "Rz", "P", "CNOT", "CZ", "CNOT_Heralded", "CZ_Heralded", "SWAP", "CCNOT", "CCZ"):
        r = ctx.ix.resolve(mod, nm)
        res.add(r is not None and r[0] == "class" and "qubit/gates" in r[1].module.rel, "K-registry", f"import:{nm}", QC, "imports", "resolves to the gate library class", f"name {nm} does not resolve to lightworks.qubit.gates.{nm}", construct=nm)
    rk_tables.single_qubit_gates(ctx, res)
    # ALLOWED_GATES
    al = mod.assigns.get("ALLOWED_GATES")
    names = sorted(src(x.value) for x in al[0].elts if isinstance(x, ast.Starred)) if al and isinstance(al[0], ast.List) else []
    res.frozen(names == sorted(["SINGLE_QUBIT_GATES_MAP", "ROTATION_GATES_MAP", "TWO_QUBIT_GATES_MAP", "THREE_QUBIT_GATES_MAP"]) and len(al[0].elts) == 4, "K-allowed-is-union", "ALLOWED_GATES", QC, "ALLOWED_GATES", "allowed gates = keys of the registries",
            f"ALLOWED_GATES is built from {names}", construct=str(names))
    Q = mod.classes.get("QiskitConverter")
    conv = Q.methods["convert"]
    rd_atomic.guard_dominates(ctx, res, conv, lambda t, n: src(t).replace(" ", "") == "gatenotinALLOWED_GATES",
                              lambda nd: nd.kind == "stmt" and any(isinstance(x, ast.Call) and src(x.func).startswith("self._add_") for x in ast.walk(nd.ast)),
                              "D-unsupported-gate-refused", "QiskitConverter.convert", "an unsupported gate is refused before any dispatch")
    # dispatch chains total
    for f in (conv, Q.methods["_add_two_qubit_gate"], Q.methods["_add_three_qubit_gate"]):
        heads = []
        elifs = {id(n.orelse[0]) for n in walk_no_nested(f.node) if isinstance(n, ast.If) and len(n.orelse) == 1 and isinstance(n.orelse[0], ast.If)}
        for n in walk_no_nested(f.node):
            if isinstance(n, ast.If) and id(n) not in elifs and (("gate ==" in src(n.test) or "gate in" in src(n.test) or "len(qubits)" in src(n.test)) and "not in" not in src(n.test)) and n.orelse:
                heads.append(n)
        for h in heads:
            inner_only = all("gate ==" in src(h.test) and h is not heads[0] for _ in [0])
            if h is heads[0] or "len(qubits)" in src(h.test):
                res.add(ends_in_raise(h), "H4-dispatch-total", f"{f.qualname}:{src(h.test)[:30]}", f.site(h), f.qualname, "dispatch chain ends in raise", "an unrecognised gate / arity falls through the dispatch without an error", construct=src(h.test))
    # two-qubit gate: PS table only under post_selection; swaps symmetric; target
    two = Q.methods["_add_two_qubit_gate"]
    mp = [a for a in walk_no_nested(two.node) if isinstance(a, ast.Assign) and src(a.targets[0]) == "mapper"]
    okm = bool(mp) and isinstance(mp[0].value, ast.IfExp) and (
        (src(mp[0].value.test) == "not post_selection" and src(mp[0].value.body) == "TWO_QUBIT_GATES_MAP" and src(mp[0].value.orelse) == "TWO_QUBIT_GATES_MAP_PS")
        or (src(mp[0].value.test) == "post_selection" and src(mp[0].value.body) == "TWO_QUBIT_GATES_MAP_PS" and src(mp[0].value.orelse) == "TWO_QUBIT_GATES_MAP"))
    res.add(okm, "K-ps-table-only-under-post-selection", "_add_two_qubit_gate", two.site(), two.qualname, "post-selected gate classes are used only when this gate may be post-selected", "selection between heralded and post-selected gate tables changed", construct=src(mp[0]) if mp else "")
    loops = sorted([l for l in walk_no_nested(two.node) if isinstance(l, ast.For)], key=lambda l: l.lineno)
    adds = [c for c in walk_no_nested(two.node) if isinstance(c, ast.Call) and src(c.func) == "self.circuit.add" and "add_circ" in src(c)]
    oks = len(loops) == 2 and len(adds) == 1 and src(loops[0].iter) == src(loops[1].iter) == "to_swap" and src(loops[0].body[0]) == src(loops[1].body[0]) and loops[0].lineno < adds[0].lineno < loops[1].lineno
    res.add(oks, "K-swap-conjugation", "_add_two_qubit_gate", two.site(), two.qualname, "the same swaps are applied before and after the gate", "swaps before and after a non-adjacent two-qubit gate are not the same list around the gate", construct=";".join(src(l.iter) for l in loops))
    t = src(two.node).replace(" ", "")
    res.frozen("target=q1-min([q0,q1])" in t and "add_circ=mapper['cx'](target)" in t and "add_mode=self.modes[min([q0,q1])][0]" in t and "q0,q1,to_swap=convert_two_qubits_to_adjacent(q0,q1)" in t.replace("(q0,q1,to_swap)", "q0,q1,to_swap"),
            "K-target-and-placement", "_add_two_qubit_gate", two.site(), two.qualname, "cx target = q1 - min(q0, q1); gate placed on the lower qubit's first mode after making the qubits adjacent", "target / placement computation of two-qubit gates changed", construct="two-qubit placement")
    res.frozen("TWO_QUBIT_GATES_MAP['swap'](self.modes[q0],self.modes[q1]),0" in t, "K-target-and-placement", "_add_two_qubit_gate:swap", two.site(), two.qualname, "swap acts on the mode pairs of the two qubits, placed at mode 0", "swap placement changed", construct="swap")
    three = Q.methods["_add_three_qubit_gate"]
    cfg = ctx.cfg(three)
    dom = cfg.dominators()
    from ..cfg import own_exprs
    addn = [n for n in cfg.nodes if n.ast is not None and n.kind == "stmt" and any(isinstance(x, ast.Call) and src(x.func) == "self.circuit.add" for e in own_exprs(n) for x in ast.walk(e))]
    g1 = [n for n in cfg.nodes if n.kind == "test" and src(n.ast.test) == "not post_selection" and any(isinstance(b, ast.Raise) for b in n.ast.body)]
    g2 = [n for n in cfg.nodes if n.kind == "test" and src(n.ast.test).replace(" ", "") == "max(all_qubits)-min(all_qubits)!=2" and any(isinstance(b, ast.Raise) for b in n.ast.body)]
    res.add(bool(addn) and bool(g1) and all(g1[0].id in dom[a.id] for a in addn), "D-three-qubit-refusals", "no post-selection", three.site(), three.qualname, "three-qubit gates are refused unless this gate is post-selected", "three-qubit gates are added without post-selection", construct="not post_selection")
    res.add(bool(addn) and bool(g2) and all(g2[0].id in dom[a.id] for a in addn), "D-three-qubit-refusals", "adjacency", three.site(), three.qualname, "non-adjacent three-qubit gates are refused", "non-adjacent three-qubit gates are no longer refused", construct="adjacency")
    t3 = src(three.node).replace(" ", "")
    res.frozen("target=q2-min(all_qubits)" in t3 and "add_mode=self.modes[min(all_qubits)][0]" in t3 and "all_qubits=[q0,q1,q2]" in t3, "K-target-and-placement", "_add_three_qubit_gate", three.site(), three.qualname, "ccx target = q2 - min(qubits); placed on the lowest qubit's first mode", "three-qubit target / placement changed", construct="three-qubit placement")
    # qubit -> modes and single-qubit placement
    tc = src(conv.node).replace(" ", "")
    res.frozen("self.modes={i:(2*i,2*i+1)foriinrange(n_qubits)}" in tc and "self.circuit=Circuit(n_qubits*2)" in tc, "K-qubit-mode-map", "QiskitConverter.convert", conv.site(), conv.qualname, "qubit i <-> modes (2i, 2i+1)", "dual-rail qubit-to-mode map changed", construct="modes")
    for nm in ("_add_single_qubit_gate", "_add_single_qubit_rotation_gate"):
        f = Q.methods[nm]
        ts = src(f.node).replace(" ", "")
        good = "self.modes[qubit][0])" in ts and (("SINGLE_QUBIT_GATES_MAP[gate]," in ts) if nm == "_add_single_qubit_gate" else ("ROTATION_GATES_MAP[gate](theta)," in ts))
        res.frozen(good, "K-target-and-placement", nm, f.site(), f.qualname, "gate looked up by its qiskit name and placed on the qubit's first mode", "single-qubit gate lookup / placement changed", construct=nm)
    res.frozen("theta=inst.operation.params[0]" in tc and "post_select[i]" in tc and "post_select=[False]*len(q_circuit.data)" in tc, "K-target-and-placement", "convert:arguments", conv.site(), conv.qualname, "rotation angle and the per-instruction post-selection flag are passed on", "angle / post-selection flag plumbing changed", construct="plumbing")
    res.frozen("ps_rules.add(self.modes[q],1)" in tc, "K-post-selection-rules", "convert", conv.site(), conv.qualname, "one photon across the two modes of every post-selected qubit", "returned post-selection rules changed", construct="ps rules")
    return res
