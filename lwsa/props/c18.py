"""C18  State values behave as immutable Fock states; herald bookkeeping round-trips."""

from __future__ import annotations

import ast

from ..guards import Normaliser
from ..index import walk_no_nested
from ..report import Result
from ..rules import rc_owner, re_guards, rl_iter
from ..rules.rf_cache import field_reads
from ..source import AnalysisError, src

STATE = "lightworks/sdk/state/state.py"
ASTATE = "lightworks/emulator/state/annotated_state.py"
HER = "lightworks/sdk/utils/heralding_utils.py"
RND = "lightworks/sdk/utils/random_utils.py"
CONV = "lightworks/sdk/utils/conversion.py"


def check(ctx) -> Result:
    res = Result("C18")
    res.explanation = (
        "Decided (structural): (C4) no public method, property or iterator of State / AnnotatedState returns or yields a reference to the private occupation "
        "list (for AnnotatedState: nor to an inner label list) and no method other than __init__ writes it - a may-alias analysis of every return path; the "
        "blocked setters always raise; (C5) inside lightworks no list handed to State(...)/AnnotatedState(...) is mutated after the constructor call; +, merge "
        "and slicing build new objects from fresh lists; __hash__ depends only on what __eq__ compares; AnnotatedState sorts each label list at construction "
        "(label order irrelevant); herald removal pops in descending index order and herald insertion walks positions; dB conversion accepts exactly [0,1); "
        "random_unitary / random_permutation pass the validated seed to their generators. Not decided: conversion numerics, validity of the random matrices."
    )
    res.assumptions = ["State.__init__ keeps the caller's list by design (documented); callers outside lightworks are not analysed", "scipy/numpy generators are deterministic for a given seed"]
    sm, am = ctx.ix.module(STATE), ctx.ix.module(ASTATE)
    S, A = sm.classes.get("State"), am.classes.get("AnnotatedState")
    if S is None or A is None:
        raise AnalysisError("State / AnnotatedState not found")
    n = rc_owner.c4_no_escape(ctx, res, S, "_State__s", 1)
    n += rc_owner.c4_no_escape(ctx, res, A, "_AnnotatedState__s", 2)
    res.floor("C4 methods", n, 30)
    # blocked setters
    for ci in (S, A):
        for name, f in list(ci.setters.items()) + [("__setitem__", ci.methods.get("__setitem__"))]:
            if f is None:
                res.bad("C4-blocked-setter", f"{ci.name}.{name}", f"{ci.module.rel}:{ci.node.lineno}", ci.name, "item assignment is not blocked", construct=name)
                continue
            body = [s for s in f.node.body if not (isinstance(s, ast.Expr) and isinstance(s.value, ast.Constant))]
            res.add(len(body) == 1 and isinstance(body[0], ast.Raise), "C4-blocked-setter", f"{ci.name}.{name}", f.site(), f.qualname, "always raises", "setter no longer unconditionally rejects modification", construct=src(f.node)[:120])
    # operators build new objects from fresh lists
    for ci, fld in ((S, "_State__s"), (A, "_AnnotatedState__s")):
        for m in ("__add__", "merge"):
            f = ci.methods.get(m)
            if f is None:
                raise AnalysisError(f"{ci.name}.{m} not found")
            s = ctx.eng.summary(f)
            fresh = [l for l in s.returns.locs if l[0] == "F"]
            okr = bool(fresh) and all(l[0] == "F" for l in s.returns.locs)
            inner_ok = True
            for l in fresh:
                ent = s.heap.get((l, fld))
                if ent and any(x[0] not in ("F", "D") for x in ent[0].locs):
                    inner_ok = False
            res.add(okr and inner_ok, "C3-operators-build-new-values", f"{ci.name}.{m}", f.site(), f.qualname, "returns a new object over a fresh list",
                    "operator returns an existing object or a new object sharing an operand's list", construct=f"{ci.name}.{m}")
    # eq / hash
    for ci in (S, A):
        eq, hs = ci.methods.get("__eq__"), ci.methods.get("__hash__")
        if eq is None or hs is None:
            res.bad("Q-hash-follows-eq", ci.name, f"{ci.module.rel}:{ci.node.lineno}", ci.name, "__eq__/__hash__ missing", construct=ci.name)
            continue
        re_, rh = field_reads(ctx, ci, eq), field_reads(ctx, ci, hs)
        impure = any(isinstance(c, ast.Call) and src(c.func) in ("id", "random", "time.time", "object.__hash__", "super().__hash__") for c in walk_no_nested(hs.node))
        res.add(bool(rh) and rh <= re_ and not impure, "Q-hash-follows-eq", ci.name, hs.site(), hs.qualname, f"hash reads {sorted(rh)} ⊆ fields compared by __eq__ {sorted(re_)}",
                f"__hash__ depends on {sorted(rh - re_) or 'identity/other sources'} which __eq__ does not compare: equal states may hash differently", construct=src(hs.node)[:160])
        # equality compares the whole occupation lists: a pairwise comparison over zip() stops at the shorter list, so the
        # number of modes must be compared too (zip(..., strict=True) raises instead, which is not an equality test either)
        zips = [c for c in walk_no_nested(eq.node) if isinstance(c, ast.Call) and src(c.func) == "zip"]
        if zips:
            lens = [c for c in walk_no_nested(eq.node) if isinstance(c, ast.Compare) and all(isinstance(x, ast.Call) and src(x.func) == "len" for x in [c.left] + c.comparators)]
            res.add(bool(lens), "Q-eq-compares-lengths", ci.name + ".__eq__", eq.site(zips[0]), eq.qualname, "lengths are compared besides the pairwise comparison",
                    f"`{src(zips[0])[:60]}` pairs the occupations up to the shorter state and nothing compares the number of modes: a state equals every state it is a prefix of (State([1,0]) == State([1,0,0,0]), the empty state equals everything) while their hashes differ", construct=src(zips[0])[:100])
        # eq compares the private field with the other's value and type-checks
        txt = src(eq.node)
        res.add(f"isinstance(value, {ci.name})" in txt and "==" in txt, "Q-hash-follows-eq", ci.name + ".__eq__", eq.site(), eq.qualname, "type-checked list equality", "__eq__ no longer a type-checked comparison of the occupation lists", construct=txt[:160])
    # AnnotatedState sorts labels at construction
    from ..inline import inlined
    ini = A.methods["__init__"]
    ini_fn = inlined(ini.node)
    st = [a for a in walk_no_nested(ini_fn) if isinstance(a, ast.Assign) and src(a.targets[0]) == "self.__s"]
    any_sorted = any(isinstance(c, ast.Call) and (src(c.func) == "sorted" or (isinstance(c.func, ast.Attribute) and c.func.attr == "sort")) for c in ast.walk(ini_fn))
    in_value = len(st) == 1 and any((isinstance(c, ast.Call) and src(c.func) == "sorted") or (isinstance(c, ast.Name) and c.id == "sorted") for c in ast.walk(st[0].value))
    if in_value:
        res.ok("Q-label-order-canonical", "AnnotatedState.__init__", ini.site(st[0]), ini.qualname, "each label list is copied and sorted at construction (multiset semantics)")
    elif not any_sorted:
        res.bad("Q-label-order-canonical", "AnnotatedState.__init__", ini.site(), ini.qualname, "label lists are not sorted at construction: label order would matter for equality and hashing", construct=src(st[0]) if st else "")
    else:
        res.frozen(False, "Q-label-order-canonical", "AnnotatedState.__init__", ini.site(), ini.qualname, "", "sorting of the label lists is not part of the stored value expression (not recognised)", construct=src(st[0]) if st else "")
    # counts
    for ci, fldexpr in ((S, "self.__s"),):
        np_ = ci.getters["n_photons"]
        nm = ci.getters["n_modes"]
        r1 = [r for r in walk_no_nested(np_.node) if isinstance(r, ast.Return)][0]
        r2 = [r for r in walk_no_nested(nm.node) if isinstance(r, ast.Return)][0]
        res.frozen(src(r1.value) in (f"sum({fldexpr})", "sum(self.s)", f"int(sum({fldexpr}))"), "Q-counts", "State.n_photons", np_.site(), np_.qualname, "photon number is the sum of occupations", "n_photons is not in the form sum(occupations)", construct=src(r1))
        res.frozen(src(r2.value) in (f"len({fldexpr})", "len(self.s)"), "Q-counts", "State.n_modes", nm.site(), nm.qualname, "mode count is the list length", "n_modes is not in the form len(occupations)", construct=src(r2))
    # C5: a list captured by State(...) is dead afterwards (whole package)
    ncap = 0
    for fi in ctx.ix.all_functions():
        s = ctx.eng.summary(fi)
        for idx, cname, argv, node in s.captures:
            ncap += 1
            locs = {l for l in argv.locs if l[0] not in ("D",)}
            bad = None
            for ev in s.events[idx:]:
                if ev.kind in ("mutator", "sub-store", "aug", "del") and (ev.locs & locs):
                    bad = ev
                    break
            inst = f"{fi.qualname}:{src(node)[:40]}"
            if bad is None:
                res.ok("C5-captured-list-dead", inst, fi.site(node), fi.qualname, "the list handed to the constructor is not changed afterwards")
            else:
                res.bad("C5-captured-list-dead", inst, bad.site(), fi.qualname, f"the list kept by {cname}(...) constructed at line {node.lineno} is mutated afterwards ({bad.detail}): the state value changes after creation (and its hash with it)", construct=src(bad.node)[:160])
    res.floor("C5 State(...) constructions", ncap, 40)
    # herald helpers
    nl = 0
    for qn in ("remove_heralds_from_state", "add_heralds_to_state"):
        nl += rl_iter.check_function(ctx, res, ctx.func(HER, qn))
    res.floor("L herald loops", nl, 1)
    ah = ctx.func(HER, "add_heralds_to_state")
    rl_iter.herald_insertion_by_position(ctx, res, ah)
    for qn in ("remove_heralds_from_state", "add_heralds_to_state"):
        f = ctx.func(HER, qn)
        s = ctx.eng.summary(f)
        evs = [ev for ev in s.events if any(rc_owner.loc_steps(l)[0] == ("P", "state") for l in ev.locs)]
        res.add(not evs, "C1-arg-immutable", f"{qn}(state)", f.site(), f.qualname, "works on a copy of the state", "mutates the state / list passed in" + (": " + evs[0].detail if evs else ""), construct=qn)
        leak = [l for l in s.returns.locs if rc_owner.loc_steps(l)[0] == ("P", "state") and not rc_owner.loc_steps(l)[1]]
        res.add(not leak, "C1-arg-immutable", f"{qn}:return", f.site(), f.qualname, "returns a new list", "returns the caller's own list object (callers extend the result in place)", construct=qn + " returns its argument")
    # conversions
    norm = Normaliser(lambda e: repr(e.value) if isinstance(e, ast.Constant) else None)
    re_guards.range_validator(ctx, res, ctx.func(CONV, "decimal_to_db_loss"), "loss", 0, 1, hi_strict=True, norm=norm)
    # process_random_seed: None only for None, every integer comes back unchanged
    prs = ctx.func(RND, "process_random_seed")
    from ..guards import Lit, facts_at
    pn = prs.params()[0]
    _asg = {}
    for a in walk_no_nested(prs.node):
        if isinstance(a, ast.Assign) and isinstance(a.targets[0], ast.Name) and a.targets[0].id != pn:
            _asg.setdefault(a.targets[0].id, []).append(a.value)
    # local names that only ever hold int(seed)
    conv = {nm for nm, vals in _asg.items() if all(src(v_) in (f"int({pn})", f"operator.index({pn})", f"index({pn})") for v_ in vals)}

    def _is_seed(v_):
        return (isinstance(v_, ast.Name) and (v_.id == pn or v_.id in conv)) or (isinstance(v_, ast.Call) and src(v_.func) in ("int", "operator.index", "index") and len(v_.args) == 1 and src(v_.args[0]) == pn)
    for r in [x for x in walk_no_nested(prs.node) if isinstance(x, ast.Return)]:
        v = r.value
        if v is None or (isinstance(v, ast.Constant) and v.value is None):
            facts = facts_at(prs.node, r) or []
            ok = frozenset({Lit("is", pn, "None")}) in facts
            res.add(ok, "J3-seed-preserved", "process_random_seed:return None", prs.site(r), prs.qualname, "None is returned only for seed None",
                    "None (= 'no seed') is returned for a seed that is not None - e.g. a falsy integer such as 0: that seed no longer reproduces results; established: " + "; ".join(" or ".join(map(str, f)) for f in facts), construct=src(r))
        else:
            ok = _is_seed(v)
            res.add(ok, "J3-seed-preserved", "process_random_seed:return", prs.site(r), prs.qualname, "returns the (integer-converted) seed itself", f"returns `{src(v)}` instead of the seed", construct=src(r))
    reb = [a for a in walk_no_nested(prs.node) if isinstance(a, ast.Assign) and src(a.targets[0]) == pn]
    res.add(all(_is_seed(a.value) for a in reb), "J3-seed-preserved", "process_random_seed:conversion", prs.site(), prs.qualname, "the seed is only ever re-bound to int(seed)", "the seed is re-bound to something other than int(seed)", construct=";".join(src(a) for a in reb))
    # seeds
    for qn, gen in (("random_unitary", "rvs"), ("random_permutation", "default_rng")):
        f = ctx.func(RND, qn)
        fn_ = inlined(f.node)
        calls = [c for c in walk_no_nested(fn_) if isinstance(c, ast.Call) and src(c.func).split(".")[-1] == gen]
        sp = [p_ for p_ in f.params() if "seed" in p_]
        if not calls or not sp:
            res.frozen(False, "J3-seed-passed", qn, f.site(), f.qualname, "", f"generator call `{gen}` / seed parameter not recognised", construct=qn)
            continue
        def _args(c):
            return list(c.args) + [k.value for k in c.keywords]
        validated = all(any(isinstance(x, ast.Call) and src(x.func) == "process_random_seed" and x.args and src(x.args[0]) == sp[0] for a_ in _args(c) for x in ast.walk(a_))
                        or any(isinstance(a_, ast.Name) and any(isinstance(d, ast.Assign) and src(d.targets[0]) == a_.id and "process_random_seed(" in src(d.value) for d in walk_no_nested(fn_)) for a_ in _args(c)) for c in calls)
        raw = any(isinstance(a_, ast.Name) and a_.id == sp[0] for c in calls for a_ in _args(c))
        seedless = any(not any(sp[0] in src(a_) or "seed" in src(a_).lower() for a_ in _args(c)) for c in calls)
        if validated:
            res.ok("J3-seed-passed", qn, f.site(calls[0]), f.qualname, "validated seed is handed to the generator")
        elif raw or seedless:
            res.bad("J3-seed-passed", qn, f.site(calls[0]), f.qualname, "the generator is not built from the validated seed: results are not reproducible / an invalid seed is not rejected", construct=";".join(src(c) for c in calls)[:160])
        else:
            res.frozen(False, "J3-seed-passed", qn, f.site(calls[0]), f.qualname, "", "how the seed reaches the generator is not recognised", construct=";".join(src(c) for c in calls)[:160])
    from ..rules import rz_falsy
    nz = rz_falsy.none_checks(ctx, res, "C18", ())
    res.floor("Z functions scanned", nz, 3)
    return res
