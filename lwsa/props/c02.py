"""C02  Adding a sub-circuit wires it in order; heralded modes become private ancillas."""

from __future__ import annotations

import ast

from ..index import mangle, walk_no_nested
from ..report import Result
from ..rules import ra_modes, rh_dispatch, rl_iter
from ..source import AnalysisError, src

CIRC = "lightworks/sdk/circuit/circuit.py"
UTILS = "lightworks/sdk/circuit/circuit_utils.py"
HER = "lightworks/sdk/utils/heralding_utils.py"
L_FILES = [CIRC, UTILS, HER, "lightworks/sdk/circuit/compiler.py", "lightworks/emulator/simulation/sampler.py", "lightworks/emulator/simulation/quick_sampler.py",
           "lightworks/emulator/simulation/analyzer.py", "lightworks/emulator/simulation/simulator.py", "lightworks/sdk/visualisation/draw_circuit_svg.py",
           "lightworks/sdk/visualisation/draw_circuit_mpl.py", "lightworks/interferometers/reck.py", "lightworks/qubit/converter/qiskit_convert.py"]


def check(ctx) -> Result:
    res = Result("C02")
    res.explanation = (
        "Decided (structural necessary conditions of the wiring bookkeeping): (A1-A3) in Circuit.add the placement mode is mapped user->full once, "
        "validated, herald keys / internal-mode entries / group span / empty-mode index are all full-space values; (A4) the size test is made in one "
        "unit; (A5) every pass-through mode inserted for an existing ancilla is registered as a fixed point of the output-swap synthesis; (L) every "
        "index-shifting or pop-by-index loop iterates a sorted sequence, so the result cannot depend on herald declaration order; (H1/H2) both "
        "spec-shifting functions rewrite every mode-bearing field of every component kind (swap keys and values, group span and recursion, group-"
        "relative herald keys) with an expression depending on the offset; ancilla registration is paired (input/output herald maps and internal list; "
        "all four herald maps and the list are rewritten by _add_empty_mode); groups never nest (the only Group construction receives an unpacked spec). "
        "Not decided: that the composed heralded amplitudes equal the composition of the two transformations (the swap synthesis and the shift "
        "predicates > / >= are not proved)."
    )
    res.assumptions = ["public parameter names of the Circuit mutators denote user-visible mode indices (API documentation)", "component dataclass field classification table (rh_dispatch.py)"]
    C = ctx.ix.module(CIRC).classes.get("Circuit")
    if C is None:
        raise AnalysisError("Circuit not found")
    add = C.methods["add"]
    st = ra_modes.check_mutators(ctx, res, C, ["add", "herald"])
    res.floor("A sinks in add/herald", st["sinks"], 8)
    n4 = ra_modes.a4_range_units(ctx, res, add)
    res.floor("A4 typed size tests", n4, 1)
    n5 = ra_modes.a5_passthrough(ctx, res, add)
    res.floor("A5 pass-through insertions", n5, 1)
    ra_modes.swap_append_guard(ctx, res, add)
    # ---- L
    nl = 0
    for rel in L_FILES:
        mi = ctx.ix.module(rel)
        for fi in list(mi.functions.values()) + [f for c in mi.classes.values() for f in c.all_funcs()]:
            nl += rl_iter.check_function(ctx, res, fi)
    res.floor("L shifting loops", nl, 3)
    # ---- H
    rh_dispatch.h2_shifter(ctx, res, ctx.func(UTILS, "add_modes_to_circuit_spec"), "mode", with_rel=False)
    rh_dispatch.h2_shifter(ctx, res, ctx.func(UTILS, "add_empty_mode_to_circuit_spec"), "mode", with_rel=True)
    # group herald rewrite: input and output loops are siblings
    fe = ctx.func(UTILS, "add_empty_mode_to_circuit_spec")
    loops = [l for l in walk_no_nested(fe.node) if isinstance(l, ast.For) and "heralds" in src(l.iter) and src(l.iter).endswith(".items()")]
    if len(loops) >= 2:
        def normal(l):
            t = src(l)
            for a, b in (("new_in_heralds", "NEW"), ("new_out_heralds", "NEW"), ("in_heralds", "OLD"), ("out_heralds", "OLD")):
                t = t.replace(a, b)
            return t
        res.add(normal(loops[0]) == normal(loops[1]), "H2-sibling-herald-rewrites", "add_empty_mode_to_circuit_spec:Group.heralds", fe.site(loops[0]), fe.qualname,
                "input and output herald keys of a group are shifted by the same predicate", "input and output herald keys of a group are shifted differently", construct=normal(loops[0])[:100] + " <> " + normal(loops[1])[:100])
    else:
        res.frozen(False, "H2-sibling-herald-rewrites", "add_empty_mode_to_circuit_spec:Group.heralds", fe.site(), fe.qualname, "", "the two herald re-keying loops were not recognised (that Group.heralds is rewritten at all is decided by H2-every-mode-field-shifted)", construct="heralds")
    # ---- pairing
    cn = C.name
    init = C.methods["__init__"]
    herald_fields = sorted({mangle(cn, t.attr) for n in walk_no_nested(init.node) if isinstance(n, (ast.Assign, ast.AnnAssign)) for t in ([n.target] if isinstance(n, ast.AnnAssign) else n.targets)
                            if isinstance(t, ast.Attribute) and isinstance(n.value, ast.Dict) and not n.value.keys})
    if len(herald_fields) != 4:
        raise AnalysisError(f"expected 4 herald maps in Circuit.__init__, found {herald_fields}")
    aem = C.methods["_add_empty_mode"]
    s = ctx.eng.summary(aem)
    written = {ev.field for ev in s.events if ev.kind in ("attr-store",) and any(l == ("P", "self") for l in ev.locs)}
    need = set(herald_fields) | {mangle(cn, "__internal_modes"), mangle(cn, "__n_modes")}
    res.add(need <= written, "P-empty-mode-rewrites-all", "Circuit._add_empty_mode", aem.site(), aem.qualname, "n_modes, all four herald maps and the internal-mode list are rewritten together",
            f"_add_empty_mode does not rewrite {sorted(need - written)}: that bookkeeping keeps the old mode numbering", construct=f"missing {sorted(need - written)}")
    # same predicate for all rewrites in _add_empty_mode: each compares with >= mode
    cmps = [n for n in walk_no_nested(aem.node) if isinstance(n, ast.Compare) and any(isinstance(x, ast.Name) and x.id == "mode" for x in ast.walk(n))]
    res.add(bool(cmps) and all(isinstance(c.ops[0], ast.GtE) and src(c.comparators[0]) == "mode" for c in cmps), "P-empty-mode-same-predicate", "Circuit._add_empty_mode", aem.site(), aem.qualname,
            "every rewrite shifts exactly the indices >= the inserted mode", "the rewrites of _add_empty_mode use different shift predicates", construct=";".join(src(c) for c in cmps))
    her = C.methods["herald"]
    hw = {}
    for n in walk_no_nested(her.node):
        if isinstance(n, ast.Assign) and isinstance(n.targets[0], ast.Subscript) and isinstance(n.targets[0].value, ast.Attribute):
            hw[mangle(cn, n.targets[0].value.attr)] = (src(n.targets[0].slice), src(n.value))
    okh = set(herald_fields) <= set(hw) and len({v[1] for v in hw.values()}) == 1
    ins = [k for k in hw if "in_heralds" in k]
    outs = [k for k in hw if "out_heralds" in k]
    okh = okh and len({hw[k][0] for k in ins}) == 1 and len({hw[k][0] for k in outs}) == 1
    res.add(okh, "P-herald-paired", "Circuit.herald", her.site(), her.qualname, "input/output and external input/output maps are written together with the same photon number",
            f"herald() does not register the herald consistently in all four maps: {hw}", construct=str(sorted(hw.items())))
    aw = []
    for n in walk_no_nested(add.node):
        if isinstance(n, ast.Assign) and isinstance(n.targets[0], ast.Subscript) and isinstance(n.targets[0].value, ast.Attribute) and isinstance(n.targets[0].value.value, ast.Name) and n.targets[0].value.value.id == "self":
            aw.append((mangle(cn, n.targets[0].value.attr), src(n.targets[0].slice), src(n.value)))
    ai = [a for a in aw if "in_heralds" in a[0] and "external" not in a[0]]
    ao = [a for a in aw if "out_heralds" in a[0] and "external" not in a[0]]
    oka = len(ai) == 1 and len(ao) == 1 and ai[0][1:] == ao[0][1:]
    res.add(oka, "P-add-heralds-paired", "Circuit.add", add.site(), add.qualname, "each new ancilla gets the same photon number at input and output on the same full mode",
            f"add() registers the new ancilla differently at input and output: {aw}", construct=str(aw))
    apps = [n for n in walk_no_nested(add.node) if isinstance(n, ast.Call) and isinstance(n.func, ast.Attribute) and n.func.attr == "append" and "internal_modes" in src(n.func.value)]
    emp = [n for n in walk_no_nested(add.node) if isinstance(n, ast.Call) and src(n.func) == "self._add_empty_mode"]
    okp = len(apps) == 1 and len(emp) == 1 and len(emp[0].args) == 2 and src(apps[0].args[0]) == src(emp[0].args[1])
    res.add(okp, "P-add-ancilla-registered", "Circuit.add", add.site(), add.qualname, "the mode inserted into the parent for a herald is registered as internal with the same index",
            "the ancilla mode inserted into the parent is not registered as internal with the same index", construct=";".join(src(x) for x in apps + emp))
    # ---- stale snapshots: a value read from <c>.heralds / <c>.n_modes before a loop that mutates <c>
    #      (through <c>._add_empty_mode) must not be used inside that loop
    ns = 0
    for lp in walk_no_nested(add.node):
        if not isinstance(lp, ast.For):
            continue
        muts = {c.func.value.id for b in lp.body for c in ast.walk(b) if isinstance(c, ast.Call) and isinstance(c.func, ast.Attribute) and c.func.attr == "_add_empty_mode" and isinstance(c.func.value, ast.Name) and c.func.value.id != "self"}
        if not muts:
            continue
        inside_defs = {t.id for b in lp.body for a in ast.walk(b) if isinstance(a, (ast.Assign, ast.AugAssign, ast.For)) for t in ast.walk(a.targets[0] if isinstance(a, ast.Assign) else a.target) if isinstance(t, ast.Name)}
        for X in sorted(muts):
            snaps = {}
            for a in walk_no_nested(add.node):
                if isinstance(a, ast.Assign) and len(a.targets) == 1 and isinstance(a.targets[0], ast.Name) and a.lineno < lp.lineno:
                    if any(isinstance(x, ast.Attribute) and isinstance(x.value, ast.Name) and x.value.id == X and x.attr in ("heralds", "n_modes", "input_modes", "_internal_modes", "_external_heralds") for x in ast.walk(a.value)):
                        snaps[a.targets[0].id] = a
            # later re-definitions before the loop that do not read X any more clear the snapshot
            used = [(n.id, n) for b in lp.body for n in ast.walk(b) if isinstance(n, ast.Name) and isinstance(n.ctx, ast.Load) and n.id in snaps and n.id not in inside_defs]
            ns += 1
            if not used:
                res.ok("S-no-stale-snapshot", f"Circuit.add:loop over {src(lp.iter)[:40]}", add.site(lp), add.qualname, f"herald/mode data of `{X}` is re-read inside the loop that inserts modes into it")
            for name, node in used[:3]:
                res.bad("S-no-stale-snapshot", f"Circuit.add:{name}", add.site(node), add.qualname,
                        f"`{name}` was read from `{X}` (line {snaps[name].lineno}) before this loop, which inserts modes into `{X}` and thereby shifts its heralds; using the stale copy in later iterations mis-places pass-through modes when several ancillas precede a herald",
                        construct=src(snaps[name])[:160])
    res.floor("S mutation loops in add", ns, 1)
    # ---- herald maps keep declaration order when they are rebuilt (add pairs the i-th input herald with the i-th output herald)
    no = 0
    for fi_ in (aem, ctx.func(UTILS, "add_empty_mode_to_circuit_spec")):
        for n in walk_no_nested(fi_.node):
            it = None
            if isinstance(n, ast.For) and ("herald" in src(n.iter) or "_Circuit" in src(n.iter)):
                it = n.iter
            elif isinstance(n, (ast.DictComp, ast.ListComp)) and any("herald" in src(g.iter) for g in n.generators):
                it = n.generators[0].iter
            if it is None:
                continue
            # resolve a local alias of the dictionary
            base = it
            if isinstance(base, ast.Call) and isinstance(base.func, ast.Attribute) and base.func.attr in ("items", "keys", "values"):
                good = True
            elif isinstance(base, ast.Name):
                good = True
            else:
                good = not (isinstance(base, ast.Call) and src(base.func) in ("sorted", "reversed", "set", "frozenset"))
            no += 1
            res.add(good, "P-herald-order-preserved", f"{fi_.qualname}:{src(it)[:50]}", fi_.site(n), fi_.qualname, "rebuilt herald map keeps the declaration order of the old one",
                    f"herald map is rebuilt iterating `{src(it)[:60]}`: declaration order is lost, but Circuit.add pairs the i-th declared input herald with the i-th declared output herald", construct=src(it)[:120])
    res.floor("P herald rebuild loops", no, 1)
    # ---- group-free typestate
    groups = []
    for fi in ctx.ix.all_functions():
        for n in walk_no_nested(fi.node):
            if isinstance(n, ast.Call) and isinstance(n.func, ast.Name) and n.func.id == "Group":
                groups.append((fi, n))
    res.add(len(groups) == 1 and groups[0][0] is add, "G-group-free", "Group() sites", add.site(), add.qualname, "Group is constructed only in Circuit.add",
            f"Group constructed at {[g[0].qualname for g in groups]}", construct=str([g[0].qualname for g in groups]))
    unp = [n for n in walk_no_nested(add.node) if isinstance(n, ast.Call) and isinstance(n.func, ast.Attribute) and n.func.attr == "unpack_groups"]
    copies = [n for n in walk_no_nested(add.node) if isinstance(n, ast.Assign) and isinstance(n.value, ast.Call) and isinstance(n.value.func, ast.Attribute) and n.value.func.attr == "copy" and isinstance(n.targets[0], ast.Name)]
    ok_unp = bool(unp) and bool(copies) and any(isinstance(u.func.value, ast.Name) and u.func.value.id == c.targets[0].id for u in unp for c in copies)
    sel_ok = False
    if ok_unp:
        cname = [c.targets[0].id for c in copies if any(isinstance(u.func.value, ast.Name) and u.func.value.id == c.targets[0].id for u in unp)][0]
        for n in walk_no_nested(add.node):
            if isinstance(n, ast.Assign) and isinstance(n.value, ast.IfExp) and src(n.value.test) == "group" and src(n.value.body) == cname:
                sel_ok = True
            if isinstance(n, ast.If) and src(n.test) == "group" and any(isinstance(b, ast.Assign) and src(b.value) == cname for b in n.body):
                sel_ok = True
    gcall = groups[0][1] if groups else None
    under_group = False
    if gcall is not None:
        par = ctx.tree.parents(add.rel)
        p = gcall
        while p is not None and p is not add.node:
            q = par.get(p)
            if isinstance(q, ast.If):
                t = src(q.test)
                if (t == "not group" and p in q.orelse) or (t == "group" and p in q.body):
                    under_group = True
            p = q
    res.add(ok_unp and sel_ok and under_group, "G-group-free", "Circuit.add:grouped spec is unpacked", add.site(), add.qualname,
            "a Group is only built (under `group`) from the copy on which unpack_groups() was called: groups never nest",
            f"the spec wrapped in a Group may itself contain groups (unpacked copy selected under `group`: {sel_ok}; unpack_groups on the copy: {ok_unp}; Group built only when grouping: {under_group}); nested groups make unpacking loop forever and break compression/adjacency rewrites",
            construct="Group typestate")
    from ..rules import rz_falsy
    nz = rz_falsy.none_checks(ctx, res, "C02", ())
    res.floor("Z functions scanned", nz, 3)
    return res
