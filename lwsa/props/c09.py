"""C09  Circuit rewrites preserve the transformation."""

from __future__ import annotations

import ast

from ..index import mangle, walk_no_nested
from ..report import Result
from ..rules import rc_owner, rh_dispatch
from ..source import AnalysisError, src

CIRC = "lightworks/sdk/circuit/circuit.py"
UTILS = "lightworks/sdk/circuit/circuit_utils.py"


def _appends(fn, lst):
    return [c for c in ast.walk(fn) if isinstance(c, ast.Call) and isinstance(c.func, ast.Attribute) and c.func.attr == "append" and src(c.func.value) == lst]


def check(ctx) -> Result:
    res = Result("C09")
    res.explanation = (
        "Decided (structural): the rewriters run on copies and assign their result (the circuit's herald maps and mode count are not written by "
        "compress_mode_swaps / remove_non_adjacent_bs; unpack_groups only resets the group bookkeeping); every in-place write inside the rewriters is on "
        "a copy made in the same function (copy-on-write components); compress_mode_swaps blocks every mode a later component touches (every mode-bearing "
        "field of every non-identity kind feeds the blocked set, a swap meeting a blocked mode blocks all its modes), appends at most one component per "
        "input component, and composes swap dictionaries as (earlier then later); convert_non_adj_beamsplitters synthesises swap / adjacent beam splitter "
        "/ inverse swap with the orientation of the original modes and recurses into groups; unpack_circuit_spec flattens groups in order; Circuit.copy "
        "and the frozen copy share no container with the original. Not decided: equality of U_full and of heralded amplitudes before and after."
    )
    res.assumptions = ["groups never nest (decided under C02)", "copy/deepcopy semantics"]
    C = ctx.ix.module(CIRC).classes.get("Circuit")
    if C is None:
        raise AnalysisError("Circuit not found")
    cn = C.name
    spec_f = mangle(cn, "__circuit_spec")
    # which receiver fields each rewrite writes
    allowed = {
        "compress_mode_swaps": {spec_f},
        "remove_non_adjacent_bs": {spec_f},
        "unpack_groups": {spec_f, mangle(cn, "__internal_modes"), mangle(cn, "__external_in_heralds"), mangle(cn, "__external_out_heralds")},
    }
    for m, ok_fields in allowed.items():
        fi = C.methods[m]
        s = ctx.eng.summary(fi)
        wr = {ev.field for ev in s.events if ev.kind in ("attr-store", "setattr") and any(l == ("P", "self") for l in ev.locs)}
        deep = [ev for ev in s.events if ev.kind not in ("attr-store", "setattr") and any(rc_owner.loc_steps(l)[0] == ("P", "self") for l in ev.locs)]
        res.add(wr <= ok_fields and spec_f in wr and not deep, "R-rewrite-touches-only-spec", f"Circuit.{m}", fi.site(), fi.qualname, f"assigns {sorted(wr)} and changes nothing else of the circuit in place",
                f"rewrite writes {sorted(wr - ok_fields)} / mutates existing containers in place ({[e.detail for e in deep][:2]}): heralds, mode count or shared structure can change", construct=f"Circuit.{m}")
    # rewriter inputs are deep copies (shares no mutable structure with the list being replaced)
    for m, callee in (("compress_mode_swaps", "compress_mode_swaps"), ("remove_non_adjacent_bs", "convert_non_adj_beamsplitters")):
        fi = C.methods[m]
        calls = [c for c in walk_no_nested(fi.node) if isinstance(c, ast.Call) and src(c.func) == callee]
        if not calls:
            raise AnalysisError(f"Circuit.{m}: call to {callee} not found")
        # the rewriter is reached on every normal path: an early exit that decides "nothing to do" from the top-level
        # components alone skips components inside groups
        cfg_w = ctx.cfg(fi)
        dom_w = cfg_w.dominators()
        call_nodes = [nd.id for nd in cfg_w.nodes if nd.ast is not None and nd.kind == "stmt" and any(x is calls[0] for x in ast.walk(nd.ast))]
        early = [nd for nd in cfg_w.nodes if nd.kind == "stmt" and isinstance(nd.ast, ast.Return) and not any(cn_ in dom_w[nd.id] for cn_ in call_nodes)]
        for nd in early:
            guards = [g for g in cfg_w.nodes if g.kind == "test" and g.id in dom_w[nd.id] and isinstance(g.ast, ast.If)]
            gtxt = " / ".join(src(g.ast.test)[:80] for g in guards)
            if any("isinstance" in src(g.ast.test) and "Group" not in src(g.ast.test) for g in guards):
                res.bad("R-rewrite-reaches-groups", f"Circuit.{m}", fi.site(nd.ast), fi.qualname,
                        f"the rewrite is skipped when `{gtxt}` finds nothing to do among the top-level components: components inside groups are never examined, so the guarantee (also inside groups) is lost", construct=gtxt[:160])
            else:
                res.frozen(False, "R-rewrite-reaches-groups", f"Circuit.{m}", fi.site(nd.ast), fi.qualname, "", f"an early return (under `{gtxt}`) bypasses {callee}", construct=gtxt[:160])
        if not early:
            res.ok("R-rewrite-reaches-groups", f"Circuit.{m}", fi.site(calls[0]), fi.qualname, f"{callee} is applied on every normal path")
        a = calls[0].args[0]
        if isinstance(a, ast.Name):
            d = [x.value for x in walk_no_nested(fi.node) if isinstance(x, ast.Assign) and src(x.targets[0]) == a.id]
            a = d[0] if d else a
        fresh_in = isinstance(a, ast.Call) and src(a.func) in ("deepcopy", "copy.deepcopy")
        # or: the rewriter itself copies every component it changes (C2) and returns a new list
        ufi = ctx.func(UTILS, callee)
        us = ctx.eng.summary(ufi)
        ret_fresh = bool(us.returns.locs) and all(l[0] in ("F", "D") for l in us.returns.locs)
        pm = [ev for ev in us.events if any(rc_owner.loc_steps(l)[0] == ("P", "circuit_spec") for l in ev.locs)]
        res.add((fresh_in or not pm) and ret_fresh, "C3-rewriter-works-on-copy", f"Circuit.{m}", fi.site(calls[0]), fi.qualname, "rewriter receives a deep copy / does not write its input, and returns a new list",
                "rewriter mutates the circuit's live component list or returns it: components shared with copies of the circuit change too" + (": " + pm[0].detail if pm else ""), construct=src(calls[0]))
    n2 = rc_owner.c2_copy_on_write(ctx, res)
    res.floor("C2 component writes", n2, 20)
    for qn in ("Circuit.copy", "Circuit._get_circuit_spec"):
        rc_owner.c3_fresh_fields(ctx, res, ctx.func(CIRC, qn))
    # frozen copy: deep copy before substitution
    cp = ctx.func(CIRC, "Circuit.copy")
    fz = [c for c in walk_no_nested(cp.node) if isinstance(c, ast.Call) and src(c.func) == "self._freeze_params"]
    arg = fz[0].args[0] if fz else None
    if isinstance(arg, ast.Name):
        d = [x.value for x in walk_no_nested(cp.node) if isinstance(x, ast.Assign) and src(x.targets[0]) == arg.id]
        arg = d[0] if d else arg
    res.add(arg is not None and "deepcopy" in src(arg), "C3-frozen-copy-deep", "Circuit.copy", cp.site(), cp.qualname, "frozen copy substitutes values in a deep copy", "frozen copy substitutes parameter values in components shared with the original", construct=src(fz[0]) if fz else "")

    # ---- compress_mode_swaps
    cms = ctx.func(UTILS, "compress_mode_swaps")
    rh_dispatch.h2_touches(ctx, res, cms, "spec2", "blocked_modes")
    # Group / UnitaryMatrix ranges are inclusive of the last mode (whatever form the loop / update takes)
    from ..rules.rh_dispatch import branch_for, find_dispatch, heads
    found = find_dispatch(ctx, cms, "spec2")
    if found is None:
        res.frozen(False, "H2-blocked-range-complete", "compress_mode_swaps", cms.site(), cms.qualname, "", "dispatch over the later component not recognised", construct="")
    else:
        dfi, dnode, dv, _p = found
        chains = list(heads(dnode, dv))
        def local(name, body):
            d = [a.value for s_ in body for a in ast.walk(s_) if isinstance(a, ast.Assign) and src(a.targets[0]) == name]
            return src(d[0]).replace(" ", "") if len(d) == 1 else name
        for kind, want in (("Group", (f"{dv}.mode_1", f"{dv}.mode_2+1")), ("UnitaryMatrix", (f"{dv}.mode", f"{dv}.mode+{dv}.unitary.shape[0]"))):
            _ks, body, node = branch_for(kind, chains[0][1], ctx)
            rngs = [c for s_ in body for c in ast.walk(s_) if isinstance(c, ast.Call) and src(c.func) == "range" and len(c.args) >= 2]
            okr = False
            got = []
            for c in rngs:
                a = [src(x).replace(" ", "") for x in c.args[:2]]
                # resolve single-assignment locals such as n = spec2.unitary.shape[0]
                for nm in {x.id for x in ast.walk(c.args[1]) if isinstance(x, ast.Name)} - {dv}:
                    a[1] = a[1].replace(nm, local(nm, body))
                got.append(a)
                if tuple(a) == want or (a[0] == want[0] and a[1] in (want[1], "+".join(reversed(want[1].split("+", 1))))):
                    okr = True
            if not rngs:
                res.frozen(False, "H2-blocked-range-complete", f"compress_mode_swaps:{kind}", dfi.site(node) if node is not None else dfi.site(), dfi.qualname, "", f"no range(...) over the modes of a {kind} recognised", construct="")
            else:
                res.add(okr, "H2-blocked-range-complete", f"compress_mode_swaps:{kind}", dfi.site(node) if node is not None else dfi.site(), dfi.qualname, f"blocks range({want[0]}, {want[1]}): every mode of the component",
                        f"the modes blocked for a {kind} are {got}, not range({want[0]}, {want[1]}): its last mode is left free, so a swap touching it is commuted across the component", construct=str(got))
    # swap meeting a blocked mode blocks all its modes, else combined.  Recognised forms of the decision:
    #   for m in S: if m in blocked: <block all>; break   else: <combine>
    #   if any(m in blocked for m in S): <block all>  else: <combine>      (also set intersection / isdisjoint)
    from ..inline import inlined
    from ..inline import else_normal as _en
    cmsi = inlined(_en(cms.node))
    S = "spec2.swaps"
    conflict = noconf = sw = None
    for n in walk_no_nested(cmsi):
        if isinstance(n, ast.For) and src(n.iter) in (S, f"{S}.keys()", f"list({S})") and n.orelse and isinstance(n.target, ast.Name):
            tst = [i for i in n.body if isinstance(i, ast.If)]
            if tst and src(tst[0].test).replace(" ", "") == f"{n.target.id}inblocked_modes" and any(isinstance(b, ast.Break) for b in tst[0].body):
                sw, conflict, noconf = n, tst[0].body, n.orelse
        if isinstance(n, ast.If) and n.orelse:
            t = src(n.test).replace(" ", "")
            for fnm in ("any", "all"):
                t = t.replace(f"{fnm}((", f"{fnm}(")
            while t.endswith("))") and t.count("(") < t.count(")"):
                t = t[:-1]
            forms_pos = (f"any(minblocked_modesformin{S})", f"blocked_modes&set({S})", f"blocked_modes.intersection({S})", f"notblocked_modes.isdisjoint({S})", f"blocked_modes&{S}.keys()")
            forms_neg = (f"blocked_modes.isdisjoint({S})", f"notany(minblocked_modesformin{S})", f"all(mnotinblocked_modesformin{S})", f"not(blocked_modes&set({S}))", f"notblocked_modes&set({S})")
            import re as _re
            tn = _re.sub(r"\b(\w+)(?=inblocked_modesfor\1in|notinblocked_modesfor\1in)", "m", t)
            tn = _re.sub(r"for\w+in" + _re.escape(S), "formin" + S, tn)
            if tn in forms_pos:
                sw, conflict, noconf = n, n.body, n.orelse
            elif tn in forms_neg:
                sw, conflict, noconf = n, n.orelse, n.body
    if sw is None:
        res.frozen(False, "R-blocked-swap-blocks-all", "compress_mode_swaps", cms.site(), cms.qualname, "", "decision `does the later swap touch a blocked mode` not recognised", construct="")
        skips = [c for c in ast.walk(cmsi) if isinstance(c, ast.Call) and src(c.func) == "to_skip.append"]
    else:
        cw = [x for b in conflict for x in ast.walk(b)]
        nw = [x for b in noconf for x in ast.walk(b)]
        blocks_all = any((isinstance(x, ast.For) and src(x.iter) in (S, f"{S}.keys()") and "blocked_modes.add" in src(x)) or (isinstance(x, ast.Call) and src(x.func) == "blocked_modes.update" and x.args and src(x.args[0]) in (S, f"{S}.keys()", f"set({S})"))
                         or (isinstance(x, ast.AugAssign) and src(x.target) == "blocked_modes" and isinstance(x.op, ast.BitOr) and S in src(x.value)) for x in cw)
        merged_in_conflict = any(isinstance(x, ast.Call) and src(x.func) == "combine_mode_swap_dicts" for x in cw)
        if merged_in_conflict:
            res.bad("R-blocked-swap-blocks-all", "compress_mode_swaps", cms.site(sw), cms.qualname, "a swap touching a blocked mode is merged anyway", construct=src(sw)[:200])
        else:
            touches = any((isinstance(x, ast.Name) and x.id == "blocked_modes") for x in cw)
            if blocks_all:
                res.ok("R-blocked-swap-blocks-all", "compress_mode_swaps", cms.site(sw), cms.qualname, "a later swap that touches a blocked mode blocks all of its modes and is not merged")
            elif not touches:
                res.bad("R-blocked-swap-blocks-all", "compress_mode_swaps", cms.site(sw), cms.qualname, "a later swap that touches a blocked mode is left in place but its other modes are not added to the blocked set: a further swap on those modes is then merged backwards across it although the two do not commute", construct=src(sw)[:200])
            else:
                res.frozen(False, "R-blocked-swap-blocks-all", "compress_mode_swaps", cms.site(sw), cms.qualname, "", "blocking of all modes of a conflicting swap not recognised", construct=src(sw)[:200])
        comb = [c for c in ast.walk(cmsi) if isinstance(c, ast.Call) and src(c.func) == "combine_mode_swap_dicts"]
        if len(comb) == 1 and comb[0] in nw and len(comb[0].args) == 2:
            args = [src(a_) for a_ in comb[0].args]
            if args == ["spec.swaps", S]:
                res.ok("R-compose-earlier-then-later", "compress_mode_swaps", cms.site(sw), cms.qualname, "combine(earlier swap, later swap) in the no-conflict branch only")
            elif args == [S, "spec.swaps"]:
                res.bad("R-compose-earlier-then-later", "compress_mode_swaps", cms.site(comb[0]), cms.qualname, "swap dictionaries are combined in the wrong order (later, earlier)", construct=src(comb[0]))
            else:
                res.frozen(False, "R-compose-earlier-then-later", "compress_mode_swaps", cms.site(comb[0]), cms.qualname, "", f"arguments of combine_mode_swap_dicts not recognised: {args}", construct=src(comb[0]))
        else:
            res.frozen(False, "R-compose-earlier-then-later", "compress_mode_swaps", cms.site(sw), cms.qualname, "", "single combine call in the no-conflict branch not recognised", construct="")
        skips = [c for c in nw if isinstance(c, ast.Call) and src(c.func) == "to_skip.append"]
        res.frozen(len(skips) == 1 and src(skips[0].args[0]).replace(" ", "") in ("i+1+j", "i+j+1", "j+i+1", "1+i+j"), "R-merged-swap-skipped", "compress_mode_swaps", cms.site(sw), cms.qualname, "the merged later swap (index i+1+j) is skipped", "the merged swap is not skipped (applied twice) or the wrong component is skipped", construct=src(skips[0]) if skips else "")
    # consume-once: an index put into to_skip (its swap was merged into an earlier one) must be excluded from every
    # later scan that can merge again - the outer loop and the inner look-ahead
    if skips:
        consumed = src(skips[0].args[0]).replace(" ", "")
        par = {c_: n_ for n_ in ast.walk(cmsi) for c_ in ast.iter_child_nodes(n_)}
        chain = []
        p_ = skips[0]
        while p_ is not None and p_ is not cmsi:
            p_ = par.get(p_)
            if isinstance(p_, ast.For) and "circuit_spec" in src(p_.iter):
                chain.append(p_)
        for lp in chain:
            guards = [n for n in lp.body if isinstance(n, ast.If) and any(isinstance(b, ast.Continue) for b in n.body) and isinstance(n.test, ast.Compare) and isinstance(n.test.ops[0], ast.In) and src(n.test.comparators[0]) == "to_skip"]
            idx = {src(g.test.left).replace(" ", "") for g in guards}
            is_inner = "circuit_spec[i + 1" in src(lp.iter) or "circuit_spec[i+1" in src(lp.iter).replace(" ", "")
            want = consumed if is_inner else "i"
            res.add(want in idx, "M5-merged-swap-consumed-once", f"compress_mode_swaps:for {src(lp.target)}", cms.site(lp), cms.qualname, f"components already merged (index {want} in to_skip) are skipped by this loop",
                    f"the {'look-ahead' if is_inner else 'outer'} loop does not skip components whose index ({want}) is already in to_skip: a swap that was merged into an earlier swap is merged a second time by a later one, so it is applied twice and U_full changes",
                    construct=src(lp.iter))
    encl = [l for l in walk_no_nested(cms.node) if isinstance(l, ast.For) and "enumerate(circuit_spec[i + 1:])" in src(l.iter).replace("[i + 1 :]", "[i + 1:]")]
    res.frozen(bool(encl), "R-merged-swap-skipped", "compress_mode_swaps:scan", cms.site(), cms.qualname, "later components are scanned from position i+1", "scan of later components does not start right after the swap", construct="scan")
    # M5: at most one append per input component on every path through one iteration of the outer loop
    from ..cfg import CFG, forward
    outer = [l for l in cms.node.body if isinstance(l, ast.For)]
    apps = _appends(cms.node, "new_spec")
    if not outer or not apps:
        res.frozen(False, "M5-no-growth", "compress_mode_swaps", cms.site(), cms.qualname, "", "outer loop / appends to new_spec not recognised", construct="")
    else:
        cfgc = ctx.cfg(cms)
        hdr = [n for n in cfgc.nodes if n.kind == "for" and n.ast is outer[0]]
        appset = {id(a_) for a_ in apps}
        def tr(n, st, lab):
            if hdr and n.id == hdr[0].id:
                return 0 if lab == "true" else st
            if n.kind == "stmt" and n.ast is not None and any(id(x) in appset for x in ast.walk(n.ast)):
                return min(st + 1, 2)
            return st
        IN = forward(cfgc, 0, tr, max, edge_filter=lambda n, t, lab: lab not in ("exc", "raise"))
        # value flowing back into the header = appends made during one iteration
        back = 0
        if hdr:
            for pid, lab in hdr[0].pred:
                if IN.get(pid) is not None and pid != cfgc.entry.id:
                    v = tr(cfgc.nodes[pid], IN[pid], lab)
                    if cfgc.nodes[pid].lineno >= outer[0].lineno:
                        back = max(back, v)
        res.add(bool(hdr) and back <= 1, "M5-no-growth", "compress_mode_swaps", cms.site(), cms.qualname, "at most one component is appended per input component on every path", "more than one component can be appended per input component (the number of components may grow)", construct=f"{len(apps)} appends, max {back} per iteration")
    # ---- combine_mode_swap_dicts
    cmb = ctx.func(UTILS, "combine_mode_swap_dicts")
    good = False
    for n in walk_no_nested(cmb.node):
        if isinstance(n, ast.If) and isinstance(n.test, ast.Compare) and isinstance(n.test.ops[0], ast.Eq):
            sides = {src(n.test.left), src(n.test.comparators[0])}
            for a in n.body:
                if isinstance(a, ast.Assign) and isinstance(a.targets[0], ast.Subscript) and src(a.targets[0].value) == "new_swaps":
                    k = src(a.targets[0].slice)
                    v = a.value
                    if isinstance(v, ast.Subscript) and src(v.value) == "swaps2" and {f"swaps1[{k}]", src(v.slice)} == sides:
                        good = True
    res.frozen(good, "R-compose-earlier-then-later", "combine_mode_swap_dicts", cmb.site(), cmb.qualname, "combined[k] = swaps2[swaps1[k]]", "composition is not swaps2 after swaps1", construct="compose")
    rest = any(isinstance(n, ast.If) and "not in added_swaps" in src(n.test) and any("new_swaps[s2] = swaps2[s2]" == src(b) for b in n.body) for n in walk_no_nested(cmb.node))
    keep = any(isinstance(n, ast.For) and n.orelse and any(src(b) == "new_swaps[s1] = swaps1[s1]" for b in n.orelse) for n in walk_no_nested(cmb.node))
    res.frozen(rest and keep, "R-compose-earlier-then-later", "combine_mode_swap_dicts:unmatched", cmb.site(), cmb.qualname, "entries of either dictionary without a partner are carried over", "entries without a partner in the other dictionary are dropped", construct="carry-over")
    # ---- convert_non_adj_beamsplitters: per path of the loop body, for an element that is a BeamSplitter
    from ..paths import Walker as _PW
    from ..rules.rm_struct import _isinstance_truth
    cv = ctx.func(UTILS, "convert_non_adj_beamsplitters")
    loops_cv = [l for l in cv.node.body if isinstance(l, ast.For) and isinstance(l.target, ast.Name)]
    if not loops_cv:
        res.frozen(False, "R-swap-bs-unswap", "convert_non_adj_beamsplitters", cv.site(), cv.qualname, "", "loop over the component list not recognised", construct="")
    else:
        lp_cv = loops_cv[0]
        el = lp_cv.target.id
        bs_mro = {c.name for c in ctx.ix.mro(ctx.ix.cls("BeamSplitter"))}
        w = _PW(el, lambda t: _isinstance_truth(ctx, t, el, bs_mro))
        pths = w.run(lp_cv.body)
        def adj_cond(p_):
            """truth of `the beam splitter is not on adjacent modes` on this path, or None"""
            for k, v in p_.cond.items():
                if k.startswith("abs(") and (f"{el}.mode_1" in k and f"{el}.mode_2" in k):
                    if k.endswith("!=1"):
                        return v
                    if k.endswith("==1"):
                        return not v
            return None
        def inv_cond(p_):
            for k, v in p_.cond.items():
                if k in (f"{el}.mode_1>{el}.mode_2", f"{el}.mode_2<{el}.mode_1"):
                    return v
                if k in (f"{el}.mode_1<{el}.mode_2", f"{el}.mode_2>{el}.mode_1", f"{el}.mode_1<={el}.mode_2", f"{el}.mode_2>={el}.mode_1"):
                    return not v
            return None
        n_triple = 0
        problems, undecided = [], []
        orient_seen = set()
        for p_ in pths:
            if p_.end == "raise":
                continue
            evs = [e for e in p_.events]
            kinds_ = [e[2] if e[0] == "append" else "repeat:" + str(e[2]) for e in evs]
            nonadj = adj_cond(p_)
            if len(evs) == 1 and evs[0][0] == "append" and evs[0][2] is None and evs[0][3] == [el]:
                if nonadj is True:
                    problems.append((evs[0][4], "a beam splitter on non-adjacent modes is carried over unchanged"))
                continue
            if kinds_ != ["ModeSwaps", "BeamSplitter", "ModeSwaps"]:
                problems.append((evs[0][4] if evs else lp_cv, f"replacement sequence is {kinds_}, not swap - adjacent beam splitter - swap back"))
                continue
            n_triple += 1
            if nonadj is None:
                undecided.append("condition under which a beam splitter is replaced not recognised")
            elif nonadj is False:
                problems.append((evs[0][4], "a beam splitter on adjacent modes is replaced"))
            s_in, s_out = evs[0][3], evs[2][3]
            if len(s_in) != 1 or len(s_out) != 1:
                undecided.append("swap arguments not recognised")
            elif s_out[0] != f"inv({s_in[0]})":
                if s_out[0] == s_in[0]:
                    problems.append((evs[2][4], "the closing swap is the opening swap again, not its inverse: for a span of three or more modes the intermediate modes are not returned to their places"))
                else:
                    undecided.append(f"closing swap `{s_out[0]}` not recognised as the key/value inversion of `{s_in[0]}`")
            args = evs[1][3]
            if len(args) < 4:
                undecided.append("arguments of the adjacent beam splitter not recognised")
            else:
                a1, a2, r_, c_ = args[:4]
                if (r_, c_) != (f"{el}.reflectivity", f"{el}.convention"):
                    problems.append((evs[1][4], f"the adjacent beam splitter is built with ({r_}, {c_}) instead of the reflectivity and convention of the original"))
                inv_ = inv_cond(p_)
                up = a2 == f"{a1}+1" or a2 == f"1+{a1}"
                down = a1 == f"{a2}+1" or a1 == f"1+{a2}"
                if not (up or down):
                    undecided.append(f"modes of the adjacent beam splitter ({a1}, {a2}) not recognised as (mid, mid+1)")
                elif inv_ is None:
                    undecided.append("orientation test (mode_1 > mode_2) not found on the path")
                else:
                    orient_seen.add(inv_)
                    if (inv_ and not down) or (not inv_ and not up):
                        problems.append((evs[1][4], f"the adjacent beam splitter is placed on ({a1}, {a2}) when mode_1 {'>' if inv_ else '<'} mode_2: the orientation of the original is not kept (matters for the asymmetric 'H' convention)"))
        if w.overflow:
            undecided.append("too many paths")
        if n_triple == 0 and not problems:
            res.frozen(False, "R-swap-bs-unswap", "convert_non_adj_beamsplitters", cv.site(lp_cv), cv.qualname, "", "no path appends swap - beam splitter - swap", construct="")
        elif problems:
            seen_msgs = set()
            for node_, msg in problems:
                if msg in seen_msgs:
                    continue
                seen_msgs.add(msg)
                res.bad("R-swap-bs-unswap", "convert_non_adj_beamsplitters", cv.site(node_), cv.qualname, msg, construct=src(node_)[:120])
        elif undecided:
            res.frozen(False, "R-swap-bs-unswap", "convert_non_adj_beamsplitters", cv.site(lp_cv), cv.qualname, "", "; ".join(sorted(set(undecided))), construct="")
        else:
            res.ok("R-swap-bs-unswap", "convert_non_adj_beamsplitters", cv.site(lp_cv), cv.qualname, f"on all {n_triple} replacement paths: swap S, beam splitter on (mid, mid+1) oriented like the original with its reflectivity and convention, swap inv(S); adjacent beam splitters are kept")
        res.count("bs_replacement_paths", n_triple)
        # groups are rewritten recursively (for an element that is a Group, some path assigns the recursive result)
        rec = [a for a in ast.walk(lp_cv) if isinstance(a, ast.Assign) and isinstance(a.targets[0], ast.Attribute) and a.targets[0].attr == "circuit_spec" and isinstance(a.value, ast.Call) and src(a.value.func) == cv.name]
        if rec:
            res.ok("H1-recursion-into-groups", "convert_non_adj_beamsplitters", cv.site(rec[0]), cv.qualname, "groups are rewritten recursively")
        else:
            res.bad("H1-recursion-into-groups", "convert_non_adj_beamsplitters", cv.site(), cv.qualname, "beam splitters inside groups are not rewritten (no recursive call stores into <group>.circuit_spec)", construct="group recursion")
    # ---- unpack_circuit_spec
    up = ctx.func(UTILS, "unpack_circuit_spec")
    wl = [n for n in walk_no_nested(up.node) if isinstance(n, ast.While)]
    okw = bool(wl) and "isinstance(s, Group)" in src(wl[0].test) and "any(" in src(wl[0].test)
    aug = [a for a in ast.walk(up.node) if isinstance(a, ast.AugAssign)]
    oka = len(aug) == 2 and {src(a.value) for a in aug} == {"[spec]", "spec.circuit_spec"}
    res.frozen(okw and oka, "R-unpack-flattens-in-order", "unpack_circuit_spec", up.site(), up.qualname, "repeats until no Group remains; members replace their group in place, in order", "group flattening changed (order / completeness)", construct=src(up.node)[-200:])
    ug = C.methods["unpack_groups"]
    res.frozen("unpack_circuit_spec(self.__circuit_spec)" in src(ug.node), "R-unpack-flattens-in-order", "Circuit.unpack_groups", ug.site(), ug.qualname, "assigns the flattened list", "unpack_groups no longer assigns the flattened component list", construct="unpack_groups")
    from ..rules import rz_falsy
    nz = rz_falsy.none_checks(ctx, res, "C09", ())
    res.floor("Z functions scanned", nz, 3)
    return res
