"""C07  Sampling draws from the exact detected, heralded, post-selected distribution."""

from __future__ import annotations

import ast

from ..guards import Normaliser
from ..index import walk_no_nested
from ..report import Result
from ..rules import rb_states, re_guards, rg_mass, ri_order
from ..source import AnalysisError, src

SAM = "lightworks/emulator/simulation/sampler.py"
QS = "lightworks/emulator/simulation/quick_sampler.py"
DET = "lightworks/emulator/components/detector.py"


def check(ctx) -> Result:
    res = Result("C07")
    res.explanation = (
        "Decided (def-use / ordering / polarity facts, for all settings): Sampler.sample_N_inputs applies, per drawn sample, detector response -> herald "
        "test on the detector output for every output herald -> herald-mode removal -> post-selection AND n_photons >= min_detection on that same visible "
        "value -> append that value; sample_N_outputs applies threshold map -> herald test -> removal -> filters -> accumulation -> renormalisation -> one draw "
        "of size N whose samples are all counted; dark counts and multi-photon heralds with threshold detectors are refused before sampling; the detector "
        "stages run efficiency -> dark counts -> threshold with the right comparison polarity, one draw per photon and one per mode; every random draw of a "
        "seeded API uses a generator built from the seed or the detector generator seeded first; returned states are visible-space. Not decided: convergence "
        "of empirical frequencies, acceptance fractions, numpy's sampler."
    )
    res.assumptions = ["numpy Generator.choice samples the given categorical distribution", "random.seed/random.random share the module-level generator"]
    sam = ctx.ix.module(SAM).classes.get("Sampler")
    qs = ctx.ix.module(QS).classes.get("QuickSampler")
    det = ctx.ix.module(DET).classes.get("Detector")
    if not (sam and qs and det):
        raise AnalysisError("Sampler / QuickSampler / Detector not found")
    ri_order.detector_stages(ctx, res, det)
    ni, no = sam.methods["sample_N_inputs"], sam.methods["sample_N_outputs"]
    ri_order.sample_n_inputs_pipeline(ctx, res, ni)
    ri_order.sample_n_outputs_pipeline(ctx, res, no)
    ri_order.refusals(ctx, res, ni, need_dark=False)
    ri_order.refusals(ctx, res, no, need_dark=True)
    # memo tables used for herald removal are re-created whenever the configuration changes
    from ..index import mangle
    from ..rules.rf_cache import CacheModel
    model = CacheModel(ctx, sam)
    for f in (ni, no):
        memo = {mangle("Sampler", n.value.attr) for n in walk_no_nested(f.node) if isinstance(n, ast.Subscript) and isinstance(n.value, ast.Attribute) and src(n.value.value) == "self" and isinstance(n.ctx, ast.Load)}
        for m in sorted(memo):
            res.add(m in model.cache_fields, "I-herald-removal-table-fresh", f"{f.qualname}:{m}", f.site(), f.qualname, "lookup table is rebuilt by the staleness-guarded refresh",
                    f"the herald-removal lookup {m} is not re-created when the configuration (e.g. the circuit's heralds) changes: states are returned with the modes of an earlier configuration removed", construct=m)
    for f in (ni, no):
        ri_order.seeds(ctx, res, f, det)
    qn = qs.methods["sample_N_outputs"]
    ri_order.seeds(ctx, res, qn, None)
    ch = [c for c in walk_no_nested(qn.node) if isinstance(c, ast.Call) and src(c.func).endswith(".choice")]
    kw = {k.arg: src(k.value) for k in ch[0].keywords} if ch else {}
    pd = [a for a in walk_no_nested(qn.node) if isinstance(a, ast.Assign) and src(a.value) == "self.probability_distribution"]
    res.add(bool(ch) and kw.get("size") == "N" and bool(pd) and src(pd[0].targets[0]) in kw.get("p", ""), "I-exactly-N", qn.qualname, qn.site(), qn.qualname, "draws size=N from the refreshed distribution",
            "quick sampler does not draw exactly N samples from its refreshed distribution", construct=src(ch[0]) if ch else "")
    # probabilities handed to choice are those of the iterated keys (same dict, same order)
    for f in (ni, qn):
        vals = [l for l in walk_no_nested(f.node) if isinstance(l, ast.For) and src(l.iter).replace(" ", "") == "enumerate(pdist.keys())"]
        chs = [c for c in walk_no_nested(f.node) if isinstance(c, ast.Call) and src(c.func).endswith(".choice")]
        def p_src(c):
            for k in c.keywords:
                if k.arg == "p":
                    e = k.value
                    if isinstance(e, ast.Name):
                        d = [a.value for a in walk_no_nested(f.node) if isinstance(a, ast.Assign) and src(a.targets[0]) == e.id]
                        return " ".join(src(x) for x in d)
                    return src(e)
            return ""
        ok = bool(vals) and bool(chs) and all("pdist.values()" in p_src(c) and src(c.args[0]) == "vals" for c in chs)
        res.frozen(ok, "I-keys-values-aligned", f.qualname, f.site(), f.qualname, "states and probabilities are taken from the same dictionary in the same order", "states and probabilities handed to the draw may be misaligned", construct=src(chs[0])[:120] if chs else "")
    # single-shot samplers use the refreshed continuous distribution with `<`
    for ci in (sam, qs):
        f = ci.methods["sample"]
        lp = [l for l in walk_no_nested(f.node) if isinstance(l, ast.For) and src(l.iter) == "self.continuous_distribution.items()"]
        cmpn = [c for c in walk_no_nested(f.node) if isinstance(c, ast.Compare)]
        ok = bool(lp) and len(cmpn) == 1 and isinstance(cmpn[0].ops[0], ast.Lt) and src(cmpn[0].left) == "pval"
        res.frozen(ok, "I-inverse-cdf", f.qualname, f.site(), f.qualname, "inverse-CDF sampling: first state whose cumulative probability exceeds the draw", "single-shot sampling is no longer an inverse-CDF lookup over the refreshed cumulative distribution", construct=src(cmpn[0]) if cmpn else "")
    # cumulative distribution is a running sum in key order
    for ci in (sam, qs):
        f = ci.methods["_convert_to_continuous"]
        aug = [a for a in walk_no_nested(f.node) if isinstance(a, ast.AugAssign) and isinstance(a.op, ast.Add)]
        st = [a for a in walk_no_nested(f.node) if isinstance(a, ast.Assign) and isinstance(a.targets[0], ast.Subscript)]
        ok = len(aug) == 1 and len(st) == 1 and src(aug[0].target) in src(st[0].value) and aug[0].lineno < st[0].lineno
        res.frozen(ok, "I-inverse-cdf", f.qualname, f.site(), f.qualname, "cumulative value stored after adding the state's own probability", "cumulative distribution is not the inclusive running sum", construct=src(f.node)[:100])
    # visible-space results (K1 is a known finding)
    n = rb_states.run(ctx, res, only=["Sampler.", "QuickSampler."], rules={"B4-public-result-visible", "B1-post-selection-visible", "B3-herald-side", "B5-counts-same-space"})
    res.floor("B4 checks", n, 6)
    ng = rg_mass.check_function(ctx, res, no)
    res.floor("G stores in sample_N_outputs", ng, 1)
    # detector parameter validators
    norm = Normaliser(lambda e: repr(e.value) if isinstance(e, ast.Constant) else None)
    for nm in ("efficiency", "p_dark"):
        re_guards.range_validator(ctx, res, det.setters[nm], "value", 0, 1, norm=norm, label=f"Detector.{nm}")
    from ..rules import rz_falsy
    nz = rz_falsy.none_checks(ctx, res, "C07", rz_falsy.EMULATOR_EXTRA)
    res.floor("Z functions scanned", nz, 3)
    return res
