"""C01  A circuit compiles to the ordered product of its components."""

from __future__ import annotations

import ast

from ..guards import Normaliser
from ..report import Result
from ..rules import ra_modes, re_guards, rm_struct
from ..source import AnalysisError

CIRC = "lightworks/sdk/circuit/circuit.py"
COMPILER = "lightworks/sdk/circuit/compiler.py"
COMPS = "lightworks/sdk/circuit/components.py"
PERM = "lightworks/sdk/utils/permutation_conversion.py"
UTILS = "lightworks/sdk/circuit/circuit_utils.py"


def check(ctx) -> Result:
    res = Result("C01")
    res.explanation = (
        "Decided (structural necessary conditions): (A1-A3) in the six primitive mutators every user mode argument is mapped to the full "
        "mode space exactly once, range/type-checked, and only then recorded (qualifier propagation USER/FULL over all paths; validated-"
        "before-recorded must-analysis); the range check accepts exactly [0, n_modes); (M1) the compiler multiplies each component matrix "
        "from the left, groups in list order; (M2) exactly one extra row/column per Loss, component matrices sized n_modes+loss_modes, U is "
        "the leading block of U_full; (M3) each component writes exactly the entries of its own mode block, each once; (M4) a swap k->v is "
        "stored at [v,k] and absent modes map to themselves. Not decided: the numeric values written (cos/sin, sqrt(1-loss)), unitarity of "
        "the product, float behaviour at the range ends."
    )
    res.assumptions = ["numpy matrix product / identity / pad semantics", "component constructors record their arguments unchanged (dataclasses)"]
    C = ctx.ix.module(CIRC).classes.get("Circuit")
    if C is None:
        raise AnalysisError("Circuit not found")
    st = ra_modes.check_mutators(ctx, res, C, ["bs", "ps", "loss", "barrier", "mode_swaps", "herald"])
    res.floor("A mode sinks", st["sinks"], 20)
    res.floor("A mapper calls", st["map_calls"], 8)
    res.floor("A3 recorded user indices", st["a3"], 5)
    mir = C.methods["_mode_in_range"]
    norm = Normaliser(lambda e: repr(e.value) if isinstance(e, ast.Constant) else None)
    re_guards.range_validator(ctx, res, mir, "mode", 0, "self.n_modes", hi_strict=True, norm=norm, rule="E-mode-range")
    cc = ctx.ix.module(COMPILER).classes.get("CompiledCircuit")
    add = cc.methods["add"]
    rm_struct.m1_left_multiplication(ctx, res, add)
    rm_struct.m2_loss_shape(ctx, res, add, ctx.func(CIRC, "Circuit.U", "getter"), cc.getters["total_modes"])
    comps = ctx.ix.module(COMPS).classes
    rm_struct.m3_block_coverage(ctx, res, comps["BeamSplitter"].methods["get_unitary"], ["self.mode_1", "self.mode_2"])
    rm_struct.m3_block_coverage(ctx, res, comps["PhaseShifter"].methods["get_unitary"], ["self.mode"])
    rm_struct.m3_block_coverage(ctx, res, comps["Loss"].methods["get_unitary"], ["self.mode"], ["n_modes - 1"])
    rm_struct.m3_slice_block(ctx, res, comps["UnitaryMatrix"].methods["get_unitary"])
    rm_struct.m4_permutation_orientation(ctx, res, ctx.func(PERM, "permutation_mat_from_swaps_dict"))
    # Barrier contributes nothing; ModeSwaps delegates to the permutation builder
    b = comps["Barrier"].methods["get_unitary"]
    from ..source import src
    from ..index import walk_no_nested
    rets = [r for r in walk_no_nested(b.node) if isinstance(r, ast.Return)]
    skip = any(isinstance(n, ast.If) and "Barrier" in src(n.test) and all(isinstance(x, ast.Pass) for x in n.body) for n in walk_no_nested(add.node))
    res.add(skip or (len(rets) == 1 and "identity" in src(rets[0].value)), "M1-barrier-identity", "Barrier", b.site(), b.qualname, "a barrier contributes the identity", "a barrier changes the compiled unitary", construct="Barrier")
    ms = comps["ModeSwaps"].methods["get_unitary"]
    rets = [r for r in walk_no_nested(ms.node) if isinstance(r, ast.Return)]
    res.add(len(rets) == 1 and src(rets[0].value).replace(" ", "") == "permutation_mat_from_swaps_dict(self.swaps,n_modes)", "M4-permutation-orientation", "ModeSwaps.get_unitary", ms.site(), ms.qualname,
            "ModeSwaps compiles through permutation_mat_from_swaps_dict(self.swaps, n_modes)", "ModeSwaps no longer compiles its swap dictionary through the checked permutation builder", construct=src(rets[0].value) if rets else "")
    # the unitary block is copied at construction (later edits of the caller's array must not change the circuit)
    um = comps["UnitaryMatrix"]
    post = um.methods.get("__post_init__")
    if post is None:
        raise AnalysisError("UnitaryMatrix.__post_init__ not found")
    sm = ctx.eng.summary(post)
    ent = sm.heap.get((("P", "self"), "unitary"))
    locs = ent[0].locs if ent else frozenset({("f", ("P", "self"), "unitary")})
    res.add(bool(ent) and all(l[0] == "F" for l in locs), "C3-block-copied-at-construction", "UnitaryMatrix.__post_init__", post.site(), post.qualname, "stores a new array (np.array copies)",
            "UnitaryMatrix keeps a reference to (or a view of) the caller's array: editing that array later silently changes circuits it was already added to", construct="unitary field aliases constructor argument")
    rm_struct.m3_block_unitary(ctx, res, comps["BeamSplitter"].methods["get_unitary"], {"theta": "angle"})
    rm_struct.m3_block_unitary(ctx, res, comps["PhaseShifter"].methods["get_unitary"], {"self._phi": "angle"})
    rm_struct.m3_block_unitary(ctx, res, comps["Loss"].methods["get_unitary"], {"transmission ** 0.5": "a", "(1 - transmission) ** 0.5": "b"})
    # compiling is read-only and components are only written on copies: U is the product for the *current* parameter
    # values only if no read (U, copy, display, frozen copy) replaces or re-binds what a live component holds
    from ..rules import rc_owner as _rc
    from .c08 import READONLY as _RO
    _rc.c1_self_readonly(ctx, res, _RO)
    _rc.c2_copy_on_write(ctx, res)
    # check_loss validated before append is covered by D (C08); here: accepted range of check_loss
    re_guards.range_validator(ctx, res, ctx.func(UTILS, "check_loss"), "loss", 0, 1, norm=norm)
    from ..rules import rz_falsy
    nz = rz_falsy.none_checks(ctx, res, "C01", ())
    res.floor("Z functions scanned", nz, 3)
    return res
