"""C06  Imperfect-source model: normalised mixture of distinguishable photon groups."""

from __future__ import annotations

import ast

from ..fold import Folder, NotFoldable
from ..guards import Normaliser
from ..index import walk_no_nested
from ..poly import Poly
from ..report import Result
from ..rules import re_guards, rg_mass
from ..source import AnalysisError, src

SRC = "lightworks/emulator/components/source.py"
PD = "lightworks/emulator/simulation/probability_distribution.py"


def check(ctx) -> Result:
    res = Result("C06")
    res.explanation = (
        "Decided: the single-photon outcome table of Source._single_photon_distribution is folded into polynomials in (brightness nu, sqrt(indistinguishability) p_i, p1): the six "
        "coefficients sum to 1 identically; at (1,1,1) the table is {[0]: 1} (ideal source); every entry carrying the per-photon distinguishable label vanishes at p_i = 1, every entry "
        "carrying the shared label 0 vanishes at p_i = 0 (zero indistinguishability = classical particles), every entry carrying the noise-photon label vanishes at p1 = 1; splitting by "
        "distinguishability creates no mass (c1 + c1d and c12d + c1d2d do not depend on p_i); the label allocator hands out two fresh labels per photon, advances by two and restarts "
        "above the shared label 0; every store into a distribution in Source and in annotated_state_pdist_calc is an accumulation idiom (label canonicalisation and output merging are "
        "many-to-one), the threshold path divides every kept weight by the kept total; validators accept exactly the documented ranges. Not decided: that the mixture is the physical "
        "model, g2, HOM visibility, normalisation after loss, purity_to_prob (a square root)."
    )
    res.assumptions = ["purity_to_prob maps purity to the single-photon probability p1 (treated as a free parameter in [0,1])"]
    S = ctx.ix.module(SRC).classes.get("Source")
    if S is None:
        raise AnalysisError("Source not found")
    sp = S.methods.get("_single_photon_distribution")
    if sp is None:
        raise AnalysisError("Source._single_photon_distribution not found")
    def _outcome_table_rules():
        Poly.rules = {}
        fd = Folder(angle_names=())
        nu, pi_, p1 = Poly.gen("nu"), Poly.gen("p_i"), Poly.gen("p1")
        # The outcome table may be built in pieces, some of them under a condition on one of the parameters
        # (`if p_d > 0: to_add += [...]`).  Every path through the function gives a table; on a path that assumed a
        # parameter expression to be zero / non-positive the identities are checked under that substitution.
        unfold = []

        def bind(name, v, env):
            s_ = src(v).replace(" ", "")
            if s_ == "self.brightness":
                env[name] = nu
            elif s_ in ("self.indistinguishability**0.5", "np.sqrt(self.indistinguishability)", "self.indistinguishability**(1/2)", "sqrt(self.indistinguishability)"):
                env[name] = pi_
            elif s_ == "purity_to_prob(self.purity)":
                env[name] = p1
            elif s_ in ("self._counter", "self._counter+1"):
                env[name] = name  # label symbol
            else:
                f2 = Folder(angle_names=())
                f2.env = env
                try:
                    env[name] = f2.fold(v)
                except NotFoldable as e:
                    unfold.append(f"`{name} = {src(v)[:50]}`: {e}")

        def table_elts(v):
            return v.elts if isinstance(v, ast.List) and all(isinstance(e_, ast.Tuple) and len(e_.elts) == 2 and isinstance(e_.elts[0], ast.List) for e_ in v.elts) else None

        def zero_subst(test, env, truth):
            """substitution implied by the outcome of a test `P > 0` / `P == 0` / `P` on a polynomial that is linear in one generator"""
            t = test
            neg = False
            if isinstance(t, ast.UnaryOp) and isinstance(t.op, ast.Not):
                t, neg = t.operand, True
            is_zero = None
            expr = None
            if isinstance(t, ast.Compare) and len(t.ops) == 1 and isinstance(t.comparators[0], ast.Constant) and t.comparators[0].value == 0:
                expr = t.left
                if isinstance(t.ops[0], (ast.Gt, ast.NotEq)):
                    is_zero = not truth
                elif isinstance(t.ops[0], (ast.Eq, ast.LtE)):
                    is_zero = truth
            elif isinstance(t, ast.Name):
                expr, is_zero = t, not truth
            if expr is None or is_zero is None:
                return None
            if neg:
                is_zero = not is_zero
            if not is_zero:
                return {}
            f2 = Folder(angle_names=())
            f2.env = dict(env)
            try:
                poly = f2.fold(expr)
            except NotFoldable:
                return None
            if not isinstance(poly, Poly):
                return None
            gens = list(poly.gens())
            if len(gens) != 1:
                return None
            g = gens[0]
            v0, v1 = poly.subs({g: 0}), poly.subs({g: 1})
            if v0.is_zero():
                return {g: 0}
            if v1.is_zero():
                return {g: 1}
            return None

        def walk_paths(stmts, env, entries, subst):
            paths = [(env, entries, subst)]
            for st in stmts:
                nxt = []
                for env_, ent_, sub_ in paths:
                    if isinstance(st, (ast.Assign, ast.AnnAssign)) and isinstance(st.targets[0] if isinstance(st, ast.Assign) else st.target, ast.Name) and (st.value is not None):
                        name = (st.targets[0] if isinstance(st, ast.Assign) else st.target).id
                        te = table_elts(st.value)
                        if te is not None:
                            env2 = dict(env_)
                            env2["__table__"] = name
                            nxt.append((env2, list(te), sub_))
                        else:
                            env2 = dict(env_)
                            bind(name, st.value, env2)
                            nxt.append((env2, ent_, sub_))
                    elif isinstance(st, ast.AugAssign) and isinstance(st.target, ast.Name) and st.target.id == env_.get("__table__") and isinstance(st.op, ast.Add) and table_elts(st.value) is not None:
                        nxt.append((env_, ent_ + list(table_elts(st.value)), sub_))
                    elif isinstance(st, ast.Expr) and isinstance(st.value, ast.Call) and isinstance(st.value.func, ast.Attribute) and st.value.func.attr in ("extend", "append") and src(st.value.func.value) == env_.get("__table__") and st.value.args:
                        arg = st.value.args[0]
                        te = table_elts(arg) if st.value.func.attr == "extend" else (table_elts(ast.List(elts=[arg], ctx=ast.Load())))
                        nxt.append((env_, ent_ + list(te), sub_) if te is not None else (env_, ent_, sub_))
                    elif isinstance(st, ast.If):
                        for truth, body in ((True, st.body), (False, st.orelse)):
                            zs = zero_subst(st.test, env_, truth)
                            sub2 = dict(sub_)
                            if zs:
                                sub2.update(zs)
                            nxt += walk_paths(body, dict(env_), list(ent_), sub2)
                    else:
                        nxt.append((env_, ent_, sub_))
                paths = nxt
            return paths

        env0 = {}
        all_paths = walk_paths(sp.node.body, env0, [], {})
        all_paths = [p_ for p_ in all_paths if p_[1]]
        if unfold:
            raise AnalysisError("_single_photon_distribution: " + "; ".join(unfold[:2]) + " is not polynomial")
        if not all_paths:
            raise AnalysisError("_single_photon_distribution: outcome table (list of (labels, coefficient)) not found")
        # the reference table: the path that collected most entries
        all_paths.sort(key=lambda p_: -len(p_[1]))
        fd.env = all_paths[0][0]
        entries = []
        for el in all_paths[0][1]:
            labels = [src(x) for x in el.elts[0].elts]
            coef = fd.fold(el.elts[1])
            entries.append((labels, coef, el))
        for env_, ent_, sub_ in all_paths[1:]:
            f3 = Folder(angle_names=())
            f3.env = env_
            tot = Poly()
            for el in ent_:
                tot = tot + f3.fold(el.elts[1])
            tot = tot.subs(sub_) if sub_ else tot
            cond = ", ".join(f"{k} = {v}" for k, v in sub_.items()) or "an unrecognised condition"
            res.add(tot == Poly.const(1), "Kp-table-normalised", f"sum of outcomes on the path with {cond}", sp.site(ent_[0]), sp.qualname, f"the {len(ent_)} outcomes collected on this path sum to 1 under {cond}",
                    f"on the path taken when {cond} only {len(ent_)} outcomes are collected and they sum to {tot}, not 1: the missing outcomes (e.g. the noise photon of an impure source) have non-zero probability there", construct=f"path {cond}")
        res.floor("outcome table entries", len(entries), 6)
        total = Poly()
        for _l, c, _e in entries:
            total = total + c
        res.add(total == Poly.const(1), "Kp-table-normalised", "sum of outcomes", sp.site(), sp.qualname, "the outcome probabilities sum to 1 for every (brightness, indistinguishability, purity)",
                f"outcome probabilities sum to {total}, not 1", construct="sum")
        one = {"nu": 1, "p_i": 1, "p1": 1}
        for labels, c, el in entries:
            v = c.subs(one)
            want = 1 if labels == ["0"] else 0
            res.add(v == Poly.const(want), "Kp-ideal-limit", f"labels {labels}", sp.site(el), sp.qualname, f"= {want} at perfect settings", f"at brightness = indistinguishability = purity = 1 the outcome {labels} has probability {v} (ideal source needs {want})", construct=str(labels))
        # which symbol is the per-photon distinguishable label and which the noise-photon label: by use
        for labels, c, el in entries:
            nm = str(labels)
            if "0" in labels:
                z = c.subs({"p_i": 0})
                res.add(z.is_zero(), "Kp-label-semantics", f"{nm}@p_i=0", sp.site(el), sp.qualname, "an outcome with the shared (indistinguishable) label has probability 0 at zero indistinguishability",
                        f"outcome {labels} carries the shared label but keeps probability {z} at zero indistinguishability: photons would still interfere", construct=nm)
            for lab in labels:
                if lab == "0":
                    continue
                # a fresh label: either the distinguishable copy of the source photon (vanishes at p_i = 1 unless it is the noise photon) or the noise photon (vanishes at p1 = 1)
                v_pi = c.subs({"p_i": 1})
                v_p1 = c.subs({"p1": 1})
                res.add(v_pi.is_zero() or v_p1.is_zero(), "Kp-label-semantics", f"{nm}:{lab}", sp.site(el), sp.qualname, "an outcome with a fresh label vanishes for a perfectly indistinguishable or perfectly pure source",
                        f"outcome {labels} with fresh label {lab} survives both at indistinguishability 1 ({v_pi}) and at purity 1 ({v_p1})", construct=nm)
        # grouping by photon content: splitting by distinguishability creates no mass
        def group(pred):
            t = Poly()
            for labels, c, _e in entries:
                if pred(labels):
                    t = t + c
            return t
        syms = sorted({l for labels, _c, _e in entries for l in labels if l != "0"})
        if len(syms) != 2:
            raise AnalysisError(f"expected two fresh label symbols, found {syms}")
        # the noise label is the one that appears together with the shared label 0
        noise = next((l for labels, _c, _e in entries for l in labels if "0" in labels and l != "0"), None)
        dist = [l for l in syms if l != noise][0]
        single = group(lambda L: len(L) == 1 and (L == ["0"] or L == [dist]))
        double = group(lambda L: len(L) == 2)
        res.add("p_i" not in single.gens() and "p_i" not in double.gens(), "Kp-split-conserves-mass", "distinguishability split", sp.site(), sp.qualname, "P(one source photon) and P(two photons) do not depend on the indistinguishability",
                f"the indistinguishability changes the photon-number statistics: single = {single}, double = {double}", construct="split")
        for labels, c, el in entries:
            if noise in labels:
                v = c.subs({"p1": 1})
                res.add(v.is_zero(), "Kp-label-semantics", f"{labels}@p1=1", sp.site(el), sp.qualname, "noise-photon outcomes vanish for a pure source", f"outcome {labels} keeps probability {v} at purity 1", construct=str(labels))
            if dist in labels:
                v = c.subs({"p_i": 1})
                res.add(v.is_zero(), "Kp-label-semantics", f"{labels}@p_i=1", sp.site(el), sp.qualname, "distinguishable-copy outcomes vanish at indistinguishability 1", f"outcome {labels} keeps probability {v} at indistinguishability 1", construct=str(labels))
        # ---- label allocator
        defs = {src(a.targets[0]): src(a.value).replace(" ", "") for a in walk_no_nested(sp.node) if isinstance(a, ast.Assign)}
        augs = [a for a in walk_no_nested(sp.node) if isinstance(a, ast.AugAssign) and src(a.target) == "self._counter"]
        vals = sorted(v for k, v in defs.items() if v.startswith("self._counter"))
        okl = vals == ["self._counter", "self._counter+1"] and len(augs) == 1 and isinstance(augs[0].op, ast.Add) and src(augs[0].value) == "2"
        res.add(okl, "M5-fresh-labels", "_single_photon_distribution", sp.site(), sp.qualname, "two fresh labels per photon, counter advanced by two", f"label allocation is {vals} with increment {[src(a) for a in augs]}: two photons can receive the same 'distinguishable' label and would interfere", construct=str(vals))
        full = S.methods["_build_statistics_full"]
        rst = [a for a in walk_no_nested(full.node) if isinstance(a, ast.Assign) and src(a.targets[0]) == "self._counter"]
        okr = len(rst) == 1 and isinstance(rst[0].value, ast.Constant) and isinstance(rst[0].value.value, int) and rst[0].value.value >= 1
        calls_after = [c for c in walk_no_nested(full.node) if isinstance(c, ast.Call) and src(c.func) == "self._full_distribution"]
        res.add(okr and bool(calls_after) and rst[0].lineno < calls_after[0].lineno, "M5-fresh-labels", "_build_statistics_full", full.site(), full.qualname, "counter restarts above the shared label 0 before each build", "label counter is not reset to a value > 0 before building (a fresh label can equal the shared label 0)", construct=src(rst[0]) if rst else "")
        flt = [r for r in walk_no_nested(sp.node) if isinstance(r, ast.Return)]
        res.add(bool(flt) and src(flt[0].value).replace(" ", "") == "[(s,p)fors,pinto_addifp>0]", "Kp-table-normalised", "returned entries", sp.site(flt[0]) if flt else sp.site(), sp.qualname, "all outcomes of positive probability are returned", "returned outcome list is not the table restricted to positive probabilities", construct=src(flt[0].value) if flt else "")

    try:
        _outcome_table_rules()
    except (AnalysisError, NotFoldable, ValueError, TypeError, KeyError, IndexError, AttributeError) as e_:
        # the single-photon outcome table is not in a form the folder can read (e.g. moved into another function / a
        # named tuple zipped with the labels): the polynomial identities are not decided on this tree
        res.frozen(False, "Kp-table-normalised", "sum of outcomes", sp.site(), sp.qualname, "", f"outcome table of _single_photon_distribution not folded: {str(e_)[:120]}", construct="table")
        res.floors.pop("outcome table entries", None)
    # ---- R-G in Source and the annotated path
    n = 0
    for m in ("_build_statistics", "_build_statistics_basic", "_remap_distribution", "_full_distribution", "_single_mode_distribution"):
        n += rg_mass.check_function(ctx, res, S.methods[m])
    n += rg_mass.check_function(ctx, res, ctx.func(PD, "pdist_calc"))
    rg_mass.g2_remainder_guard(ctx, res, ctx.func(PD, "pdist_calc"))
    n += rg_mass.check_function(ctx, res, ctx.func(PD, "annotated_state_pdist_calc"), exceptions={
        "unique_results[in_state[": ("identity slice (see C04)", __import__("lwsa.props.c04", fromlist=["x"]).identity_slice_exception)})
    res.floor("G stores in source model", n, 12)
    # labels are opaque names: Source._remap_distribution renumbers them by first appearance, so the convolution code
    # may compare labels with each other but never with a literal ("label 0 is the shared one" does not hold after remapping)
    apd = ctx.func(PD, "annotated_state_pdist_calc")
    label_vars = set()
    for n in walk_no_nested(apd.node):
        if isinstance(n, ast.For) and isinstance(n.target, ast.Name) and isinstance(n.iter, ast.Name) and n.iter.id in ("mode", "labels", "all_labels"):
            label_vars.add(n.target.id)
        if isinstance(n, ast.comprehension) and isinstance(n.target, ast.Name) and isinstance(n.iter, ast.Name) and n.iter.id in ("mode", "labels", "all_labels"):
            label_vars.add(n.target.id)
    if not label_vars:
        res.frozen(False, "Kp-labels-opaque", "annotated_state_pdist_calc", apd.site(), apd.qualname, "", "iteration over photon labels not recognised", construct="")
    lit = [c for c in walk_no_nested(apd.node) if isinstance(c, ast.Compare) and ((isinstance(c.left, ast.Name) and c.left.id in label_vars and any(isinstance(x, ast.Constant) for x in c.comparators)) or (isinstance(c.left, ast.Constant) and any(isinstance(x, ast.Name) and x.id in label_vars for x in c.comparators)))]
    res.add(not lit, "Kp-labels-opaque", "annotated_state_pdist_calc", apd.site(lit[0]) if lit else apd.site(), apd.qualname, "photon labels are only used as dictionary keys / compared with each other",
            f"`{src(lit[0]) if lit else ''}` gives a particular label value a meaning, but labels are renumbered by order of first appearance before they arrive here: photons sharing a non-zero label would no longer be grouped (their interference is lost)", construct=src(lit[0]) if lit else "")
    # brightness acts on every photon independently: the emitted / lost alternative is iterated once per photon of a mode
    bb = S.methods["_build_statistics_basic"]
    mode_loops = [l for l in walk_no_nested(bb.node) if isinstance(l, ast.For) and isinstance(l.iter, ast.Call) and src(l.iter.func) == "enumerate" and isinstance(l.target, ast.Tuple) and len(l.target.elts) == 2]
    verdict = None
    for l in mode_loops:
        cnt = src(l.target.elts[1])
        reads = [x for x in ast.walk(l) if isinstance(x, ast.Attribute) and x.attr == "brightness"]
        if not reads:
            continue
        par_ = {c_: n_ for n_ in ast.walk(l) for c_ in ast.iter_child_nodes(n_)}
        def per_photon(x):
            y = x
            while y is not None and y is not l:
                y = par_.get(y)
                if isinstance(y, ast.For) and isinstance(y.iter, ast.Call) and src(y.iter.func) == "range" and y.iter.args and cnt in src(y.iter.args[-1]):
                    return True
                if isinstance(y, ast.comprehension) and isinstance(y.iter, ast.Call) and src(y.iter.func) == "range" and y.iter.args and cnt in src(y.iter.args[-1]):
                    return True
                if isinstance(y, ast.BinOp) and isinstance(y.op, ast.Pow) and cnt in src(y.right):
                    return True
                if isinstance(y, ast.Call) and src(y.func).split(".")[-1] in ("comb", "binom", "pmf"):
                    return True
            return False
        verdict = all(per_photon(x) for x in reads)
        res.add(verdict, "I-source-per-photon", "_build_statistics_basic", bb.site(l), bb.qualname, "the emitted / lost alternative is applied once per photon of a mode (independent emissions)",
                f"brightness is applied once per occupied mode, not once per photon: the {cnt} photons of a mode are emitted or lost together, so partial emission (e.g. one of two photons) gets probability zero", construct=src(l)[:160])
    if verdict is None:
        res.frozen(False, "I-source-per-photon", "_build_statistics_basic", bb.site(), bb.qualname, "", "loop over the modes of the target state applying the brightness not recognised", construct="")
    bs = S.methods["_build_statistics"]
    tb = src(bs.node).replace(" ", "")
    rg_mass.renormalise_kept(ctx, res, bs, "G-threshold-renormalises", "_build_statistics", "kept weights are divided by the kept total", "threshold path does not renormalise over exactly the kept inputs")
    from ..guards import Lit as _Lit, Normaliser as _N, canon as _canon, cnf as _cnf
    from ..inline import with_helpers as _wh
    _nrm = _N(lambda e: repr(e.value) if isinstance(e, ast.Constant) else None)
    fast = None
    for n_ in walk_no_nested(bs.node):
        if isinstance(n_, ast.If) and any(isinstance(c, ast.Call) and isinstance(c.func, ast.Attribute) and "basic" in c.func.attr for b_ in n_.body + n_.orelse for c in ast.walk(b_)):
            fast = n_
    if fast is None:
        res.frozen(False, "Kp-ideal-limit", "_build_statistics:fast path", bs.site(), bs.qualname, "", "brightness-only fast path not recognised", construct="fast path")
    else:
        want = {frozenset({_canon("==", "self.purity", "1")}), frozenset({_canon("==", "self.indistinguishability", "1")})}
        in_body = any(isinstance(c, ast.Call) and isinstance(c.func, ast.Attribute) and "basic" in c.func.attr for b_ in fast.body for c in ast.walk(b_))
        got = set(_cnf(fast.test, _nrm, negate=not in_body))
        res.add(got == want, "Kp-ideal-limit", "_build_statistics:fast path", bs.site(fast), bs.qualname, "brightness-only fast path is taken exactly when purity = indistinguishability = 1",
                f"brightness-only fast path is taken under `{src(fast.test)}`", construct=src(fast.test))
    # ---- validators
    norm = Normaliser(lambda e: repr(e.value) if isinstance(e, ast.Constant) else None)
    qc = ctx.func(SRC, "quantity_check")
    re_guards.range_validator(ctx, res, qc, "value", 0, 1, norm=norm)
    pu = S.setters["purity"]
    facts = __import__("lwsa.guards", fromlist=["x"]).facts_at_end(pu.node, norm)
    from ..guards import canon
    need = [frozenset({canon(">", "value", "0.5")}), frozenset({canon("<=", "value", "1")})]
    res.add(all(nn in facts for nn in need), "E-range-validator", "Source.purity", pu.site(), pu.qualname, "purity accepted in (0.5, 1]", "purity validator does not enforce (0.5, 1]; established: " + "; ".join(" or ".join(map(str, f)) for f in facts), construct="purity")
    from ..rules import rz_falsy
    nz = rz_falsy.none_checks(ctx, res, "C06", rz_falsy.EMULATOR_EXTRA)
    res.floor("Z functions scanned", nz, 3)
    return res
