"""C15  State tomography reconstructs the prepared state."""

from __future__ import annotations

import ast

from ..fold import is_matrix
from ..index import walk_no_nested
from ..poly import mdag, meq, mmul
from ..report import Result
from ..rules import rc_owner, rk_tables
from ..source import AnalysisError, src

MAP = "lightworks/tomography/mappings.py"
UT = "lightworks/tomography/utils.py"
ST = "lightworks/tomography/state_tomography.py"


def check(ctx) -> Result:
    res = Result("C15")
    res.explanation = (
        "Decided: the measurement-basis circuits are folded from the module text (model Circuit(2)=I, Unitary(M)=M, c.add(g) = g.c - the left multiplication "
        "decided under C01) and satisfy U_P . PAULI[P] . U_P^dagger = PAULI[Z] for P in X, Y, Z (so '+1 <-> |1,0>, -1 <-> |0,1>' is right for every basis, including Y where "
        "real symmetric test states cannot see a sign), I measures like Z; the eigenvalue multipliers of _calculate_expectation_value equal the diagonal of PAULI[Z]; the I->Z "
        "reuse map is replace('I','Z') and results are looked up through it; exactly one circuit is created per required setting, each a copy of the base circuit followed by "
        "add(op, 2*i) for the i-th operator; the base circuit is never mutated; the Pauli expansion multiplies the expectation by the Kronecker product in the order of the "
        "measurement string and normalises by 2**n. Not decided: reconstruction arithmetic on data, fidelity."
    )
    res.assumptions = ["single-qubit gate classes mean their textbook matrices (C13)", "dual-rail convention |0> = photon in the first mode"]
    env = rk_tables.eval_module_tables(ctx, MAP)
    if "__unfoldable__" in env:
        raise AnalysisError("mappings.py: " + "; ".join(env["__unfoldable__"][:3]))
    P = env.get("PAULI_MAPPING")
    M = env.get("MEASUREMENT_MAPPING")
    if not isinstance(P, dict) or not isinstance(M, dict) or set(P) != {"I", "X", "Y", "Z"} or set(M) != {"I", "X", "Y", "Z"}:
        raise AnalysisError("PAULI_MAPPING / MEASUREMENT_MAPPING not folded to tables over I,X,Y,Z")
    from ..poly import mat
    refs = {"I": mat([[1, 0], [0, 1]]), "X": mat([[0, 1], [1, 0]]), "Y": mat([[0, -1j], [1j, 0]]), "Z": mat([[1, 0], [0, -1]])}
    for k in "IXYZ":
        res.add(meq(P[k], refs[k]), "K-pauli-table", f"PAULI_MAPPING[{k}]", MAP, "PAULI_MAPPING", f"is the Pauli matrix {k}", f"PAULI_MAPPING['{k}'] is not the Pauli {k} matrix", construct=f"PAULI[{k}]")
    for k in "XYZ":
        U = M[k].m
        lhs = mmul(mmul(U, P[k]), mdag(U))
        res.add(meq(lhs, P["Z"]), "K-measurement-basis", f"MEASUREMENT_MAPPING[{k}]", MAP, "MEASUREMENT_MAPPING",
                f"U_{k} . {k} . U_{k}^dagger = Z: measuring mode occupation after the basis change measures {k} with +1 on |1,0>",
                f"the basis-change circuit for {k} does not rotate {k} onto Z (eigenvalue signs / eigenbasis wrong): expectation values of {k} are mis-measured", construct=f"MEASUREMENT[{k}]")
    res.add(meq(M["I"].m, M["Z"].m), "K-measurement-basis", "MEASUREMENT_MAPPING[I]", MAP, "MEASUREMENT_MAPPING", "I is measured in the Z basis (results reused)", "I is not measured like Z although Z results are reused for I", construct="MEASUREMENT[I]")
    # eigenvalue convention
    ev = ctx.func(UT, "_calculate_expectation_value")
    zdiag = [P["Z"][0][0].value().real, P["Z"][1][1].value().real]
    # the per-qubit factor of the eigenvalue, decided per case over the paths of the inner loop body:
    #   operator I -> +1 ; qubit state |1,0> -> +1 ; |0,1> -> -1 ; anything else -> refused
    from ..inline import inlined as _inl
    evn = _inl(ev.node)
    inner = [l for l in ast.walk(evn) if isinstance(l, ast.For) and "split" in src(l.iter)]

    def _truth(t, case):
        """three-valued: case in {'I', 'A' (|1,0>), 'B' (|0,1>), 'X' (neither)}"""
        if isinstance(t, ast.UnaryOp) and isinstance(t.op, ast.Not):
            v = _truth(t.operand, case)
            return None if v is None else (not v)
        if isinstance(t, ast.BoolOp):
            vs = [_truth(x, case) for x in t.values]
            if isinstance(t.op, ast.And):
                return False if any(v is False for v in vs) else (True if all(v is True for v in vs) else None)
            return True if any(v is True for v in vs) else (False if all(v is False for v in vs) else None)
        if isinstance(t, ast.Compare) and len(t.ops) == 1 and isinstance(t.ops[0], (ast.Eq, ast.NotEq)):
            sides = [t.left, t.comparators[0]]
            neg = isinstance(t.ops[0], ast.NotEq)
            for x in sides:
                if isinstance(x, ast.Constant) and x.value == "I":
                    v = case == "I"
                    return (not v) if neg else v
                if isinstance(x, ast.Call) and src(x.func) == "State" and x.args and isinstance(x.args[0], (ast.List, ast.Tuple)):
                    lit = src(x.args[0]).replace(" ", "").strip("[]()")
                    if case == "I":
                        return None
                    v = (lit == "1,0" and case == "A") or (lit == "0,1" and case == "B")
                    if lit not in ("1,0", "0,1"):
                        return None
                    return (not v) if neg else v
        return None

    def _effects(body, case, factor=1):
        """set of outcomes: a number (product of the constant factors applied), 'raise', or 'unknown'"""
        out = set()
        cur = {factor}
        for st in body:
            if not cur:
                break
            if isinstance(st, ast.If):
                v = _truth(st.test, case)
                nxt = set()
                for f_ in cur:
                    res_b = _effects(st.body, case, f_) if v is not False else set()
                    res_e = _effects(st.orelse, case, f_) if v is not True else set()
                    if v is not False and not st.body:
                        res_b = {("cont", f_)}
                    if v is not True and not st.orelse:
                        res_e = {("cont", f_)}
                    for r_ in res_b | res_e:
                        if isinstance(r_, tuple) and r_[0] == "cont":
                            nxt.add(r_[1])
                        else:
                            out.add(r_)
                cur = nxt
            elif isinstance(st, ast.AugAssign) and isinstance(st.op, ast.Mult) and src(st.target) == "multiplier":
                k = st.value
                val = None
                if isinstance(k, ast.Constant) and isinstance(k.value, (int, float)):
                    val = k.value
                elif isinstance(k, ast.UnaryOp) and isinstance(k.op, ast.USub) and isinstance(k.operand, ast.Constant):
                    val = -k.operand.value
                cur = {f_ * val if val is not None and f_ != "unknown" else "unknown" for f_ in cur}
            elif isinstance(st, ast.Assign) and src(st.targets[0]) == "multiplier":
                cur = {"unknown"}
            elif isinstance(st, ast.Raise):
                out.add("raise")
                cur = set()
            elif isinstance(st, (ast.Continue, ast.Break)):
                out |= {("done", f_) for f_ in cur}
                cur = set()
            elif isinstance(st, (ast.For, ast.While)):
                cur = {"unknown"}
        return out | {("cont", f_) for f_ in cur}

    if len(inner) != 1:
        res.frozen(False, "K-eigenvalue-convention", "_calculate_expectation_value", ev.site(), ev.qualname, "", "loop over the operators of the measurement string not recognised", construct="")
    else:
        want = {"I": {1}, "A": {1}, "B": {-1}, "X": {"raise"}}
        got = {}
        for case in want:
            eff = _effects(inner[0].body, case)
            got[case] = {(e[1] if isinstance(e, tuple) else e) for e in eff}
        names = {"I": "operator I", "A": "qubit state |1,0>", "B": "qubit state |0,1>", "X": "any other occupation of the two modes"}
        if any("unknown" in v for v in got.values()):
            res.frozen(False, "K-eigenvalue-convention", "_calculate_expectation_value", ev.site(inner[0]), ev.qualname, "", f"eigenvalue factor not derived: {got}", construct=str(got))
        else:
            badc = [c for c in want if got[c] != want[c]]
            res.add(not badc and zdiag == [1.0, -1.0], "K-eigenvalue-convention", "_calculate_expectation_value", ev.site(inner[0]), ev.qualname, "|1,0> contributes +1 and |0,1> contributes -1 (the diagonal of PAULI[Z]), I contributes +1, other occupations are refused",
                    "eigenvalue factors do not match the diagonal of PAULI['Z'] " + str(zdiag) + ": " + "; ".join(f"{names[c]} gives {sorted(map(str, got[c]))}, expected {sorted(map(str, want[c]))}" for c in badc), construct=str({c: sorted(map(str, v)) for c, v in got.items()}))
    t = src(ev.node).replace(" ", "")
    res.frozen("state[2*j:2*j+2]" in t and "enumerate(measurement.split(','))" in t and "expectation/n_counts" in t and "expectation+=multiplier*counts" in t, "K-eigenvalue-convention", "_calculate_expectation_value:indexing", ev.site(), ev.qualname,
               "qubit j is read from modes (2j, 2j+1); weighted mean over counts", "expectation-value bookkeeping idiom not recognised", construct="indexing")
    # I -> Z reuse
    from ..inline import with_helpers as _whq
    rq = _whq(ctx, ctx.func(UT, "_get_required_tomo_measurements"))
    dc = [d for d in walk_no_nested(rq.node) if isinstance(d, ast.DictComp)]
    okr = False
    if dc:
        kv = src(dc[0].key)
        okr = isinstance(dc[0].key, ast.Name) and src(dc[0].value).replace("'", '"') == f'{kv}.replace("I", "Z")' and not dc[0].generators[0].ifs and src(dc[0].generators[0].target) == kv
    if not dc:
        res.frozen(False, "K-i-to-z-reuse", "_get_required_tomo_measurements", rq.site(), rq.qualname, "", "reuse map (dictionary comprehension over all settings) not recognised", construct="")
    else:
        other_repl = isinstance(dc[0].value, ast.Call) and isinstance(dc[0].value.func, ast.Attribute) and dc[0].value.func.attr == "replace" and not okr
        if okr:
            res.ok("K-i-to-z-reuse", "_get_required_tomo_measurements", rq.site(dc[0]), rq.qualname, "every setting maps to itself with I replaced by Z")
        elif other_repl or dc[0].generators[0].ifs:
            res.bad("K-i-to-z-reuse", "_get_required_tomo_measurements", rq.site(dc[0]), rq.qualname, "the reuse map is not replace('I', 'Z') over all settings", construct=src(dc[0]))
        else:
            res.frozen(False, "K-i-to-z-reuse", "_get_required_tomo_measurements", rq.site(dc[0]), rq.qualname, "", "value of the reuse map not recognised", construct=src(dc[0]))
    STc = ctx.ix.module(ST).classes.get("StateTomography")
    pr = STc.methods["process"]
    tp = src(pr.node).replace(" ", "")
    lc = [l for l in walk_no_nested(pr.node) if isinstance(l, ast.ListComp) and "self._create_circuit" in src(l.elt)]
    ok1 = bool(lc) and src(lc[0].generators[0].iter) == "req_measurements" and not lc[0].generators[0].ifs and "MEASUREMENT_MAPPING[g]forgingates.split(',')" in src(lc[0].elt).replace(" ", "")
    res.frozen(ok1, "I-one-circuit-per-setting", "StateTomography.process", pr.site(), pr.qualname, "one circuit per required measurement setting, operators in string order", "circuits are not created one per required setting from MEASUREMENT_MAPPING in string order", construct=src(lc[0])[:120] if lc else "")
    res.frozen("results_dict[result_mapping[c]]" in tp and "zip(req_measurements,all_results,strict=True)" in tp and "forcin_get_tomo_measurements(self.n_qubits)" in tp, "K-i-to-z-reuse", "StateTomography.process", pr.site(), pr.qualname,
            "results are paired with their settings in order and looked up through the reuse map for every setting", "results are not looked up through the I->Z reuse map for every full setting", construct="lookup")
    cc = STc.methods["_create_circuit"]
    tcc = src(cc.node).replace(" ", "")
    okc = "circuit=self.base_circuit.copy()" in tcc and "fori,opinenumerate(measurement_operators):" in tcc and "circuit.add(op,2*i)" in tcc
    rets = [r for r in walk_no_nested(cc.node) if isinstance(r, ast.Return)]
    res.frozen(okc and bool(rets) and src(rets[-1].value) == "circuit", "I-one-circuit-per-setting", "StateTomography._create_circuit", cc.site(), cc.qualname, "copy of the base circuit followed by add(op, 2*i) for the i-th operator", "measurement circuit is not base.copy() followed by add(op_i, 2*i)", construct="create")
    # nothing is carried over between process() calls (circuits and results are built from the *current* base circuit)
    from ..rules import rf_cache
    rf_cache.f3_result_fields(ctx, res, STc, pr)
    n = rc_owner.c1_fields(ctx, res, [STc])
    res.floor("held base circuit", n, 1)
    # every circuit handed to the experiment callback is a new object: never the held base circuit itself
    cs_ = ctx.eng.summary(cc)
    leaks = [l for l in cs_.returns.locs if l[0] != "F" and l[0] != "D"]
    res.add(bool(cs_.returns.locs) and not leaks, "C3-experiment-circuit-fresh", "StateTomography._create_circuit", cc.site(), cc.qualname, "returns a circuit created in this call on every path",
            "on some path the base circuit object itself is returned: an experiment callback that adjusts the circuits it is given (detector remapping, added loss) then edits the base circuit, and the next process() reconstructs a different state", construct=", ".join(sorted(map(str, leaks)))[:160])
    # Pauli expansion order and weights (decided on the helper-expanded function, factor order by kronorder.py)
    from .. import kronorder as _ko
    from ..inline import with_helpers as _wh2
    dm = ctx.func(UT, "_calculate_density_matrix")
    dmh = _wh2(ctx, dm, exclude=("_calculate_expectation_value",), inline_locals=False)
    dloops = [l for l in walk_no_nested(dmh.node) if isinstance(l, ast.For) and isinstance(l.target, ast.Tuple) and len(l.target.elts) == 2 and src(l.iter).endswith(".items()")]
    decided = False
    if dloops:
        lp_ = dloops[0]
        mname = src(lp_.target.elts[0])
        augs = [(i_, a_) for i_, a_ in enumerate(lp_.body) if isinstance(a_, ast.AugAssign) and isinstance(a_.op, ast.Add) and isinstance(a_.value, ast.BinOp) and isinstance(a_.value.op, ast.Mult)]
        if augs:
            i_, aug = augs[-1]
            before = lp_.body[:i_]
            # which operand is the operator product?
            verdicts = {}
            for n_ in (2, 3):
                got = None
                for operand in (aug.value.left, aug.value.right):
                    ev_ = _ko.Eval(n_, mname)
                    env_ = {}
                    ev_.run(before, env_)
                    try:
                        v_ = ev_.ev(operand, env_)
                    except _ko.Unknown:
                        continue
                    if isinstance(v_, tuple):
                        got = v_
                verdicts[n_] = got
            if all(v is not None for v in verdicts.values()):
                decided = True
                wrong = {n_: v for n_, v in verdicts.items() if v != tuple(range(n_))}
                res.add(not wrong, "K-pauli-expansion-order", "_calculate_density_matrix", dm.site(aug), dm.qualname, "tensor factors follow the order of the measurement string (qubit 0 leftmost) for 2 and 3 operators",
                        "Kronecker factors of the Pauli expansion are not in measurement-string order: " + "; ".join(f"for {n_} operators the product is built as positions {v}" for n_, v in wrong.items()) + " while the expectation value reads qubit j from modes (2j, 2j+1)", construct=src(aug)[:120])
            # weights: the coefficient is the expectation value of *this* setting (normalised by this setting's counts)
            names = set()
            for operand in (aug.value.left, aug.value.right):
                names |= {x.id for x in ast.walk(operand) if isinstance(x, ast.Name)}
            coef_src = " ".join(src(operand) for operand in (aug.value.left, aug.value.right))
            for _r in range(3):
                for st_ in before:
                    for a_ in ast.walk(st_):
                        if isinstance(a_, (ast.Assign, ast.AugAssign)):
                            t_ = a_.targets[0] if isinstance(a_, ast.Assign) else a_.target
                            if isinstance(t_, ast.Name) and t_.id in names:
                                coef_src += " " + src(a_.value)
                                names |= {x.id for x in ast.walk(a_.value) if isinstance(x, ast.Name)}
            per_setting = "_calculate_expectation_value(" in coef_src
            res.add(per_setting, "K-pauli-expansion-weights", "_calculate_density_matrix", dm.site(aug), dm.qualname, "each Pauli term is weighted by the expectation value of its own setting (normalised by that setting's counts)",
                    "the weight of a Pauli term is not the expectation value computed for its own measurement setting: settings with different total counts (different shot numbers, post-selection) are weighted by their counts", construct=src(aug)[:120])
            res.frozen("2**n_qubits" in coef_src.replace(" ", "") or "2**len(" in coef_src.replace(" ", ""), "K-pauli-expansion-weights", "_calculate_density_matrix:dimension", dm.site(aug), dm.qualname, "rho = sum <P> P / 2^n", "division by 2^n not recognised", construct="weights")
    if not decided:
        res.frozen(False, "K-pauli-expansion-order", "_calculate_density_matrix", dm.site(), dm.qualname, "", "construction of the Pauli operator product not recognised", construct="")
    # ---- conjugation / transposition parity (a Hermitian matrix and its transpose differ by complex conjugation)
    from .. import conjalg as ca
    from ..inline import inlined, with_helpers
    prh = with_helpers(ctx, pr, exclude=("_calculate_density_matrix",))
    stores = [a for a in ast.walk(prh.node) if isinstance(a, ast.Assign) and src(a.targets[0]) == "self._rho"]

    def cls_rho(e):
        if isinstance(e, ast.Call) and src(e.func).split(".")[-1] == "_calculate_density_matrix":
            return ca.Atom("rho", "herm")
        return None

    for a in stores:
        try:
            v = ca.norm(ca.Evaluator(cls_rho).ev(a.value))
            good = isinstance(v, ca.Atom) and v.name == "rho" and v.norm().t == 0
            res.add(good, "K-conj-density", "StateTomography.process", pr.site(a), pr.qualname, "the stored density matrix is the Pauli reconstruction itself (up to Hermitian identities)",
                    f"the stored density matrix is {v}: transposing a Hermitian matrix without conjugating it flips the sign of every imaginary off-diagonal element - invisible for real states (|0..0>, GHZ), wrong for states with complex relative phases", construct=src(a)[:160])
        except ca.Unknown as e:
            res.frozen(False, "K-conj-density", "StateTomography.process", pr.site(a), pr.qualname, "", f"stored value not expressed over the Pauli reconstruction: {e}", construct=src(a)[:160])
    if not stores:
        res.frozen(False, "K-conj-density", "StateTomography.process", pr.site(), pr.qualname, "", "store of the reconstructed density matrix not found", construct="")
    # Pauli factors enter the expansion unconjugated and untransposed (Y^T = Y* = -Y)
    dmi = inlined(ctx.func(UT, "_calculate_density_matrix").node)

    def cls_p(e):
        if isinstance(e, ast.Subscript) and "PAULI" in src(e.value):
            return ca.Atom("P", "herm")
        if isinstance(e, ast.Name) and e.id == "mat":
            return ca.Atom("acc", "realsym")
        return None

    nk = 0
    for c in ast.walk(dmi):
        if isinstance(c, (ast.Subscript,)) and "PAULI" in src(c.value) and isinstance(c.ctx, ast.Load):
            nk += 1
    parents = {ch: n_ for n_ in ast.walk(dmi) for ch in ast.iter_child_nodes(n_)}
    flipped = []
    for c in ast.walk(dmi):
        if isinstance(c, ast.Subscript) and "PAULI" in src(c.value) and isinstance(c.ctx, ast.Load):
            # climb through conj / T wrappers
            x, par_flips = c, 0
            while True:
                p_ = parents.get(x)
                if isinstance(p_, ast.Attribute) and p_.attr == "T":
                    par_flips ^= 1
                    x = p_
                elif isinstance(p_, ast.Attribute) and p_.attr in ("conj", "conjugate", "transpose") and isinstance(parents.get(p_), ast.Call):
                    par_flips ^= 1
                    x = parents[p_]
                elif isinstance(p_, ast.Call) and src(p_.func).split(".")[-1] in ("conj", "conjugate", "transpose") and x in p_.args:
                    par_flips ^= 1
                    x = p_
                else:
                    break
            if par_flips:
                flipped.append(x)
    res.add(not flipped, "K-conj-density", "_calculate_density_matrix", ctx.func(UT, "_calculate_density_matrix").site(flipped[0]) if flipped else ctx.func(UT, "_calculate_density_matrix").site(), "_calculate_density_matrix",
            "Pauli matrices enter the expansion as they are", f"a Pauli factor enters the expansion transposed or conjugated (`{src(flipped[0])[:60] if flipped else ''}`): Y^T = -Y, so every term containing Y changes sign", construct=src(flipped[0])[:100] if flipped else "")
    from ..rules import rz_falsy
    nz = rz_falsy.none_checks(ctx, res, "C15", ())
    res.floor("Z functions scanned", nz, 3)
    return res
