"""C19  Any constructible circuit can be displayed, without side effects."""

from __future__ import annotations

import ast

from ..guards import Lit, facts_at
from ..index import walk_no_nested
from ..report import Result
from ..rules import rc_owner
from ..rules.rc_owner import component_info
from ..source import AnalysisError, src

VIS = "lightworks/sdk/visualisation/"
SVG, MPL, DISP, COMP = VIS + "draw_circuit_svg.py", VIS + "draw_circuit_mpl.py", VIS + "display.py", VIS + "display_components_svg.py"
CIRC = "lightworks/sdk/circuit/circuit.py"


def check(ctx) -> Result:
    res = Result("C19")
    res.explanation = (
        "Decided (structural): (H3) every concrete component kind has a registered drawing handler in both back-ends' multimethod dispatchers (an "
        "unhandled kind would hit the raising fallback); every tag the SVG drawer writes into its draw spec has a branch in the renderer with a matching "
        "positional arity and the renderer's dispatch chain ends in raise DisplayError; (taint) a value returned by process_parameter_value (number or label "
        "string) reaches round / arithmetic / comparison only under `not isinstance(value, str)` in both back-ends; (C1) neither Display nor the drawer "
        "classes nor Circuit.display mutate the circuit, including through the alias of the circuit's internal-mode list they hold; (D) a label list of the "
        "wrong length raises DisplayError before any label is used, in both back-ends, and an unknown display type ends in raise DisplayError. Not decided: "
        "that the layout index arithmetic stays in range for every circuit."
    )
    res.assumptions = ["drawsvg / matplotlib calls do not raise on finite coordinates", "multimethod dispatches on the annotated class of the first argument"]
    comp, kinds, fields = component_info(ctx)
    sm, mm = ctx.ix.module(SVG), ctx.ix.module(MPL)
    DS, DM = sm.classes.get("DrawCircuitSVG"), mm.classes.get("DrawCircuitMPL")
    if DS is None or DM is None:
        raise AnalysisError("drawer classes not found")
    nh = 0
    for ci in (DS, DM):
        regs = ci.multimethods.get("_add", [])
        types = {}
        for f in regs:
            ps = f.node.args.args
            if len(ps) >= 2:
                for t in ctx.ix.ann_types(f.module, ps[1].annotation):
                    types[t] = f
        for k in kinds:
            nh += 1
            names = [c.name for c in ctx.ix.mro(k) if c.name != "Component"]
            h = next((types[n] for n in names if n in types), None)
            res.add(h is not None, "H3-kind-has-drawing-handler", f"{ci.name}:{k.name}", (h or regs[0]).site() if regs else ci.module.rel, ci.name, f"handled by {h.name if h else ''}",
                    f"component kind {k.name} has no registered handler in {ci.name}._add: displaying a circuit that contains it raises", construct=f"{ci.name}:{k.name}")
        fb = types.get("Any")
        res.add(fb is not None and any(isinstance(s, ast.Raise) for s in fb.node.body), "H3-kind-has-drawing-handler", f"{ci.name}:fallback", fb.site() if fb else ci.module.rel, ci.name, "unknown kinds are rejected explicitly", "fallback handler missing or silent", construct="fallback")
    res.floor("H3 kind x back-end pairs", nh, 14)
    # ---- draw-spec tags vs renderer
    tags = {}
    for f in DS.all_funcs():
        for n in walk_no_nested(f.node):
            if isinstance(n, ast.Tuple) and len(n.elts) == 2 and isinstance(n.elts[0], ast.Constant) and isinstance(n.elts[0].value, str) and isinstance(n.elts[1], ast.Tuple):
                tags.setdefault(n.elts[0].value, []).append((f, n, len(n.elts[1].elts)))
    R = ctx.ix.module(COMP).classes.get("DrawSVGComponents")
    add = R.methods["add"]
    branches = {}
    last_else = None
    for n in walk_no_nested(add.node):
        if isinstance(n, ast.If) and isinstance(n.test, ast.Compare) and isinstance(n.test.comparators[0], ast.Constant):
            calls = [c for b in n.body for c in ast.walk(b) if isinstance(c, ast.Call) and isinstance(c.func, ast.Attribute) and c.func.attr.startswith("_draw")]
            if calls:
                branches[n.test.comparators[0].value] = calls[0].func.attr
            if n.orelse and not (len(n.orelse) == 1 and isinstance(n.orelse[0], ast.If)):
                last_else = n.orelse
    res.floor("draw-spec tags", len(tags), 8)
    for tag, uses in sorted(tags.items()):
        for f, node, ar in uses:
            h = branches.get(tag)
            if h is None or h not in R.methods:
                res.bad("H3-tag-has-renderer", f"{f.qualname}:{tag}", f.site(node), f.qualname, f"draw-spec tag '{tag}' has no branch in DrawSVGComponents.add: drawing raises DisplayError", construct=src(node)[:80])
                continue
            a = R.methods[h].node.args
            npos = len(a.args) - 1
            nreq = npos - len(a.defaults)
            res.add(nreq <= ar <= npos, "H3-tag-has-renderer", f"{f.qualname}:{tag}/{ar}", f.site(node), f.qualname, f"rendered by {h} ({nreq}..{npos} positional)",
                    f"draw-spec entry '{tag}' carries {ar} values but {h} takes {nreq}..{npos}: drawing raises TypeError", construct=src(node)[:80])
    res.add(last_else is not None and any(isinstance(s, ast.Raise) and "DisplayError" in src(s) for s in last_else), "H4-dispatch-total", "DrawSVGComponents.add", add.site(), add.qualname, "unknown tags end in raise DisplayError", "renderer dispatch chain does not end in raise DisplayError", construct="add")
    # ---- taint: parameter values may be label strings
    nt = 0

    def _numeric_uses(fn_node, v):
        out = []
        for n in walk_no_nested(fn_node):
            if isinstance(n, ast.Call) and src(n.func) in ("round", "np.round", "int", "float", "abs") and any(isinstance(x, ast.Name) and x.id == v for arg in n.args for x in ast.walk(arg)):
                out.append(n)
            elif isinstance(n, ast.BinOp) and not isinstance(n.op, ast.Add) and any(isinstance(x, ast.Name) and x.id == v for x in (n.left, n.right)):
                out.append(n)
            elif isinstance(n, ast.Compare) and isinstance(n.left, ast.Name) and n.left.id == v and isinstance(n.ops[0], (ast.Lt, ast.Gt, ast.LtE, ast.GtE)):
                out.append(n)
        return out

    def _stmt_of(n, par):
        while not isinstance(n, ast.stmt):
            n = par[n]
        return n

    def _expr_guarded(use, par, v):
        """the use sits in the branch of a conditional expression / `and` chain that excludes strings"""
        n = use
        while not isinstance(n, ast.stmt):
            p_ = par[n]
            if isinstance(p_, ast.IfExp):
                t = src(p_.test).replace(" ", "")
                if (n is p_.orelse and t == f"isinstance({v},str)") or (n is p_.body and t == f"notisinstance({v},str)"):
                    return True
            if isinstance(p_, ast.BoolOp) and isinstance(p_.op, ast.And) and n is not p_.values[0] and any(src(x).replace(" ", "") == f"notisinstance({v},str)" for x in p_.values[:p_.values.index(n)]):
                return True
            n = p_
        return False

    def _helper_numeric(call, frel, v):
        """positional parameters of a repository helper that receive v and are used as numbers there without a string guard"""
        out = []
        if not isinstance(call.func, ast.Name):
            return out
        r = ctx.ix.resolve(frel, call.func.id)
        g = r[1] if r and r[0] == "func" else None
        if g is None or g.name == "process_parameter_value":
            return out
        gp = g.params()
        gpar = ctx.tree.parents(g.rel)
        for k, a_ in enumerate(call.args):
            if isinstance(a_, ast.Name) and a_.id == v and k < len(gp):
                for u in _numeric_uses(g.node, gp[k]):
                    facts = facts_at(g.node, _stmt_of(u, gpar)) or []
                    if frozenset({Lit("notisinstance", gp[k], "str")}) not in facts and not _expr_guarded(u, gpar, gp[k]):
                        out.append((g, u))
        return out
    for ci in (DS, DM):
        for f in ci.all_funcs():
            srcs = [a for a in walk_no_nested(f.node) if isinstance(a, ast.Assign) and isinstance(a.value, ast.Call) and src(a.value.func) == "process_parameter_value" and isinstance(a.targets[0], ast.Name)]
            for a in srcs:
                v = a.targets[0].id
                par = ctx.tree.parents(f.rel)
                uses = [(u, "") for u in _numeric_uses(f.node, v)]
                for n in walk_no_nested(f.node):
                    if isinstance(n, ast.Call):
                        hn = _helper_numeric(n, f.module, v)
                        if hn:
                            nt += len(hn) - 1
                            uses.append((n, f" (`{hn[0][0].qualname}` computes `{src(hn[0][1])[:40]}` with it)"))
                for use, extra in uses:
                    st = _stmt_of(use, par)
                    facts = facts_at(f.node, st) or []
                    nt += 1
                    ok = frozenset({Lit("notisinstance", v, "str")}) in facts or _expr_guarded(use, par, v)
                    res.add(ok, "T-numeric-use-guarded", f"{f.qualname}:{v}", f.site(use), f.qualname, "numeric formatting only when the value is not a label string",
                            f"`{src(use)[:60]}` uses parameter value `{v}`{extra}, which is a label string when the Parameter has a label and values are not shown: display raises TypeError", construct=src(use)[:100])
    res.floor("T numeric uses of parameter values", nt, 6)
    # every parameter-bearing field drawn goes through process_parameter_value
    for ci in (DS, DM):
        for hname, fld in (("_add_ps", "phi"), ("_add_bs", "reflectivity"), ("_add_loss", "loss")):
            f = next((x for x in ci.multimethods.get("_add", []) if x.name == hname), None)
            if f is None:
                continue
            raw = [n for n in walk_no_nested(f.node) if isinstance(n, ast.Attribute) and n.attr == fld and src(n.value) == "spec"]
            par = ctx.tree.parents(f.rel)
            ok = bool(raw) and all(isinstance(par.get(n), ast.Call) and src(par[n].func) == "process_parameter_value" for n in raw)
            res.add(ok, "T-parameter-through-accessor", f"{f.qualname}:{fld}", f.site(), f.qualname, "field read only through process_parameter_value", f"spec.{fld} (possibly a Parameter object) is used without process_parameter_value", construct=f"{f.qualname}:{fld}")
    # ---- aggregates over a component's own collection (barrier modes, swap dictionary) tolerate the empty collection,
    #      which the construction API allows (barrier([]), mode_swaps({}))
    na = 0

    def check_aggregates(f, aliases, depth=0):
        nonlocal na
        aliases = set(aliases)
        for a in walk_no_nested(f.node):
            if isinstance(a, ast.Assign) and isinstance(a.targets[0], ast.Name) and any(al in src(a.value) for al in aliases if "." in al):
                aliases.add(a.targets[0].id)
        par = ctx.tree.parents(f.rel)
        for c in walk_no_nested(f.node):
            if isinstance(c, ast.Call) and src(c.func) in ("max", "min") and len(c.args) == 1 and not any(k.arg == "default" for k in c.keywords):
                a0 = c.args[0]
                over = None
                if isinstance(a0, (ast.GeneratorExp, ast.ListComp)):
                    it = src(a0.generators[0].iter)
                    over = it if it in aliases else None
                elif src(a0) in aliases:
                    over = src(a0)
                if over is None:
                    continue
                na += 1
                st = c
                while not isinstance(st, ast.stmt):
                    st = par[st]
                facts = facts_at(f.node, st) or []
                guarded = any(f_ == frozenset({Lit("truthy", al)}) for f_ in facts for al in list(aliases) + [over])
                res.add(guarded, "E-aggregate-over-possibly-empty", f"{f.qualname}:{src(c)[:40]}", f.site(c), f.qualname, "guarded by an emptiness test (or default=)",
                        f"`{src(c)[:60]}` raises ValueError when `{over}` is empty, and the construction API accepts an empty collection here (barrier([]), mode_swaps({{}})): a constructible circuit cannot be displayed", construct=src(c)[:100])
            # the collection handed on to a helper of the drawer: the helper is checked with its parameter as the collection
            if depth < 2 and isinstance(c, ast.Call) and isinstance(c.func, ast.Attribute) and src(c.func.value) == "self" and f.cls is not None and c.func.attr in f.cls.methods:
                h = f.cls.methods[c.func.attr]
                hp = h.params()[1:]
                for p_, a_ in list(zip(hp, c.args)) + [(k.arg, k.value) for k in c.keywords if k.arg]:
                    if src(a_) in aliases:
                        check_aggregates(h, {p_}, depth + 1)

    for ci in (DS, DM):
        for f in ci.multimethods.get("_add", []):
            check_aggregates(f, {"spec.modes", "spec.swaps"})
    res.floor("aggregates over component collections", na, 2)
    # ---- no side effects on the circuit
    n1 = rc_owner.c1_arguments(ctx, res, only_rels={SVG, MPL, DISP})
    res.floor("C1 display parameters", n1, 3)
    n3 = rc_owner.c1_fields(ctx, res, [DS, DM])
    res.floor("C1 held circuit fields", n3, 4)
    rc_owner.c1_self_readonly(ctx, res, [(CIRC, "Circuit.display", None)])
    # ---- option validation
    from ..inline import with_helpers as _wh
    for ci, fn in ((DS, "__init__"), (DM, "draw")):
        f = _wh(ctx, ci.methods[fn], inline_locals=False)
        guards = [n for n in walk_no_nested(f.node) if isinstance(n, ast.If) and "len(" in src(n.test) and "mode_labels" in src(n.test) and any(isinstance(b, ast.Raise) and "DisplayError" in src(b) for b in n.body)]
        uses = [n for n in walk_no_nested(f.node) if isinstance(n, ast.Subscript) and "mode_labels" in src(n.value) and isinstance(n.ctx, ast.Load)]
        from ..inline import preorder_index as _pre
        _ix = _pre(f.node)
        ok = bool(guards) and bool(uses) and all(_ix[id(g)] < _ix[id(u)] for g in guards for u in uses)
        exp = False
        if guards:
            t = guards[0].test
            rhs = src(t.comparators[0]) if isinstance(t, ast.Compare) else ""
            defs = [a.value for a in walk_no_nested(f.node) if isinstance(a, ast.Assign) and src(a.targets[0]) == rhs]
            exp = isinstance(t, ast.Compare) and isinstance(t.ops[0], ast.NotEq) and bool(defs) and src(defs[0]).replace(" ", "") == "self.n_modes-len(self.herald_modes)"
        res.add(ok and exp, "D-label-length-checked", f"{ci.name}.{fn}", f.site(), f.qualname, "len(mode_labels) != usable modes raises DisplayError before any label is used",
                "a label list of the wrong length is not rejected with DisplayError before labels are used (IndexError or silently wrong labels)", construct=src(guards[0].test) if guards else "")
    d = ctx.func(DISP, "Display")
    last = d.node.body[-1]
    res.add(isinstance(last, ast.Raise) and "DisplayError" in src(last), "D-unknown-display-type", "Display", d.site(last), d.qualname, "unknown display type ends in raise DisplayError", "an unknown display type is no longer rejected with DisplayError", construct=src(last)[:80])
    from ..rules import rz_falsy
    nz = rz_falsy.none_checks(ctx, res, "C19", ())
    res.floor("Z functions scanned", nz, 3)
    return res
