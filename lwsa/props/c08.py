"""C08  Operations never modify their arguments; failed calls change nothing."""

from __future__ import annotations

import ast

from ..index import walk_no_nested
from ..report import Result
from ..rules import rc_owner, rd_atomic
from ..source import src

CIRC = "lightworks/sdk/circuit/circuit.py"
CONSTRUCTION_CALLS = ["add", "bs", "ps", "loss", "barrier", "mode_swaps", "herald"]
READONLY = [
    (CIRC, "Circuit.__add__", None), (CIRC, "Circuit.copy", None), (CIRC, "Circuit.U", "getter"),
    (CIRC, "Circuit.U_full", "getter"), (CIRC, "Circuit.n_modes", "getter"), (CIRC, "Circuit.input_modes", "getter"),
    (CIRC, "Circuit.heralds", "getter"), (CIRC, "Circuit.display", None), (CIRC, "Circuit.get_all_params", None),
    (CIRC, "Circuit._build", None), (CIRC, "Circuit._build_process", None), (CIRC, "Circuit._get_circuit_spec", None),
    (CIRC, "Circuit._freeze_params", None), (CIRC, "Circuit._map_mode", None), (CIRC, "Circuit._mode_in_range", None),
    (CIRC, "Circuit._external_heralds", "getter"),
]
HOLDERS = ["Simulator", "Sampler", "QuickSampler", "Analyzer", "Reck", "StateTomography", "ProcessTomography",
           "LIProcessTomography", "MLEProcessTomography", "GateFidelity", "DrawCircuitSVG", "DrawCircuitMPL",
           "QiskitConverter", "SamplingResult", "SimulationResult", "Optimisation"]


def modeswaps_precondition(ctx, fi, callnode):
    """Exception-table precondition for Circuit.add -> ModeSwaps(swaps): the argument is built as a
    bijection on range(n): every key stored is the loop variable of a `for <i> in range(...)`, every value is
    `<table>[<i>]` of the provisional table or the free-mode counter that skips the table's values.  The builder
    may live in `add` itself or in a helper method whose result is passed on."""
    call = callnode
    if not (isinstance(call, ast.Call) and call.args and isinstance(call.args[0], ast.Name)):
        return "unrecognised: argument of ModeSwaps is not a plain local"
    name = call.args[0].id
    fn = fi.node
    defs = [a.value for a in walk_no_nested(fn) if isinstance(a, ast.Assign) and len(a.targets) == 1 and src(a.targets[0]) == name]
    for d in defs:
        if isinstance(d, ast.Call) and isinstance(d.func, ast.Attribute) and src(d.func.value) in ("self", fi.cls.name) and d.func.attr in fi.cls.methods:
            helper = fi.cls.methods[d.func.attr]
            rets = [r.value for r in walk_no_nested(helper.node) if isinstance(r, ast.Return) and r.value is not None]
            if len(rets) == 1 and isinstance(rets[0], ast.Name):
                fn, name = helper.node, rets[0].id
    stores, loops = [], {}
    for n in walk_no_nested(fn):
        if isinstance(n, ast.For):
            for m in ast.walk(n):
                if isinstance(m, ast.Assign) and isinstance(m.targets[0], ast.Subscript) and isinstance(m.targets[0].value, ast.Name) and m.targets[0].value.id == name:
                    loops[id(m)] = n
                    if m not in stores:
                        stores.append(m)
        if isinstance(n, ast.Assign) and isinstance(n.targets[0], ast.Subscript) and isinstance(n.targets[0].value, ast.Name) and n.targets[0].value.id == name:
            if n not in stores:
                stores.append(n)
    if not stores:
        return f"unrecognised: no store into {name} found"
    for st in stores:
        loop = loops.get(id(st))
        if loop is None or not (isinstance(loop.iter, ast.Call) and isinstance(loop.iter.func, ast.Name) and loop.iter.func.id == "range" and isinstance(loop.target, ast.Name)):
            return f"store {src(st)} is not inside a `for i in range(...)` loop"
        key = st.targets[0].slice
        if not (isinstance(key, ast.Name) and key.id == loop.target.id):
            return f"key of {src(st)} is not the loop variable"
        v = st.value
        ok = (isinstance(v, ast.Subscript) and isinstance(v.slice, ast.Name) and v.slice.id == loop.target.id) or isinstance(v, ast.Name)
        if not ok:
            return f"value of {src(st)} is neither table[i] nor the free-mode counter"
    return None


def check(ctx) -> Result:
    res = Result("C08")
    res.explanation = (
        "Decided (structural, all histories): (C1) no function mutates an object that may alias a Circuit/State-typed "
        "parameter, enumerated read-only operations do not write their receiver, and no long-lived helper writes through "
        "a circuit/state it holds - a may-alias + mutation-effect analysis with bottom-up summaries over the whole package; "
        "(C2) every in-place write to a component is on a copy made in the same function (circuits share component objects); "
        "(C3) Circuit.copy/__add__/_get_circuit_spec return objects none of whose container fields is shared; (D) in each "
        "construction call no statement that may raise is reachable after the first write to the receiver. "
        "Not decided: nothing numeric is involved; the claim is an over-approximation of all call sequences under the stated assumptions."
    )
    res.assumptions = [
        "third-party callees (numpy, copy, builtins) do not mutate repository objects passed to them and raise only on invalid data already rejected by the preceding validation",
        "copy.copy/deepcopy/list/dict/sorted have their documented semantics",
        "two distinct parameters of one call do not alias each other",
    ]
    n1 = rc_owner.c1_arguments(ctx, res)
    res.floor("C1 protected parameters", n1, 45)
    n2 = rc_owner.c1_self_readonly(ctx, res, READONLY)
    holders = [ctx.ix.cls(h) for h in HOLDERS if ctx.ix.find_class(h)]
    res.floor("holder classes", len(holders), 12)
    n3 = rc_owner.c1_fields(ctx, res, holders)
    res.floor("C1 held objects", n3, 10)
    n4 = rc_owner.c2_copy_on_write(ctx, res)
    res.floor("C2 component field writes", n4, 20)
    n5 = 0
    for qn in ("Circuit.copy", "Circuit.__add__", "Circuit._get_circuit_spec"):
        n5 += rc_owner.c3_fresh_fields(ctx, res, ctx.func(CIRC, qn))
    res.floor("C3 copied fields", n5, 8)
    exc = {"ModeSwaps": ("Circuit.add builds `swaps` as a permutation of range(n) restricted to its non-fixed points, so ModeSwaps' completeness check cannot fail", modeswaps_precondition)}
    for m in CONSTRUCTION_CALLS:
        fi = ctx.func(CIRC, f"Circuit.{m}")
        rd_atomic.no_raise_after_write(ctx, res, fi, exceptions=exc if m == "add" else None)
    for qn in ("CompiledCircuit.add_herald",):
        rd_atomic.no_raise_after_write(ctx, res, ctx.func("lightworks/sdk/circuit/compiler.py", qn))
    res.floor("D raise points", res.stats.get("raise_points", 0), 15)
    res.floor("D write points", res.stats.get("write_points", 0), 10)
    res.count("functions_analysed", len(ctx.eng.memo))
    res.count("files", len(ctx.tree.files))
    res.count("resolved_calls", sum(s.resolved_calls for s in ctx.eng.memo.values()))
    res.count("unknown_calls", sum(s.unknown_calls for s in ctx.eng.memo.values()))
    from ..rules import rz_falsy
    nz = rz_falsy.none_checks(ctx, res, "C08", ())
    res.floor("Z functions scanned", nz, 3)
    return res
